# -*- coding: utf-8 -*-
"""Entry points that run inside a pristine grandchild of the zygote (a process in which nothing has been
evaluated yet): used by differential oracles of the form "after this history the outcome equals the outcome of
the same formula as the only evaluation of a fresh process"."""


def run(payload):
    """payload: {'formulas': [text, ...], 'vars': {...} or None} -> [outcome, ...] evaluated in order on ONE Env"""
    from .core import Env
    env = Env()
    vars_ = payload.get('vars')
    if vars_:
        vars_ = dict((k, env.dec(v)) for k, v in vars_.items())
    return [env.evo(f, vars=vars_) for f in payload['formulas']]
