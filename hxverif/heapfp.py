# -*- coding: utf-8 -*-
"""Canonical heap fingerprint (DESIGN 4.2).

A structural description of everything reachable from the module dictionaries of hotxlfp.* and
ply.* and from given root objects, flattened to {path: leaf description}.  Object identity is
canonicalised by first-visit path, so two heaps with the same shape fingerprint equal.
Exceptions contribute the length of their __traceback__ chain (this is what makes the
traceback accumulation on shared error singletons visible)."""
import hashlib
import re
import sys
import types

_PRIM = (int, float, complex, str, bytes, bool, type(None))
_RE = type(re.compile(''))
MAX_OBJECTS = 200000


def _tb_len(tb):
    n = 0
    while tb is not None:
        n += 1
        tb = tb.tb_next
    return n


class _Walker(object):
    def __init__(self):
        self.memo = {}
        self.out = {}
        self.count = 0

    def leaf(self, path, text):
        self.out[path] = text

    def walk(self, path, o, depth=0):
        self.count += 1
        if self.count > MAX_OBJECTS or depth > 60:
            self.leaf(path, '<cut>')
            return
        if isinstance(o, _PRIM):
            r = repr(o)
            self.leaf(path, r if len(r) < 200 else 'long:%d:%s' % (len(r), hashlib.sha1(r.encode('utf-8', 'replace')).hexdigest()[:12]))
            return
        oid = id(o)
        if oid in self.memo:
            self.leaf(path, '->' + self.memo[oid])
            return
        self.memo[oid] = path
        t = type(o)
        if t in (list, tuple):
            self.leaf(path, '%s[%d]' % (t.__name__, len(o)))
            for i, x in enumerate(o):
                self.walk('%s[%d]' % (path, i), x, depth + 1)
        elif t is dict or (isinstance(o, dict) and t.__module__ == 'collections'):
            self.leaf(path, '%s{%d}' % (t.__name__, len(o)))
            items = []
            for k, v in o.items():
                items.append((self.keyrepr(k), v))
            items.sort(key=lambda kv: kv[0])
            for k, v in items:
                self.walk('%s{%s}' % (path, k), v, depth + 1)
        elif t in (set, frozenset):
            self.leaf(path, '%s:%s' % (t.__name__, sorted(self.keyrepr(x) for x in o)))
        elif isinstance(o, types.ModuleType):
            self.leaf(path, 'module:' + o.__name__)
        elif isinstance(o, types.FunctionType):
            self.leaf(path, 'function:%s.%s' % (o.__module__, o.__qualname__))
            if o.__defaults__:
                self.walk(path + '.__defaults__', o.__defaults__, depth + 1)
            if o.__kwdefaults__:
                self.walk(path + '.__kwdefaults__', o.__kwdefaults__, depth + 1)
            if o.__closure__:
                for i, cell in enumerate(o.__closure__):
                    try:
                        self.walk('%s.<cell %s>' % (path, o.__code__.co_freevars[i]), cell.cell_contents, depth + 1)
                    except ValueError:
                        self.leaf('%s.<cell %d>' % (path, i), '<empty>')
            if o.__dict__:
                self.walk(path + '.__dict__', o.__dict__, depth + 1)
        elif isinstance(o, types.MethodType):
            self.leaf(path, 'method:%s' % getattr(o.__func__, '__qualname__', '?'))
            self.walk(path + '.__self__', o.__self__, depth + 1)
        elif isinstance(o, type):
            self.leaf(path, 'class:%s.%s' % (o.__module__, o.__qualname__))
            mod = o.__module__ or ''
            if mod.startswith('hotxlfp') or mod.startswith('ply'):
                for k in sorted(vars(o)):
                    if k.startswith('__') and k.endswith('__'):
                        continue
                    self.walk('%s.%s' % (path, k), vars(o)[k], depth + 1)
        elif isinstance(o, BaseException):
            self.leaf(path, 'exc:%s tb=%d ctx=%s cause=%s' % (t.__name__, _tb_len(o.__traceback__),
                                                             o.__context__ is not None, o.__cause__ is not None))
            self.walk(path + '.args', o.args, depth + 1)
            if getattr(o, '__dict__', None):
                self.walk(path + '.__dict__', o.__dict__, depth + 1)
        elif t is _RE:
            self.leaf(path, 're:%r' % (o.pattern[:80] if isinstance(o.pattern, str) else o.pattern))
        elif t in (types.BuiltinFunctionType, types.CodeType, types.FrameType, types.TracebackType, types.GeneratorType):
            self.leaf(path, '<%s>' % t.__name__)
        else:
            mod = t.__module__ or ''
            self.leaf(path, 'obj:%s.%s' % (mod, t.__qualname__))
            if mod.startswith('hotxlfp') or mod.startswith('ply') or mod.startswith('hxverif'):
                d = getattr(o, '__dict__', None)
                if d is not None:
                    self.walk(path + '.__dict__', d, depth + 1)
                for cls in t.__mro__:
                    for s in getattr(cls, '__slots__', ()) or ():
                        if isinstance(s, str) and hasattr(o, s):
                            self.walk('%s.%s' % (path, s), getattr(o, s), depth + 1)
            elif isinstance(o, tuple):      # namedtuple
                for i, x in enumerate(o):
                    self.walk('%s[%d]' % (path, i), x, depth + 1)

    def keyrepr(self, k):
        if isinstance(k, _PRIM):
            return repr(k)[:80]
        if isinstance(k, tuple):
            return '(' + ','.join(self.keyrepr(x) for x in k) + ')'
        if isinstance(k, type):
            return 'class:' + k.__qualname__
        if isinstance(k, BaseException):
            return 'exc:%s%r' % (type(k).__name__, k.args)
        return 'obj:' + type(k).__qualname__


def module_roots():
    roots = {}
    for name in sorted(sys.modules):
        if name == 'hotxlfp' or name.startswith('hotxlfp.') or name == 'ply' or name.startswith('ply.'):
            m = sys.modules[name]
            if m is not None:
                roots['M:' + name] = m.__dict__
    return roots


def fingerprint(extra_roots=None, skip=None):
    """-> (hexdigest, {path: leaf})"""
    w = _Walker()
    roots = module_roots()
    for k, v in (extra_roots or {}).items():
        roots['R:' + k] = v
    for name in sorted(roots):
        d = roots[name]
        if isinstance(d, dict) and name.startswith('M:'):
            for k in sorted(d):
                if k.startswith('__') and k.endswith('__'):
                    continue
                if skip and skip(name, k):
                    continue
                w.walk('%s.%s' % (name, k), d[k])
        else:
            w.walk(name, d)
    h = hashlib.sha1()
    for p in sorted(w.out):
        h.update(p.encode('utf-8', 'replace'))
        h.update(b'=')
        h.update(w.out[p].encode('utf-8', 'replace'))
        h.update(b'\n')
    return h.hexdigest(), w.out


def diff(a, b, limit=12):
    out = []
    for p in sorted(set(a) | set(b)):
        if a.get(p) != b.get(p):
            out.append('%s: %s -> %s' % (p, a.get(p), b.get(p)))
            if len(out) >= limit:
                break
    return out
