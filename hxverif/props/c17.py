# -*- coding: utf-8 -*-
"""C17 - rounding and integer functions, radix conversions, termination  (K3).

Every sub-check enumerates a finite product of inputs completely and evaluates through
Parser.parse (env.ev).  The reference oracles are written in exact rationals / plain Python
(own digit extraction, own Roman-numeral evaluator, own factorial) and share no code with
hotxlfp.

Termination: the BASE/DECIMAL, BASE-error, ROMAN and FACT sub-checks run every evaluation
under a deterministic step budget (sys.monitoring LINE events, sys.settrace as a fallback):
more than STEP_LIMIT line events inside one parse raise a BaseException subclass that the
catch-all of Parser.parse cannot swallow, and the case is reported as "does not terminate
within the step budget".  The hook is armed per evaluation and removed in a finally block.

Two readings of a decimal fraction (DESIGN R2): a number spelled 0.1 is either the decimal it
spells or the double it is; an answer that is right for either reading (of every argument)
is accepted."""
import os
import re
import sys
from fractions import Fraction as F

from ..core import Siblings, WholeFloats, Sub, fail, close, lit

STEP_LIMIT = 200000
MAX_FAILS_PER_KIND = 5       # a block case reports at most this many failing inputs per kind of failure
HXDIR = os.path.dirname(os.path.dirname(os.path.abspath(__file__)))      # .../hxverif

# delivery-channel and host-type differential (core.Env): of every 6 evaluations that bind variables, one is repeated with the
# values handed in by the cell/range listeners, one with the values returned by custom functions and one with every value an
# instance of a trivial subclass of its type (numpy.float64, IntEnum, rich-text str ... are such); outcomes must agree
CHANNELS = 6

BOUNDS = {
    'quick': 'ROUND/ROUNDUP/ROUNDDOWN: {k/4:|k|<=40} + float-typed integers + 34 decimal fractions + integers '
             '-250..250, digits -6..6 (variables; literals for digits -1,0,2); CEILING/FLOOR: same numbers x '
             '15 significances (+-0.1,+-0.25,+-0.5,+-1,+-2,+-3,10,0,omitted); INT/EVEN/ODD/SIGN on the same '
             'numbers; QUOTIENT/MOD on {k/4:|k|<=48}^2; FACT/FACTDOUBLE 0..200 and -1..-20; HEX: every n within '
             '2^12 of -2^39, 0, 2^39, every one/two-hex-digit pattern and complement, +-2^k, +-2^k+-1, 2^10 values '
             'beyond each end; BASE/DECIMAL: radix 2..36 x n in 0..500 + r^k, r^k+-1, 2^39-1; radices '
             '{-1,0,1,37,100} and negative n under a 200000-line-event budget; ROMAN 1..3999 x 8 forms; '
             'COMPLEX on -20..20 squared',
    'thorough': 'as quick with integers -1000..1000, HEX within 2^16 of -2^39, 0, 2^39 and 2^13 values beyond '
                'each end, BASE/DECIMAL n in 0..5000 per radix.  Not exhausted: the 2^40 hex range '
                '(boundary- and pattern-exhaustive only)',
}
ASSUMPTIONS = [
    'a decimal fraction argument has two legitimate exact readings (the decimal it spells, the double it is); '
    'an answer correct for either reading of each argument is accepted; floats compare with rel 1e-9',
    'ROUND: either neighbour is accepted on an exact tie (the statement says "within half a unit")',
    'CEILING/FLOOR: a positive number with a negative significance may be an error or either adjacent multiple; '
    'significance 0 and (number 0, negative significance) are not demanded; only the names CEILING and FLOOR '
    '(not .MATH/.PRECISE) are exercised',
    'ODD(0) is required to be 1: zero counts as non-negative (Excel; the property record names ODD(0) = -1 as '
    'a defect); EVEN(0) = 0',
    'FACT/FACTDOUBLE: exact integer or a float within tolerance; beyond the double range (n! > 1.8e308) an '
    'error is accepted as well; FACTDOUBLE(-1) may be 1 (mathematical convention, actual Excel) or an error',
    'HEX2DEC(DEC2HEX(n)) = n is the demanded round trip; the intermediate text is not inspected; malformed '
    'hex text and the places argument are not exercised',
    'BASE(n,r) must be the positional representation with digits 0-9A-Z compared case-insensitively; '
    'DECIMAL is demanded on BASE\'s own output only (on the upper-case reference text only where BASE is already '
    'wrong); DECIMAL with a radix outside 2..36 is not demanded (the statement names BASE)',
    'ROMAN forms: only "denotes n" under an independent subtractive-notation evaluator (two evaluators, '
    'either may agree) is demanded, not Excel\'s exact concise spellings; ARABIC(ROMAN(n)) = n only for the '
    'omitted form; ROMAN outside 1..3999 / form outside 0..4 is observed but not demanded (not in the '
    'statement\'s list of out-of-range arguments)',
    'an out-of-range argument must yield an error outcome of parse (any code); which code is not demanded',
    'termination = at most 200000 Python line events per parse (C-level stalls are outside the model)',
    'block cases (hex, base_decimal, roman) evaluate every input but report at most 5 failing inputs per kind of '
    'failure; after 5 non-terminating inputs the rest of that block is not evaluated (the block is already a '
    'violation)',
]


# ---------------------------------------------------------------------------------------------
# deterministic step budget (DESIGN 4.3)

class StepBudgetExceeded(BaseException):
    """Deliberately not an Exception: `except Exception` in hotxlfp must not swallow it."""


class _Budget(object):
    def __init__(self):
        self.n = 0
        self.armed = False
        self.tool = None
        self.mode = None

    # sys.monitoring callback
    def _line(self, code, line):
        if code.co_filename.startswith(HXDIR):
            return sys.monitoring.DISABLE          # never count / never raise inside the harness
        if not self.armed:
            return None
        self.n += 1
        if self.n > STEP_LIMIT:
            raise StepBudgetExceeded()
        return None

    # sys.settrace fallback
    def _trace(self, frame, event, arg):
        if frame.f_code.co_filename.startswith(HXDIR):
            return None
        if event == 'line' and self.armed:
            self.n += 1
            if self.n > STEP_LIMIT:
                raise StepBudgetExceeded()
        return self._trace

    def arm(self):
        self.n = 0
        mon = getattr(sys, 'monitoring', None)
        if mon is not None:
            for tid in (4, 3, 5, mon.DEBUGGER_ID):
                if mon.get_tool(tid) is None:
                    mon.use_tool_id(tid, 'hxverif-c17-budget')
                    self.tool = tid
                    break
        if self.tool is not None:
            self.mode = 'monitoring'
            mon.register_callback(self.tool, mon.events.LINE, self._line)
            self.armed = True
            mon.set_events(self.tool, mon.events.LINE)
        else:
            self.mode = 'settrace'
            self.armed = True
            sys.settrace(self._trace)

    def disarm(self):
        self.armed = False
        if self.mode == 'monitoring' and self.tool is not None:
            mon = sys.monitoring
            try:
                mon.set_events(self.tool, 0)
                mon.register_callback(self.tool, mon.events.LINE, None)
            finally:
                mon.free_tool_id(self.tool)
                self.tool = None
        elif self.mode == 'settrace':
            sys.settrace(None)
        self.mode = None


_BUDGET = _Budget()
NONTERM = ['nonterm', 'more than %d line events' % STEP_LIMIT]


class Capped(list):
    """Failures of one block case: every input of the block is still evaluated, but only the first
    MAX_FAILS_PER_KIND failing inputs per kind of failure (the formula named in the message) are reported,
    each with its own narrow replayable case."""

    def __init__(self):
        list.__init__(self)
        self.kinds = {}
        self.nonterm = 0

    def add(self, f):
        msg = f.get("msg") or ""
        kind = re.sub(r'[0-9]+', 'N', msg.split(" with ")[0]) + ("|nonterm" if "does not terminate" in msg else "")
        c = self.kinds.get(kind, 0)
        self.kinds[kind] = c + 1
        if kind.endswith('|nonterm'):
            self.nonterm += 1
        if c < MAX_FAILS_PER_KIND:
            self.append(f)


def bevo(env, formula, vars=None, fresh=False):
    """Normalised outcome of one evaluation under the step budget (NONTERM when it trips)."""
    tripped = False
    raw = None
    if fresh:
        p = env.new_parser()
        for k, v in (vars or {}).items():
            p.set_variable(k, v)
    else:
        warm = getattr(env, '_cached_parser', None)
        if warm is not None:                 # build the (cached) parser outside the counted region
            warm((vars or {}).keys(), (), False)
    _BUDGET.arm()
    try:
        try:
            if fresh:
                env.evals += 1
                try:
                    raw = p.parse(formula)
                except Exception as e:       # noqa - an escape is an observation
                    raw = ('raised', e)
            else:
                raw = env.ev(formula, vars)
        except StepBudgetExceeded:
            tripped = True
    finally:
        _BUDGET.disarm()
    if tripped:
        cache = getattr(env, '_cache', None)
        if isinstance(cache, dict):
            cache.clear()                    # a parser interrupted mid-parse is not reused
        cov = getattr(env, 'cov', None)
        if isinstance(cov, dict):
            cov['step_budget_trips'] = cov.get('step_budget_trips', 0) + 1
        return NONTERM
    if _BUDGET.n > getattr(env, 'maxline', 0):
        env.maxline = _BUDGET.n
    return env.out(raw)


# ---------------------------------------------------------------------------------------------
# numbers

INT_RE = re.compile(r'-?\d+\Z')


def parse_num(s):
    """decimal spelling -> (python value handed to the library, exact readings)."""
    v = int(s) if INT_RE.match(s) else float(s)
    reads = [F(s)]
    if F(v) != reads[0]:
        reads.append(F(v))
    return v, reads


def spell(s):
    return '(%s)' % s if s.startswith('-') else s


def qstr(k):
    """k/4 as a decimal spelling ('-2.25', '3')."""
    sign = '-' if k < 0 else ''
    a = abs(k)
    return sign + str(a // 4) + {0: '', 1: '.25', 2: '.5', 3: '.75'}[a % 4]


DECIMALS = ['0.1', '0.15', '0.3', '0.6', '0.7', '1.005', '2.675', '1.1', '2.3', '1234.5678', '0.000001',
            # 16-17 significant digits, a hair off a multiple: the hair decides
            '4503599627370497.0', '4503599627370495.5', '2251799813685248.5', '45035996273704.97', '9007199254740991.0',
            '0.9999999999999996', '1234567890.999996', '1000000000.000004', '1234.567890999996', '4.000000000000001', '7.999999999999999',
            '0.0000005', '123456.789', '99.995', '0.05', '1.45', '8.125']


def number_pool(tier):
    out = []
    seen = set()

    def add(s):
        if s not in seen:
            seen.add(s)
            out.append(s)
    for k in range(0, 41):
        add(qstr(k))
        if k:
            add(qstr(-k))
    for i in range(0, 11):              # float-typed integers
        add('%d.0' % i)
        if i:
            add('-%d.0' % i)
    for d in DECIMALS:
        add(d)
        add('-' + d)
    top = 250 if tier == 'quick' else 1000
    for i in range(0, top + 1):
        add(str(i))
        if i:
            add(str(-i))
    # whole numbers beyond 2^53 (exact as integers, not as doubles): ids, counters, products
    for big in (2 ** 53 + 1, 10 ** 17 + 1, 10 ** 17 + 3, 2 ** 60 + 1, 123456789012345678):
        add(str(big))
        add(str(-big))
    # exact multiples of the units reached by negative digits, and their neighbours (300000 * 10**-5 is not 3)
    for j in range(2, 8):
        for m in range(1, 10):
            for dlt in (0, 1, -1):
                add(str(m * 10 ** j + dlt))
                add(str(-(m * 10 ** j + dlt)))
    # decimal fractions that are multiples of a unit, and the doubles next to them on either side (the hair decides the side)
    import math
    for base in ('0.07', '0.29', '0.017', '1.15', '1.7', '0.9', '3.3', '64791087030671.9', '0.3', '1.1', '0.57', '4.35', '2.05', '8.2'):
        b = float(base)
        for x in (b, math.nextafter(b, math.inf), math.nextafter(b, -math.inf)):
            add(repr(x))
            add('-' + repr(x))
    return out


def getnum(o):
    """number carried by a normalised outcome, or None."""
    if o[0] != 'v':
        return None
    v = o[1]
    if isinstance(v, dict) and '$int' in v:
        return int(v['$int'])
    if isinstance(v, bool) or not isinstance(v, (int, float)):
        return None
    return v


def ffloor(q):
    return q.numerator // q.denominator


def fceil(q):
    return -((-q.numerator) // q.denominator)


def show(t):
    if isinstance(t, F):
        return float(t) if t.denominator != 1 else int(t)
    return t


# ---------------------------------------------------------------------------------------------

def round_targets(fn, x, u):
    q = x / u
    if fn == 'ROUND':
        lo = ffloor(q)
        return [m * u for m in (lo, lo + 1) if abs(m * u - x) <= u / 2]
    a = abs(q)
    m = fceil(a) if fn == 'ROUNDUP' else ffloor(a)
    return [m * u if x >= 0 else -m * u]


class Rounding(Sub):
    name = 'c17.round'
    rule = ('fn in ROUND/ROUNDUP/ROUNDDOWN x number pool x digits -6..6 (variables; literals too for digits '
            '-1,0,2): result must be the multiple of 10^-digits within half a unit / next in magnitude / '
            'previous in magnitude, under either reading of a decimal fraction; non-trivial = the number is '
            'not already a multiple of the unit')
    FNS = ('ROUND', 'ROUNDUP', 'ROUNDDOWN')
    LIT_DIGITS = (-1, 0, 2)
    min_cases = 5000
    min_nontrivial = 1000
    min_classes = 6

    def cases(self, tier, unit):
        for s in number_pool(tier):
            for fn in self.FNS:
                for d in range(-6, 7):
                    yield [fn, s, d]

    def check(self, env, case):
        fn, s, d = case
        v, reads = parse_num(s)
        u = F(10) ** (-d)
        targets = []
        for x in reads:
            for t in round_targets(fn, x, u):
                if t not in targets:
                    targets.append(t)
        moved = (reads[0] / u).denominator != 1
        if moved:
            env.nt()
        env.note('%s:%s' % (fn, 'moved' if moved else 'exact'))
        forms = [('%s(xn,xd)' % fn, {'xn': v, 'xd': d})]
        if d in self.LIT_DIGITS:
            forms.append(('%s(%s,%s)' % (fn, spell(s), lit(d)), None))
        out = []
        for f, vars in forms:
            o = env.evo(f, vars)
            r = getnum(o)
            # a rounding function lands ON a multiple: the result is held to a few units in the last place of the target
            # (the general 1e-9 would accept 1234567891 for 1234567890)
            # ... and where the target is itself a double (every whole number below 2^53, 0.5, 0.25 ...) it must be hit exactly
            if r is None or not any(r == t or (F(float(t)) != t and abs(F(r) - t) <= abs(t) / 2 ** 52) for t in targets):
                out.append(fail('%s with number %s, digits %d gives %r; expected %s (a multiple of 1e%d %s)' % (
                    f, s, d, o, ' or '.join(str(show(t)) for t in targets), -d,
                    {'ROUND': 'within half a unit', 'ROUNDUP': 'at or above in magnitude, less than a unit away',
                     'ROUNDDOWN': 'at or below in magnitude, less than a unit away'}[fn]),
                    [show(t) for t in targets], o))
        return out


SIGS = ['0.1', '-0.1', '0.25', '-0.25', '0.5', '-0.5', '1', '-1', '2', '-2', '3', '-3', '10', '0', None]


def cf_targets(fn, x, s):
    """-> (list of acceptable exact values, error_also_accepted) or None when nothing is demanded."""
    if s == 0:
        return None
    if x == 0:
        return ([F(0)], s < 0)
    a = abs(s)
    q = x / a
    if x > 0 and s < 0:
        return ([ffloor(q) * a, fceil(q) * a], True)
    if fn == 'CEILING':
        m = fceil(q) if (x > 0 or s > 0) else ffloor(q)
    else:
        m = ffloor(q) if (x > 0 or s > 0) else fceil(q)
    return ([m * a], False)


class CeilFloor(Sub):
    name = 'c17.ceiling_floor'
    rule = ('fn in CEILING/FLOOR x number pool x 15 significances (incl. omitted = 1): the adjacent multiple of '
            '|significance| on the documented side (CEILING up, FLOOR down; negative number with negative '
            'significance: CEILING away from zero, FLOOR toward zero); non-trivial = number is not a multiple')
    min_cases = 5000
    min_nontrivial = 1000
    min_classes = 4

    def cases(self, tier, unit):
        for s in number_pool(tier):
            for fn in ('CEILING', 'FLOOR'):
                for sig in SIGS:
                    yield [fn, s, sig]

    def check(self, env, case):
        fn, s, sig = case
        v, reads = parse_num(s)
        if sig is None:
            sv, sreads = None, [F(1)]
            f, vars = '%s(xn)' % fn, {'xn': v}
        else:
            sv, sreads = parse_num(sig)
            f, vars = '%s(xn,xs)' % fn, {'xn': v, 'xs': sv}
        o = env.evo(f, vars)
        targets, err_ok, demanded = [], False, True
        for x in reads:
            for sg in sreads:
                t = cf_targets(fn, x, sg)
                if t is None:
                    demanded = False
                    continue
                for y in t[0]:
                    if y not in targets:
                        targets.append(y)
                err_ok = err_ok or t[1]
        if not demanded:
            env.note('significance 0 (not demanded)')
            return None
        if err_ok:
            env.note('mixed signs / zero (error or multiple)')
        else:
            env.note(fn)
        if (reads[0] / abs(sreads[0])).denominator != 1:
            env.nt()
        if err_ok and o[0] == 'e':
            return None
        r = getnum(o)
        if r is None or not any(close(r, t) for t in targets):
            return fail('%s with number %s, significance %s gives %r; expected %s%s' % (
                f, s, sig, o, ' or '.join(str(show(t)) for t in targets), ' or an error' if err_ok else ''),
                [show(t) for t in targets], o)
        return None


SMALL_SIGS = [1e-05, 2.5e-05, 1e-06, 0.0001, 0.00025, -1e-05]
SMALL_NUMS = [0.000234, 1.234567, 0.0000777, 2.675, 12345.678, 0.5, 0.1, 3, -0.000234, -1.234567, -2.675]


class CeilFloorSmall(Sub):
    name = 'c17.ceiling_floor_small'
    rule = ('CEILING/FLOOR with significances below 0.001 (1e-5, 2.5e-5, 1e-6, ... whose repr switches to exponent '
            'notation) on 11 numbers of the same sign: the result is a multiple of the significance no more than one unit '
            'from the adjacent multiple on the documented side (float noise in number/significance may cost one unit, '
            'nothing more); non-trivial = all')
    min_cases = 50
    min_nontrivial = 50

    def cases(self, tier, unit):
        for fn in ('CEILING', 'FLOOR'):
            for i in range(len(SMALL_SIGS)):
                for j in range(len(SMALL_NUMS)):
                    yield [fn, i, j]

    def check(self, env, case):
        fn, i, j = case
        sg, x = SMALL_SIGS[i], SMALL_NUMS[j]
        if (x > 0) != (sg > 0):
            return None
        env.nt()
        o = env.evo('%s(xn,xs)' % fn, {'xn': x, 'xs': sg})
        r = getnum(o)
        a = abs(sg)
        bad = None
        if r is None:
            bad = 'not a number'
        else:
            q = r / a
            if abs(q - round(q)) > 1e-6 * max(1.0, abs(q)):
                bad = 'not a multiple of the significance'
            elif abs(r - x) > 2 * a * (1 + 1e-9):
                bad = 'more than two units away from the number'
            elif fn == 'CEILING' and abs(r) < abs(x) - a * 1.000001:
                bad = 'more than a unit below the number in magnitude'
            elif fn == 'FLOOR' and abs(r) > abs(x) + a * 1.000001:
                bad = 'more than a unit above the number in magnitude'
        if bad:
            return fail('%s(xn,xs) with xn=%r, xs=%r gives %r: %s' % (fn, x, sg, o, bad), 'adjacent multiple', o)
        return None


def parity_target(fn, x):
    """nearest even/odd integer at or beyond x away from zero (0 counts as non-negative)."""
    want = 0 if fn == 'EVEN' else 1
    m = fceil(abs(x))
    if m % 2 != want:
        m += 1
    return m if x >= 0 else -m


class IntParitySign(Sub):
    name = 'c17.int_even_odd_sign'
    rule = ('fn in INT/EVEN/ODD/SIGN x number pool (variable; literal too): floor, nearest even/odd integer at '
            'or beyond the number away from zero, sign; non-trivial = non-integers and integers of the other '
            'parity (INT: negatives non-integers; SIGN: non-zero)')
    min_cases = 1500
    min_nontrivial = 300
    min_classes = 4

    def cases(self, tier, unit):
        for s in number_pool(tier):
            for fn in ('INT', 'EVEN', 'ODD', 'SIGN'):
                yield [fn, s]

    def check(self, env, case):
        fn, s = case
        v, reads = parse_num(s)
        targets = []
        for x in reads:
            if fn == 'INT':
                t = ffloor(x)
            elif fn == 'SIGN':
                t = (x > 0) - (x < 0)
            else:
                t = parity_target(fn, x)
            if t not in targets:
                targets.append(t)
        x = reads[0]
        if (fn == 'INT' and x < 0 and x.denominator != 1) or (fn == 'SIGN' and x != 0) or \
                (fn in ('EVEN', 'ODD') and targets[0] != x):
            env.nt()
        env.note(fn)
        out = []
        for f, vars in (('%s(xn)' % fn, {'xn': v}), ('%s(%s)' % (fn, spell(s)), None)):
            o = env.evo(f, vars)
            r = getnum(o)
            # a rounding function lands ON a multiple: the result is held to a few units in the last place of the target
            # (the general 1e-9 would accept 1234567891 for 1234567890)
            # ... and where the target is itself a double (every whole number below 2^53, 0.5, 0.25 ...) it must be hit exactly
            if r is None or not any(r == t or (F(float(t)) != t and abs(F(r) - t) <= abs(t) / 2 ** 52) for t in targets):
                out.append(fail('%s with number %s gives %r; expected %s' % (
                    f, s, o, ' or '.join(str(t) for t in targets)), targets, o))
        return out


class QuotientMod(Sub):
    name = 'c17.quotient_mod'
    rule = ('fn in QUOTIENT/MOD x {k/4:|k|<=48}^2: truncated quotient; remainder r = n - d*floor(n/d) (sign of the '
            'divisor, |r|<|d|, (n-r)/d integral); zero divisor -> error; non-trivial = non-zero divisor that '
            'does not divide the number')
    min_cases = 15000
    min_nontrivial = 5000
    min_classes = 3

    # pairs at which the float quotient rounds onto a whole number, and whole numbers beyond 2^53 against float divisors
    PAIRS = [('0.8999999999999999', '0.3'), ('6.999999999999999', '0.7'), ('9007199254740991', '1.5'), ('9007199254740993', '1.0'),
             ('9007199254740993', '0.5'), ('9007199254740993', '2.0'), ('9007199254740993', '3.0'), ('0.3', '0.1'), ('-0.8999999999999999', '0.3'),
             ('2.6999999999999997', '0.9'), ('9007199254740995', '2.5'), ('1.0000000000000002', '0.1'), ('4.35', '0.05'), ('0.57', '0.01'),
             ('3e-200', '-1e-200'), ('-3e-200', '1e-200'), ('1e-120', '-2e-300'), ('-7e-310', '-2e-310')]      # products that underflow

    def cases(self, tier, unit):
        for fn in ('QUOTIENT', 'MOD'):
            for a in range(-48, 49):
                for b in range(-48, 49):
                    yield [fn, a, b]
            for i in range(len(self.PAIRS)):
                yield [fn, 'pair', i]

    def check(self, env, case):
        fn, a, b = case
        if a == 'pair':
            sn, sd = self.PAIRS[b]
            xv, xreads = parse_num(sn)
            dv, dreads = parse_num(sd)
            f = '%s(xn,xd)' % fn
            o = env.evo(f, {'xn': xv, 'xd': dv})
            env.nt()
            env.note(fn + ':pair')
            targets = []
            for x in xreads:
                for d in dreads:
                    q = x / d
                    t = (ffloor(q) if q >= 0 else fceil(q)) if fn == 'QUOTIENT' else x - d * ffloor(q)
                    if t not in targets:
                        targets.append(t)
            r = getnum(o)
            # the truncated quotient is a whole number: exactly; the remainder to a few units in the last place of the divisor
            ok = r is not None and any((r == t) if fn == 'QUOTIENT' else abs(F(r) - t) <= abs(F(dv)) / 2 ** 50 for t in targets)
            if not ok:
                return fail('%s with number %s, divisor %s gives %r; expected %s (exact arithmetic on the operands, read as the doubles or '
                            'as the decimals they are written as)' % (f, sn, sd, o, ' or '.join(str(show(t)) for t in targets)),
                            [show(t) for t in targets], o)
            return None
        x, d = F(a, 4), F(b, 4)
        xv = a // 4 if a % 4 == 0 else a / 4.0
        dv = b // 4 if b % 4 == 0 else b / 4.0
        f = '%s(xn,xd)' % fn
        o = env.evo(f, {'xn': xv, 'xd': dv})
        if d == 0:
            env.note('zero divisor')
            if o[0] != 'e':
                return fail('%s with number %r, divisor 0 gives %r; expected an error' % (f, xv, o), ['e'], o)
            return None
        q = x / d
        if q.denominator != 1:
            env.nt()
        env.note(fn)
        if fn == 'QUOTIENT':
            t = ffloor(q) if q >= 0 else fceil(q)
        else:
            t = x - d * ffloor(q)
            assert abs(t) < abs(d) and (t == 0 or (t > 0) == (d > 0)) and ((x - t) / d).denominator == 1
        r = getnum(o)
        if r is None or not close(r, t):
            return fail('%s with number %r, divisor %r gives %r; expected %s' % (f, xv, dv, o, show(t)), show(t), o)
        return None


def ref_fact(n):
    r = 1
    for i in range(2, n + 1):
        r *= i
    return r


def ref_factdouble(n):
    r = 1
    while n > 1:
        r *= n
        n -= 2
    return r


DBL_MAX = F(2) ** 1024


class Factorials(Sub):
    name = 'c17.fact'
    rule = ('fn in FACT/FACTDOUBLE x n in 0..200 (variable and literal) and -1..-20: exact factorial / double '
            'factorial; negative -> error; every call within the step budget; non-trivial = n >= 2 or n < 0')
    min_cases = 400
    min_nontrivial = 300
    min_classes = 3

    def cases(self, tier, unit):
        for fn in ('FACT', 'FACTDOUBLE'):
            for n in range(-20, 201):
                yield [fn, n]

    def check(self, env, case):
        fn, n = case
        forms = [('%s(xn)' % fn, {'xn': n}), ('%s(%s)' % (fn, lit(n)), None)]
        out = []
        if n >= 2 or n < 0:
            env.nt()
        for f, vars in forms:
            o = bevo(env, f, vars)
            if o is NONTERM:
                out.append(fail('%s with n=%d does not terminate within the step budget' % (f, n), 'a result', o))
                continue
            if n < 0:
                env.note('negative')
                if o[0] == 'e' or (fn == 'FACTDOUBLE' and n == -1 and getnum(o) == 1):
                    continue
                out.append(fail('%s with n=%d gives %r; expected an error' % (f, n, o), ['e'], o))
                continue
            e = ref_fact(n) if fn == 'FACT' else ref_factdouble(n)
            r = getnum(o)
            if e >= DBL_MAX and o[0] == 'e':
                env.note('beyond double range: error (not demanded)')
                continue
            env.note(fn)
            ok = r is not None and (r == e if isinstance(r, int) else close(r, e))
            if not ok:
                out.append(fail('%s with n=%d gives %r; expected %d' % (f, n, o, e), str(e), o))
        return out


# ---------------------------------------------------------------------------------------------
# HEX

P39 = 2 ** 39
P40 = 2 ** 40
MASK = P40 - 1


def hex_sweeps(w):
    return [(-P39, -P39 + w - 1), (-w, w), (P39 - w, P39 - 1)]


def in_sweeps(n, w):
    return any(lo <= n <= hi for lo, hi in hex_sweeps(w))


def signed40(v):
    return v - P40 if v >= P39 else v


def nz_digits(v):
    return sum(1 for i in range(10) if (v >> (4 * i)) & 15)


def is_pattern(n):
    v = n & MASK
    return 1 <= nz_digits(v) <= 2 or 1 <= nz_digits(v ^ MASK) <= 2


def pattern_values(kind, pos):
    """one-digit (kind 1) / two-digit (kind 2, lower position = pos) patterns and complements."""
    vals = []
    if kind == 1:
        for p in range(10):
            for d in range(1, 16):
                vals.append(d << (4 * p))
    else:
        for p2 in range(pos + 1, 10):
            for d1 in range(1, 16):
                for d2 in range(1, 16):
                    vals.append((d1 << (4 * pos)) | (d2 << (4 * p2)))
    return [signed40(v) for v in vals] + [signed40(v ^ MASK) for v in vals]


def power_values():
    vals = []
    for k in range(0, 64):
        for s in (1, -1):
            for off in (0, 1, -1):
                n = s * 2 ** k + off
                if n not in vals:
                    vals.append(n)
    return vals


class HexRoundTrip(Sub):
    name = 'c17.hex'
    rule = ('blocks of n: HEX2DEC(DEC2HEX(n)) = n for every n of the sweeps around -2^39, 0, 2^39, every one- and '
            'two-hex-digit 40-bit pattern and its complement, +-2^k, +-2^k+-1; DEC2HEX(n) for n beyond either '
            'end and HEX2DEC of hex text >= 2^40 -> error; non-trivial = negative n (two\'s complement) or '
            'out-of-range')
    BLOCK = 2048
    min_cases = 20
    min_nontrivial = 4000
    min_classes = 4

    def cases(self, tier, unit):
        w = 2 ** 12 if tier == 'quick' else 2 ** 16              # half-width of the sweeps
        beyond = 2 ** 10 if tier == 'quick' else 2 ** 13
        for lo, hi in hex_sweeps(w):
            for a in range(lo, hi + 1, self.BLOCK):
                yield ['rt', a, min(hi, a + self.BLOCK - 1)]
        yield ['pat', 1, 0, w]
        for pos in range(0, 9):
            yield ['pat', 2, pos, w]
        yield ['pow', w, beyond]
        for a in range(0, beyond, self.BLOCK):
            b = min(beyond, a + self.BLOCK) - 1
            yield ['d2h_out', P39 + a, P39 + b]
            yield ['d2h_out', -P39 - 1 - b, -P39 - 1 - a]
            yield ['h2d_out', P40 + a, P40 + b]
        yield ['far']

    def check(self, env, case):
        kind = case[0]
        if kind == 'one':
            return self.one(env, case[1], case[2])
        out = Capped()
        if kind in ('rt', 'd2h_out', 'h2d_out'):
            items = ((kind, n) for n in range(case[1], case[2] + 1))
        elif kind == 'pat':
            items = (('rt', n) for n in pattern_values(case[1], case[2])
                     if not in_sweeps(n, case[3]))
        elif kind == 'pow':
            items = []
            w, beyond = case[1], case[2]
            for n in power_values():
                if -P39 <= n < P39:
                    if not in_sweeps(n, w) and not is_pattern(n):
                        items.append(('rt', n))
                else:
                    if not (P39 <= n < P39 + beyond or -P39 - beyond <= n < -P39):
                        items.append(('d2h_out', n))
                    if n >= P40 + beyond:
                        items.append(('h2d_out', n))
        elif kind == 'far':
            items = [('d2h_out', n) for n in (10 ** 12, -10 ** 12, 10 ** 15, -10 ** 15, 2 ** 64, -2 ** 64)]
            items += [('h2d_out', n) for n in (0xFFFFFFFFFFF, 0xFFFFFFFFFFFF, 2 ** 64 - 1, 2 ** 64, 0x123456789AB)]
            for p in range(10, 16):
                for d in range(1, 16):
                    v = d << (4 * p)
                    if v & (v - 1):                       # powers of two are in 'pow' / the sweep
                        items.append(('h2d_out', v))
        else:
            raise ValueError(case)
        for k, n in items:
            f = self.one(env, k, n)
            if f:
                out.add(f)
        return out

    def one(self, env, kind, n):
        narrow = ['one', kind, n]
        if kind == 'rt':
            o = env.evo('HEX2DEC(DEC2HEX(xn))', {'xn': n})
            if n < 0:
                env.nt()
                env.note('negative')
            else:
                env.note('non-negative')
            r = getnum(o)
            if r is None or r != n:
                return fail('HEX2DEC(DEC2HEX(xn)) with xn=%d gives %r; expected %d' % (n, o, n), n, o, case=narrow)
            if n % 7 == 0 or -300 < n < 300 or abs(abs(n) - P39) < 40:
                # hexadecimal digits read the same in either letter case: the spelling in lower case denotes the same number
                o = env.evo('HEX2DEC(LOWER(DEC2HEX(xn)))', {'xn': n})
                r = getnum(o)
                if r is None or r != n:
                    return fail('HEX2DEC(LOWER(DEC2HEX(xn))) with xn=%d gives %r; expected %d (the digits in lower case)' % (n, o, n), n, o,
                                case=narrow)
            return None
        env.nt()
        if kind == 'd2h_out':
            env.note('DEC2HEX out of range')
            o = env.evo('DEC2HEX(xn)', {'xn': n})
            if o[0] != 'e':
                return fail('DEC2HEX(xn) with xn=%d (outside -2^39..2^39-1) gives %r; expected an error' % (n, o),
                            ['e'], o, case=narrow)
            return None
        if kind == 'h2d_out':
            env.note('HEX2DEC out of range')
            text = '%X' % n
            o = env.evo('HEX2DEC(xs)', {'xs': text})
            if o[0] != 'e':
                return fail('HEX2DEC(xs) with xs=%r (%d hex digits, value >= 2^40) gives %r; expected an error' % (
                    text, len(text), o), ['e'], o, case=narrow)
            return None
        raise ValueError(kind)


# ---------------------------------------------------------------------------------------------
# BASE / DECIMAL

ALPHABET = '0123456789ABCDEFGHIJKLMNOPQRSTUVWXYZ'


def ref_base(n, r):
    if n == 0:
        return '0'
    s = ''
    while n:
        s = ALPHABET[n % r] + s
        n //= r
    return s


P53 = 2 ** 53


def base_special(r):
    """digit-length boundaries r^k, r^k +- 1 up to 2^53 (the largest n BASE is documented for), and the neighbours of
    2^39, 2^40 (where a two's-complement reading of the hex functions would interfere) and 2^53"""
    vals = []
    k = 1
    while r ** k - 1 < P53:
        for n in (r ** k - 1, r ** k, r ** k + 1):
            if 5000 < n < P53 and n not in vals:
                vals.append(n)
        k += 1
    for n in (P39 - 2, P39 - 1, P39, P39 + 1, 2 ** 40 - 1, 2 ** 40, 2 ** 40 + 1, P53 - 1):
        if n not in vals:
            vals.append(n)
    # whole numbers of several machine words (the library converts a word per division): words that are zero, that begin
    # with zero digits, that are full - the digits of a lower word keep their leading zeros
    for n in (2 ** 62, 2 ** 64 + 1, 10 ** 18, 10 ** 19, r ** 70 - 1, r ** 70, r ** 70 + 1, r ** 27 + r ** 3, 2 ** 130 + 2 ** 65 + 1,
              10 ** 40 + 7, 36 ** 24 + 36 ** 12 + 35):
        if n not in vals:
            vals.append(n)
    return vals


class BaseDecimal(Sub):
    name = 'c17.base_decimal'
    rule = ('radix 2..36 x n in 0..N and r^k, r^k+-1 < 2^53, the neighbours of 2^39 and 2^40, 2^53-1, eleven whole numbers of two to six machine words (2^62 .. r^70+1, with zero words and zero-led words): BASE(n,r) is the positional text with digits '
            '0-9A-Z (case-insensitive) and DECIMAL(BASE(n,r),r) = n (where BASE is wrong: DECIMAL(reference text,r) '
            '= n instead), each within the step budget; non-trivial = representation has >= 2 digits or a letter digit')
    BLOCK = 100
    min_cases = 70
    min_nontrivial = 5000
    min_classes = 2

    def cases(self, tier, unit):
        top = 500 if tier == 'quick' else 5000
        for r in range(2, 37):
            for a in range(0, top + 1, self.BLOCK):
                yield [r, 'range', a, min(top, a + self.BLOCK - 1)]
            yield [r, 'special']

    def check(self, env, case):
        if case[0] == 'one':
            return self.one(env, case[1], case[2])
        r = case[0]
        ns = range(case[2], case[3] + 1) if case[1] == 'range' else base_special(r)
        out = Capped()
        for n in ns:
            self.tally(env, r, n)
        for n in ns:
            for f in self.one(env, r, n, tally=False):
                out.add(f)
            if out.nonterm >= MAX_FAILS_PER_KIND:
                break        # repeated non-termination: the rest of this block is not evaluated
        return out

    def tally(self, env, r, n):
        ref = ref_base(n, r)
        letters = any(c.isalpha() for c in ref)
        if len(ref) >= 2 or letters:
            env.nt()
        env.note('letter digits' if letters else 'decimal digits only')

    def one(self, env, r, n, tally=True):
        narrow = ['one', r, n]
        ref = ref_base(n, r)
        if tally:
            self.tally(env, r, n)
        out = []
        vars = {'xn': n, 'xr': r}
        o = bevo(env, 'BASE(xn,xr)', vars)
        base_ok = False
        if o is NONTERM:
            out.append(fail('BASE(xn,xr) with xn=%d, xr=%d does not terminate within the step budget' % (n, r),
                            ref, o, case=narrow))
        else:
            v = o[1] if o[0] == 'v' else None
            if isinstance(v, int) and not isinstance(v, bool):
                v = str(v)
            base_ok = isinstance(v, str) and v.upper() == ref
            if not base_ok:
                out.append(fail('BASE(xn,xr) with xn=%d, xr=%d gives %r; expected the text %r' % (n, r, o, ref),
                                ref, o, case=narrow))
        if base_ok:
            o = bevo(env, 'DECIMAL(BASE(xn,xr),xr)', vars)
            if o is NONTERM or getnum(o) is None or getnum(o) != n:
                out.append(fail('DECIMAL(BASE(xn,xr),xr) with xn=%d, xr=%d gives %r; expected %d (BASE gives %r)' % (
                    n, r, o, n, v), n, o, case=narrow))
        else:
            # BASE is already wrong here: look at DECIMAL on its own, on the reference text
            o = bevo(env, 'DECIMAL(xs,xr)', {'xs': ref, 'xr': r})
            if o is NONTERM or getnum(o) is None or getnum(o) != n:
                out.append(fail('DECIMAL(xs,xr) with xs=%r, xr=%d gives %r; expected %d' % (ref, r, o, n), n, o,
                                case=narrow))
        return out


class BaseErrors(Sub):
    name = 'c17.base_errors'
    rule = ('BASE(n,r) for r in {-1,0,1,37,100,-2,-16,1000} x n in {0,1,5,255,5000} and n in {-1,-2,-5,-255,-5000} '
            'x r in {2,3,10,16,36} (variables, fresh parser; literals too): must be an error within the step '
            'budget; non-trivial = all')
    BAD_R = (-1, 0, 1, 37, 100, -2, -16, 1000)
    NS = (0, 1, 5, 255, 5000)
    NEG = (-1, -2, -5, -255, -5000)
    GOOD_R = (2, 3, 10, 16, 36)
    min_cases = 60
    min_nontrivial = 60
    min_classes = 2

    def cases(self, tier, unit):
        for r in self.BAD_R:
            for n in self.NS:
                yield [n, r]
        for n in self.NEG:
            for r in self.GOOD_R:
                yield [n, r]

    def check(self, env, case):
        n, r = case
        env.nt()
        env.note('radix out of range' if not 2 <= r <= 36 else 'negative number')
        out = []
        for f, vars in (('BASE(xn,xr)', {'xn': n, 'xr': r}), ('BASE(%s,%s)' % (lit(n), lit(r)), {})):
            o = bevo(env, f, vars, fresh=True)
            if o is NONTERM:
                out.append(fail('%s with n=%d, radix=%d does not terminate within the step budget (%d line events); '
                                'expected an error' % (f, n, r, STEP_LIMIT), ['e'], o))
            elif o[0] != 'e':
                out.append(fail('%s with n=%d, radix=%d gives %r; expected an error (%s)' % (
                    f, n, r, o, 'radix outside 2..36' if not 2 <= r <= 36 else 'negative number'), ['e'], o))
        return out


# ---------------------------------------------------------------------------------------------
# ROMAN / ARABIC

SYM = {'I': 1, 'V': 5, 'X': 10, 'L': 50, 'C': 100, 'D': 500, 'M': 1000}


def roman_readings(text):
    """values a numeral denotes under the two usual subtractive-notation evaluators."""
    if not isinstance(text, str) or not text:
        return set()
    t = text.upper()
    if any(c not in SYM for c in t):
        return set()
    vals = [SYM[c] for c in t]
    a = 0
    for i, x in enumerate(vals):
        a += -x if i + 1 < len(vals) and x < vals[i + 1] else x
    b, mx = 0, 0
    for x in reversed(vals):
        if x < mx:
            b -= x
        else:
            b += x
            mx = x
    return {a, b}


FORMS = [None, 0, 1, 2, 3, 4, 'T', 'F']


def roman_formula(form, arg='xn'):
    if form is None:
        return 'ROMAN(%s)' % arg
    if form == 'T':
        return 'ROMAN(%s,TRUE)' % arg
    if form == 'F':
        return 'ROMAN(%s,FALSE)' % arg
    return 'ROMAN(%s,%d)' % (arg, form)


class Roman(Sub):
    name = 'c17.roman'
    rule = ('n in 1..3999 x forms {omitted,0,1,2,3,4,TRUE,FALSE}: ROMAN(n,form) is a numeral over IVXLCDM that '
            'denotes n under an independent evaluator; ARABIC(ROMAN(n)) = n (variable and literal); n in '
            '{0,-1,4000,5000} and forms {-1,5} observed only; every call within the step budget; non-trivial = '
            'n has a decimal digit 4 or 9 (the classic numeral needs subtractive notation)')
    BLOCK = 50
    min_cases = 80
    min_nontrivial = 5000
    min_classes = 3

    def cases(self, tier, unit):
        for a in range(1, 4000, self.BLOCK):
            yield [a, min(3999, a + self.BLOCK - 1)]
        yield ['outside']

    def check(self, env, case):
        if case[0] == 'one':
            return self.one(env, case[1], case[2])
        if case[0] == 'outside':
            for n, form in [(0, None), (-1, None), (4000, None), (5000, 0), (10, -1), (10, 5)]:
                f = 'ROMAN(xn)' if form is None else 'ROMAN(xn,xf)'
                o = bevo(env, f, {'xn': n, 'xf': form} if form is not None else {'xn': n})
                if o is NONTERM:
                    return fail('%s with n=%d, form=%r does not terminate within the step budget' % (f, n, form))
                env.note('outside 1..3999 / 0..4: %s (not demanded)' % ('error' if o[0] == 'e' else 'value'))
            return None
        out = Capped()
        for n in range(case[0], case[1] + 1):
            for form in FORMS:
                self.tally(env, n, form)
        for n in range(case[0], case[1] + 1):
            for form in FORMS:
                for f in self.one(env, n, form, tally=False):
                    out.add(f)
            if out.nonterm >= MAX_FAILS_PER_KIND:
                break        # repeated non-termination: the rest of this block is not evaluated
        return out

    def tally(self, env, n, form):
        env.note('form %s' % ('omitted' if form is None else form))
        if any(c in '49' for c in str(n)):
            env.nt()

    def one(self, env, n, form, tally=True):
        narrow = ['one', n, form]
        out = []
        f = roman_formula(form)
        if tally:
            self.tally(env, n, form)
        o = bevo(env, f, {'xn': n})
        if o is NONTERM:
            return [fail('%s with xn=%d does not terminate within the step budget' % (f, n), None, o, case=narrow)]
        text = o[1] if o[0] == 'v' else None
        vals = roman_readings(text)
        if n not in vals:
            out.append(fail('%s with xn=%d gives %r, which %s; expected a Roman numeral denoting %d' % (
                f, n, o, ('denotes %s' % sorted(vals)) if vals else 'is not a Roman numeral', n), n, o, case=narrow))
        if form is None:
            for g, vars in (('ARABIC(ROMAN(xn))', {'xn': n}), ('ARABIC(ROMAN(%d))' % n, None)):
                o = bevo(env, g, vars)
                if o is NONTERM or getnum(o) is None or getnum(o) != n:
                    out.append(fail('%s with n=%d gives %r; expected %d' % (g, n, o, n), n, o, case=narrow))
        return out


# ---------------------------------------------------------------------------------------------

class ComplexParts(Sub):
    name = 'c17.complex'
    rule = ('(a,b) in -20..20 squared: IMREAL(COMPLEX(a,b)) = a and IMAGINARY(COMPLEX(a,b)) = b, composed in one '
            'formula and with the COMPLEX result handed back through a variable; non-trivial = a != b')
    min_cases = 1600
    min_nontrivial = 1000
    min_classes = 2

    def cases(self, tier, unit):
        for a in range(-20, 21):
            for b in range(-20, 21):
                yield [a, b]

    def check(self, env, case):
        a, b = case
        if a != b:
            env.nt()
        env.note('b<0' if b < 0 else 'b>=0')
        vars = {'xa': a, 'xb': b}
        out = []
        raw = env.ev('COMPLEX(xa,xb)', vars)
        oc = env.out(raw)
        if oc[0] != 'v':
            return fail('COMPLEX(xa,xb) with xa=%d, xb=%d gives %r; expected a complex number' % (a, b, oc), None, oc)
        for fn, want in (('IMREAL', a), ('IMAGINARY', b)):
            for f, vs in (('%s(COMPLEX(xa,xb))' % fn, vars), ('%s(xc)' % fn, {'xc': raw['result']})):
                o = env.evo(f, vs)
                r = getnum(o)
                if r is None or r != want:
                    out.append(fail('%s with a=%d, b=%d (COMPLEX gives %r) gives %r; expected %d' % (
                        f, a, b, oc, o, want), want, o))
        return out


class RoundWholeFloats(WholeFloats):
    name = 'c17.whole_floats'
    TEMPLATES = [
        ('ROUND(1234.5678,{0})', [(2,), (0,), (-2,)]),
        ('ROUNDUP(1234.5678,{0})', [(2,), (0,), (-2,)]),
        ('ROUNDDOWN(1234.5678,{0})', [(2,), (0,), (-2,)]),
        ('DEC2HEX({0})', [(10,), (255,), (-1,), (0,)]),
        ('DEC2HEX({0},{1})', [(10, 4), (255, 2), (255, 1)]),
        ('HEX2DEC(DEC2HEX({0}))', [(4095,), (-4096,)]),
        ('BASE({0},{1})', [(255, 16), (5, 2), (35, 36)]),
        ('BASE({0},{1},{2})', [(5, 2, 8), (255, 16, 1)]),
        ('DECIMAL("11",{0})', [(2,), (16,), (36,)]),
        ('DECIMAL(BASE({0},{1}),{1})', [(255, 16), (1000, 7)]),
        ('DECIMAL(BASE(10000000000000000000,{0}),{0})', [(3,), (7,), (36,)]),      # a long number: a float radix must not drag it into floats
        ('ROMAN({0})', [(4,), (1999,), (3999,)]),
        ('ROMAN({0},{1})', [(499, 0), (499, 2), (499, 4)]),
        ('FACT({0})', [(0,), (5,), (20,)]),
        ('FACTDOUBLE({0})', [(6,), (7,)]),
        ('QUOTIENT({0},{1})', [(7, 2), (-7, 2)]),
        ('MOD({0},{1})', [(7, 3), (-7, 3), (7, -3)]),
        ('CEILING({0},{1})', [(7, 2), (-7, -2)]),
        ('EVEN({0})', [(3,), (-3,), (0,)]),
        ('IMREAL(COMPLEX({0},{1}))', [(3, 4), (-3, 0)]),
    ]


NEEDS_ZYGOTE = True


class RoundSiblings(Siblings):
    name = 'c17.siblings'
    GROUPS = [
        (['INT({0})', 'EVEN({0})', 'ODD({0})', 'SIGN({0})', 'FACT({0})', 'FACTDOUBLE({0})', 'ROMAN({0})',
          'ARABIC(ROMAN({0}))', 'DEC2HEX({0})', 'HEX2DEC(DEC2HEX({0}))', 'ROUND({0},0)', 'ROUNDUP({0},0)',
          'ROUNDDOWN({0},0)', 'BASE({0},2)', 'CEILING({0})', 'FLOOR({0})', 'ABS({0})'],
         [(n,) for n in list(range(0, 13)) + [20, 255, 3999, -3, 2.5, -2.5]]),
        (['ROUND({0},{1})', 'ROUNDUP({0},{1})', 'ROUNDDOWN({0},{1})', 'CEILING({0},{1})', 'FLOOR({0},{1})',
          'QUOTIENT({0},{1})', 'MOD({0},{1})', 'BASE({0},{1})', 'DECIMAL({0},{1})', 'DEC2HEX({0},{1})', 'ROMAN({0},{1})',
          'IMREAL(COMPLEX({0},{1}))', 'IMAGINARY(COMPLEX({0},{1}))', 'POWER({0},{1})'],
         [(7, 2), (-7, 2), (7, -2), (255, 16), (12, 3), (3, 4), (10, 10), (499, 4), (1234.5678, 2), (1234.5678, -2), (5, 0)]),
    ]


SUBS = [Rounding(), CeilFloor(), CeilFloorSmall(), IntParitySign(), QuotientMod(), Factorials(), HexRoundTrip(), BaseDecimal(),
        BaseErrors(), Roman(), ComplexParts(), RoundWholeFloats(), RoundSiblings()]
