# -*- coding: utf-8 -*-
"""C11 - aggregates equal their definitions over exactly the selected items (K3).

Everything is evaluated through Parser.parse (env.ev).  Lists reach the functions as separate
literal arguments, as separate scalar variables, as literal arrays ({a,b} and the one-level
2-D form {a,b;c}) and as host-supplied flat / nested lists bound to variables.

Reference oracle (independent of hotxlfp): textbook statistics in fractions.Fraction (sqrt / n-th
root only at the final comparison, core.close), an own criteria interpreter (operator + number,
bare value, wildcard text) and an own recursive wildcard matcher.

Not demanded (R1): MODE on multimodal / all-distinct lists (any most-frequent value or an error is
accepted and invariance is only checked on unimodal lists); COUNT of non-numeric items; sample
VAR/STDEV of one item; GEOMEAN/HARMEAN of lists with an item <= 0; SLOPE with array arguments or
with zero x-variance; criteria given as numbers; operator + text criteria; criteria applied to a
cell of the other type (number vs text); [..] in patterns; letter case; nested criteria ranges;
criteria ranges of unequal length; SUMIF with a separate sum range; which error comes out when
two different error values are among the items (either is accepted); which error an average over
an empty selection gives (any error value)."""
import itertools
import math
import re
from fractions import Fraction

from ..core import Siblings, WholeFloats, Sub, fail, lit, close, scale

V = [-3, -1, 0, 1, 2, 2.5, 4]
AZ = 'abcdefghijklmnopqrstuvwxyz'

# delivery-channel and host-type differential (core.Env): of every 6 evaluations that bind variables, one is repeated with the
# values handed in by the cell/range listeners, one with the values returned by custom functions and one with every value an
# instance of a trivial subclass of its type (numpy.float64, IntEnum, rich-text str ... are such); outcomes must agree
CHANNELS = 6

BOUNDS = {
    'quick': 'definitions: every list of length 1..4 over {-3,-1,0,1,2,2.5,4} (2800) x 19 function names x 3 '
             'forms; regrouping: every list of length <=2 and every non-decreasing list of length 3 x every '
             'split into consecutive groups x 5..7 renderings per group x 15 functions; LARGE: lists <=3 x 5 '
             'array renderings x every k; long lists: 6 families x lengths {5,8,13,21,40} x 7 groupings; SLOPE: '
             'all pairs of lists of length 2, y lists of length 3 x x lists over {-3,0,1,2.5}, long pairs; '
             'criteria: numeric criteria ranges of length <=3 x 27 criteria x 7 function forms x 3 value lists, '
             'two ranges for length <=2 (4 second criteria); text ranges of length <=3 over 6 strings x 8 '
             'patterns (second numeric range for length <=2); error items: 8 codes + 6 producer expressions x '
             'every position of lists <=3 x 6 functions x up to 6 forms, all ordered pairs of distinct codes',
    'thorough': 'as quick plus: regrouping of every list of length 3 (all renderings) and every '
                'non-decreasing list of length 4 (4..5 renderings per group, splits with >= 1 group of 2+); '
                'LARGE lists <=4; long lists of every length 5..40; SLOPE all pairs of length 3 in both forms '
                'and all pairs of length 4 over {-3,0,1,2.5}; criteria ranges of length 4, every value list '
                'for length 2, two ranges for length 3, 8 second criteria for length <=2; text ranges of '
                'length 4 with a second numeric range for every length',
}
ASSUMPTIONS = [
    'MODE: on a multimodal or all-distinct list any most-frequent value (or an error) is accepted; '
    'regrouping/permutation invariance of MODE is only checked on unimodal lists',
    'COUNT is only checked on all-numeric lists',
    'sample VAR/STDEV of a single item, GEOMEAN/HARMEAN of a list with an item <= 0 and SLOPE with zero '
    'x-variance are undefined and not checked',
    'SLOPE is checked in the flat-argument form SLOPE(y1..yn, x1..xn) only (array arguments not demanded)',
    'VAR/VAR.S/VARP/VAR.P and STDEV/STDEV.S/STDEVP/STDEV.P are taken as the sample/population names',
    'criteria are always strings (operator+number, bare number, wildcard or bare text); numbers are matched '
    'only against numeric cells, text/wildcards only against lower-case text cells; no [..], no ~ escapes',
    'criteria ranges / value ranges are flat and of equal length; SUMIF is checked in its 2-argument form, '
    'AVERAGEIF in its 2- and 3-argument forms',
    'an average over an empty selection may give any error value',
    'with two different error values among the items either of them is accepted',
    'floats compare with core.close (rel 1e-9, abs 1e-12) against the exact rational reference',
]


# --------------------------------------------------------------------------
# exact reference statistics

def fr(x):
    if isinstance(x, bool) or not isinstance(x, (int, float)):
        raise ValueError('not a number: %r' % (x,))
    if isinstance(x, int):
        return Fraction(x)
    return Fraction(repr(x))      # the decimal the float spells (R2: both readings agree within 1e-9)


def mean(xs):
    return sum(xs, Fraction(0)) / len(xs)


def ref_stat(fn, items, k=None):
    """-> None (not demanded) | ('num', F) | ('sqrt', F) | ('root', F, n) | ('oneof', [F..])
    ('oneof' additionally accepts any error value)."""
    xs = [fr(x) for x in items]
    n = len(xs)
    if fn == 'SUM':
        return ('num', sum(xs, Fraction(0)))
    if fn == 'PRODUCT':
        p = Fraction(1)
        for x in xs:
            p *= x
        return ('num', p)
    if fn == 'AVERAGE':
        return ('num', mean(xs))
    if fn == 'MIN':
        return ('num', min(xs))
    if fn == 'MAX':
        return ('num', max(xs))
    if fn == 'COUNT':
        return ('num', Fraction(n))
    if fn == 'MEDIAN':
        s = sorted(xs)
        if n % 2:
            return ('num', s[n // 2])
        return ('num', (s[n // 2 - 1] + s[n // 2]) / 2)
    if fn == 'MODE':
        cnt = {}
        for x in xs:
            cnt[x] = cnt.get(x, 0) + 1
        top = max(cnt.values())
        modes = sorted(x for x in cnt if cnt[x] == top)
        if len(modes) == 1 and top >= 2:
            return ('num', modes[0])
        return ('oneof', modes)
    if fn in ('VAR', 'VAR.S', 'STDEV', 'STDEV.S'):
        if n < 2:
            return None
        m = mean(xs)
        v = sum(((x - m) ** 2 for x in xs), Fraction(0)) / (n - 1)
        return ('num', v) if fn.startswith('VAR') else ('sqrt', v)
    if fn in ('VARP', 'VAR.P', 'STDEVP', 'STDEV.P'):
        m = mean(xs)
        v = sum(((x - m) ** 2 for x in xs), Fraction(0)) / n
        return ('num', v) if fn.startswith('VAR') else ('sqrt', v)
    if fn == 'AVEDEV':
        m = mean(xs)
        return ('num', sum((abs(x - m) for x in xs), Fraction(0)) / n)
    if fn == 'GEOMEAN':
        if any(x <= 0 for x in xs):
            return None
        p = Fraction(1)
        for x in xs:
            p *= x
        return ('root', p, n)
    if fn == 'HARMEAN':
        if any(x <= 0 for x in xs):
            return None
        return ('num', n / sum((1 / x for x in xs), Fraction(0)))
    if fn == 'LARGE':
        return ('num', sorted(xs, reverse=True)[k - 1])
    raise ValueError(fn)


def ref_slope(ys, xs):
    ys = [fr(y) for y in ys]
    xs = [fr(x) for x in xs]
    mx, my = mean(xs), mean(ys)
    den = sum(((x - mx) ** 2 for x in xs), Fraction(0))
    if den == 0:
        return None
    return ('num', sum(((x - mx) * (y - my) for x, y in zip(xs, ys)), Fraction(0)) / den)


def is_number(v):
    return isinstance(v, (int, float)) and not isinstance(v, bool)


def _root(x, n):
    """n-th root of a positive Fraction that may exceed the double range"""
    from fractions import Fraction
    x = Fraction(x)
    return math.exp((math.log(x.numerator) - math.log(x.denominator)) / n)


def judge(spec, raw, out):
    """True when the outcome satisfies the reference spec."""
    kind = spec[0]
    if kind == 'anyerror':
        return out[0] == 'e'
    if kind == 'error':
        return out[0] == 'e' and out[1] in spec[1]
    if out[0] != 'v':
        return kind == 'oneof' and out[0] == 'e'
    val = raw['result']
    if not is_number(val):
        return False
    if kind == 'num':
        return close(val, spec[1], rel=_REL[0])
    if kind == 'sqrt':
        return val >= 0 and close(val, math.sqrt(spec[1]), rel=_REL[0])
    if kind == 'root':
        return close(val, _root(spec[1], spec[2]), rel=_REL[0])
    if kind == 'oneof':
        return any(close(val, c, rel=_REL[0]) for c in spec[1])
    raise ValueError(kind)


def show(spec):
    kind = spec[0]
    if kind == 'num':
        return float(spec[1])
    if kind == 'sqrt':
        return math.sqrt(spec[1])
    if kind == 'root':
        return _root(spec[1], spec[2])
    if kind == 'oneof':
        return {'any of': [float(c) for c in spec[1]], 'or': 'an error value'}
    if kind == 'anyerror':
        return 'any error value'
    if kind == 'error':
        return {'error': list(spec[1])}
    return repr(spec)


# --------------------------------------------------------------------------
# rendering of a list split into consecutive groups

def sname(i):
    return 'x' + AZ[i] if i < 26 else 'x' + AZ[i // 26 - 1] + AZ[i % 26]


def nest(kind, g):
    if kind == 'h':
        return list(g)
    if kind == 'n':                       # right-nested: [a, [b, [c]]]; [[a]] for one item
        if len(g) == 1:
            return [[g[0]]]
        out = [g[-1]]
        for x in reversed(g[:-1]):
            out = [x, out]
        return out
    if kind == 'd':                       # mixed depth: [[first half], [[second half]]]
        h = (len(g) + 1) // 2
        return [list(g[:h]), [list(g[h:])]] if len(g) > 1 else [[[g[0]]]]
    if kind == 'r':                       # rows: two halves; equal halves are ONE row object listed twice ([row] * 2)
        h = (len(g) + 1) // 2
        first = list(g[:h])
        return [first, first if list(g[h:]) == first else list(g[h:])] if len(g) > 1 else [[g[0]]]
    raise ValueError(kind)


def render(shape, items):
    """shape: [[kind, size], ...] ->  (argument texts, variable bindings)"""
    args, vars_, shared = [], {}, {}
    pos = sc = 0
    for gi, (kind, m) in enumerate(shape):
        g = items[pos:pos + m]
        pos += m
        if kind == 'a':
            args.extend(lit(x) for x in g)
        elif kind == 's':
            for x in g:
                vars_[sname(sc)] = x
                args.append(sname(sc))
                sc += 1
        elif kind == 'l':
            args.append('{' + ','.join(lit(x) for x in g) + '}')
        elif kind == 'm':
            h = (m + 1) // 2
            args.append('{' + ','.join(lit(x) for x in g[:h]) + ';' + ','.join(lit(x) for x in g[h:]) + '}')
        else:
            # a host list that occurs twice with the same content is handed in as ONE object named twice (SUM(arra,arra))
            key = (kind, tuple(g))
            name = shared.get(key)
            if name is None:
                name = shared[key] = 'arr' + AZ[gi]
                vars_[name] = nest(kind, g)
            args.append(name)
    if pos != len(items):
        raise ValueError('shape does not cover the list')
    return args, vars_


K1_ALL = ('a', 's', 'l', 'h', 'n')
K2_ALL = ('a', 's', 'l', 'm', 'h', 'n', 'd', 'r')
K1_RED = ('a', 'l', 'h', 'n')
K2_RED = ('a', 'l', 'm', 'h', 'n')


def compositions(n):
    if n == 0:
        yield []
        return
    for first in range(1, n + 1):
        for rest in compositions(n - first):
            yield [first] + rest


def shapes(n, k1, k2):
    for comp in compositions(n):
        for kinds in itertools.product(*[(k1 if m == 1 else k2) for m in comp]):
            yield [[k, m] for k, m in zip(kinds, comp)]


def shape_is_plain(shape):
    return len(shape) == 1 and shape[0][0] == 'a'


AGG = ['SUM', 'PRODUCT', 'AVERAGE', 'MIN', 'MAX', 'COUNT', 'MEDIAN', 'MODE', 'VAR', 'VARP', 'STDEV',
       'STDEVP', 'AVEDEV', 'GEOMEAN', 'HARMEAN']
ALIASES = ['VAR.S', 'VAR.P', 'STDEV.S', 'STDEV.P']


def agg_one(env, fn, shape, items, k=None, invariance=False, spec=False):
    """Evaluate fn over `items` rendered by `shape`; -> fail(...) or None.
    spec: the reference of (fn, items, k) when the caller has already computed it."""
    if spec is False:
        spec = ref_stat(fn, items, k)
    if spec is None:
        env.note(fn + ':undefined (not demanded)')
        return None
    if spec[0] == 'oneof' and invariance:
        env.note('MODE:multimodal (not demanded)')
        return None
    args, vars_ = render(shape, items)
    if k is not None:
        args = args + [str(k)]
    formula = '%s(%s)' % (fn, ','.join(args))
    raw = env.ev(formula, vars=vars_)
    out = env.out(raw)
    env.note(fn if spec[0] != 'oneof' else 'MODE:multimodal')
    if judge(spec, raw, out):
        return None
    narrow = ['one', fn, shape, items] + ([k] if k is not None else [])
    return fail('%s%s = %s, expected %s' % (formula, (' with %s' % vars_) if vars_ else '', out, show(spec)),
                show(spec), out, case=narrow)


def lists_over(pool, n):
    return ([*t] for t in itertools.product(pool, repeat=n))


def nondecreasing(pool, n):
    return ([*t] for t in itertools.combinations_with_replacement(pool, n))


class AggBase(Sub):
    def check(self, env, case):
        if case[0] == 'one':
            return self.one(env, case)
        return self.block(env, case)

    def one(self, env, case):
        fn, shape, items = case[1], case[2], case[3]
        k = case[4] if len(case) > 4 else None
        env.nt()
        return agg_one(env, fn, shape, items, k)


class Definitions(AggBase):
    name = 'c11.definitions'
    rule = ('every list of length 1..4 over {-3,-1,0,1,2,2.5,4}: each of 19 function names on the list as '
            'literal arguments, as one literal array and as one host list equals the exact-rational textbook '
            'statistic; non-trivial = list with >= 2 distinct values')
    min_cases = 399
    min_nontrivial = 300
    min_classes = 15
    FORMS = ('a', 'l', 'h')

    def cases(self, tier, unit):
        for n in range(1, 5):
            for items in lists_over(V, n):
                yield ['def', items]

    def block(self, env, case):
        items = case[1]
        out = []
        if len(set(items)) > 1:
            env.nt()
        for fn in AGG + ALIASES:
            for kind in self.FORMS:
                f = agg_one(env, fn, [[kind, len(items)]], items)
                if f:
                    out.append(f)
        if items == sorted(items) and len(set(items)) > 1 and items[0] <= 0:
            # GEOMEAN / HARMEAN of a list with an item <= 0 have no textbook value (which error, or which value, is not demanded) -
            # but whatever they give, they give it in every order of the items
            for fn in ('GEOMEAN', 'HARMEAN'):
                seen = {}
                for perm in sorted(set(itertools.permutations(items))):
                    f = '%s(%s)' % (fn, ','.join(lit(x) for x in perm))
                    o = env.evo(f)
                    seen.setdefault('error' if o[0] == 'e' else repr(o), f)
                if len(seen) > 1:
                    out.append(fail('%s of the items %r depends on their order: %s' % (
                        fn, items, '; '.join('%s gives %s' % (f, 'an error value' if k == 'error' else k) for k, f in sorted(seen.items()))),
                        'one outcome', sorted(seen)))
        return out[:8]


class Regrouping(AggBase):
    name = 'c11.regrouping'
    rule = ('a list x every split into consecutive groups x every rendering of each group (literal arguments, '
            'scalar variables, literal array, 2-D literal array, host flat / right-nested / mixed-depth list / two rows; host lists of equal '
            'content are ONE object named twice, equal rows ONE row object listed twice) '
            'x 15 order-free functions equals the reference statistic of the flat list (all permutations of '
            'every list are in the space); non-trivial = evaluation with >= 2 groups or a nested rendering')
    min_cases = 100
    min_nontrivial = 10000
    min_classes = 15

    def cases(self, tier, unit):
        for n in (1, 2):
            for items in lists_over(V, n):
                yield ['grp', items, 'all']
        if tier == 'quick':
            for items in nondecreasing(V, 3):
                yield ['grp', items, 'all']
        else:
            for items in lists_over(V, 3):
                yield ['grp', items, 'all']
            for items in nondecreasing(V, 4):
                yield ['grp', items, 'red']

    def block(self, env, case):
        items, which = case[1], case[2]
        k1, k2 = (K1_ALL, K2_ALL) if which == 'all' else (K1_RED, K2_RED)
        out = []
        specs = [(fn, ref_stat(fn, items)) for fn in AGG]
        for shape in shapes(len(items), k1, k2):
            if shape_is_plain(shape):
                continue                  # c11.definitions
            if which == 'red' and len(shape) == len(items):
                continue                  # all-singleton splits are covered for length <= 3
            for fn, spec in specs:
                if spec is not None and spec[0] != 'oneof':
                    env.nt()
                f = agg_one(env, fn, shape, items, invariance=True, spec=spec)
                if f:
                    out.append(f)
        return out[:8]


class Large(AggBase):
    name = 'c11.large'
    rule = ('LARGE(array, k) for every list of the bound x every k in 1..n x the array as literal, 2-D literal, '
            'host flat, right-nested and mixed-depth list equals the k-th largest item; non-trivial = nested or '
            '2-D rendering with k >= 2')
    min_cases = 399
    min_nontrivial = 500
    KINDS = ('l', 'm', 'h', 'n', 'd')

    def cases(self, tier, unit):
        for n in range(1, (3 if tier == 'quick' else 4) + 1):
            for items in lists_over(V, n):
                yield ['lrg', items]

    def block(self, env, case):
        items = case[1]
        n = len(items)
        out = []
        for kind in self.KINDS:
            if kind == 'm' and n < 2:
                continue
            for k in range(1, n + 1):
                if kind in ('m', 'n', 'd') and k >= 2:
                    env.nt()
                f = agg_one(env, 'LARGE', [[kind, n]], items, k)
                if f:
                    out.append(f)
        return out[:8]


# --------------------------------------------------------------------------
# deterministic long lists

W = [-12.75, 7, 0.125, -3, 100, 10.5, 0.1, -0.5, 33, 2]
P = [1, 2, 2.5, 4, 0.5, 10, 3, 0.125]
FAMILIES = ('cyc', 'mag', 'pos', 'const', 'alt', 'dup', 'big', 'huge', 'offs', 'offs53', 'offsf')
_REL = [1e-9]       # relative tolerance of judge(); 1e-6 for the large-magnitude families (see LongLists)


def long_list(fam, n):
    if fam == 'cyc':
        return [V[(3 * i + 1) % 7] for i in range(n)]
    if fam == 'mag':
        return [W[(7 * i + 3) % 10] for i in range(n)]
    if fam == 'pos':
        return [P[(5 * i + 2) % 8] for i in range(n)]
    if fam == 'const':
        return [2.5] * n
    if fam == 'alt':
        return [(i + 1) * (-1) ** i for i in range(n)]
    if fam == 'dup':
        return [V[(i // 3) % 7] for i in range(n)]
    if fam == 'big':        # non-integers whose magnitude is ~1e7 times their spread
        return [1000000 + ((3 * i + 1) % 7) / 10.0 for i in range(n)]
    if fam == 'huge':
        return [100000000 + ((5 * i + 2) % 4 + 1) / 10.0 for i in range(n)]
    if fam == 'offs':       # whole numbers far from zero with a small spread: exact in, so exact arithmetic is possible throughout
        return [1000000000000 + (1, 2, 4, 8, 5)[(3 * i) % 5] for i in range(n)]
    if fam == 'offsf':      # ... the same with halves (exact doubles): floats far from zero are no excuse either
        return [1000000000000.5 + (0, 1, 3, 7, 4)[(3 * i) % 5] for i in range(n)]
    if fam == 'offs53':     # ... and beyond 2^53, where a conversion to a double loses the units
        return [2 ** 53 + (1, 2, 4, 8, 5)[(3 * i) % 5] for i in range(n)]
    raise ValueError(fam)


def long_shapes(n):
    t = n // 3
    chunks = []
    left, i = n, 0
    while left > 0:
        m = min(7, left)
        chunks.append([('n', 'h', 'd')[i % 3], m])
        left -= m
        i += 1
    return [[['a', n]], [['s', n]], [['h', n]], [['m', n]], [['n', n]], chunks,
            [['a', t], ['l', t], ['d', n - 2 * t]]]


class LongLists(AggBase):
    name = 'c11.long'
    rule = ('10 deterministic list families (cyclic over the pool, mixed magnitudes, positive, constant, '
            'alternating integers, runs of duplicates, two large-magnitude/small-spread decimal families, whole numbers at 10^12 and beyond 2^53 with a small spread) of length 5..40 x 7 groupings x 15 functions, and LARGE '
            'for every k on 4 array renderings; non-trivial = every case')
    min_cases = 30
    min_nontrivial = 30
    min_classes = 15

    def cases(self, tier, unit):
        lengths = (5, 8, 13, 21, 40) if tier == 'quick' else range(5, 41)
        for fam in FAMILIES:
            for n in lengths:
                yield ['long', fam, n]

    def block(self, env, case):
        fam, n = case[1], case[2]
        items = long_list(fam, n)
        env.nt()
        if fam in ('big', 'huge'):
            # numerically delicate lists (|mean|/stdev ~ 1e7..1e9): any sound algorithm stays within ~1e-9, a
            # one-pass sum-of-squares formula loses all digits; judged at rel 1e-6
            _REL[0] = 1e-6
            try:
                return self._block(env, fam, n, items)
            finally:
                _REL[0] = 1e-9
        return self._block(env, fam, n, items)

    def _block(self, env, fam, n, items):
        out = []
        # a product beyond the double range is not demanded
        big = 1
        for x in items:
            big *= abs(int(x)) + 1
        specs = [(fn, ref_stat(fn, items)) for fn in AGG if not (fn == 'PRODUCT' and big > 10 ** 300)]
        for shape in long_shapes(n):
            for fn, spec in specs:
                f = agg_one(env, fn, shape, items, invariance=not shape_is_plain(shape), spec=spec)
                if f:
                    out.append(f)
        for kind in ('h', 'm', 'n', 'd'):
            for k in range(1, n + 1):
                f = agg_one(env, 'LARGE', [[kind, n]], items, k)
                if f:
                    out.append(f)
        return out[:8]


# --------------------------------------------------------------------------
# SLOPE (flat-argument form)

V4 = [-3, 0, 1, 2.5]


def slope_one(env, form, ys, xs):
    spec = ref_slope(ys, xs)
    if spec is None:
        env.note('zero x-variance (not demanded)')
        return None
    vals = list(ys) + list(xs)
    if form == 'a':
        args, vars_ = [lit(v) for v in vals], {}
    elif form == 'h2':      # the usual spelling: known ys, known xs as two ranges
        args, vars_ = ['ys', 'xs'], {'ys': list(ys), 'xs': list(xs)}
    elif form == 'c2':
        args, vars_ = ['ys', 'xs'], {'ys': [[v] for v in ys], 'xs': [[v] for v in xs]}
    elif form == 'l2':
        args, vars_ = ['{%s}' % ','.join(lit(v) for v in ys), '{%s}' % ';'.join(lit(v) for v in xs)], {}
    else:
        vars_ = dict((sname(i), v) for i, v in enumerate(vals))
        args = [sname(i) for i in range(len(vals))]
    formula = 'SLOPE(%s)' % ','.join(args)
    raw = env.ev(formula, vars=vars_)
    out = env.out(raw)
    if spec[1] != 0:
        env.nt()
    env.note('slope<0' if spec[1] < 0 else 'slope>0' if spec[1] > 0 else 'slope=0')
    if judge(spec, raw, out):
        return None
    return fail('%s%s = %s, expected %s' % (formula, (' with %s' % vars_) if vars_ else '', out, show(spec)),
                show(spec), out, case=['one', form, list(ys), list(xs)])


class Slope(Sub):
    name = 'c11.slope'
    rule = ('SLOPE(y1..yn, x1..xn) for every pair of lists of length 2..3 over the pool (length 4 over '
            '{-3,0,1,2.5}; long deterministic pairs of length 5..40) equals the least-squares slope '
            'sum((x-mx)(y-my))/sum((x-mx)^2); non-trivial = x-variance > 0 and slope != 0')
    min_cases = 300
    min_nontrivial = 10000
    min_classes = 3

    def cases(self, tier, unit):
        for ys in lists_over(V, 2):
            yield ['ys', ys, 'V', ['a', 's', 'h2', 'c2', 'l2']]
        for ys in lists_over(V, 3):
            if tier == 'quick':
                yield ['ys', ys, 'V4', ['a']]
            else:
                yield ['ys', ys, 'V', ['a', 's']]
        if tier != 'quick':
            for ys in lists_over(V4, 4):
                yield ['ys', ys, 'V4', ['a']]
        lengths = (5, 8, 13, 21, 40) if tier == 'quick' else range(5, 41)
        for n in lengths:
            for fy, fx in (('mag', 'alt'), ('cyc', 'mag'), ('alt', 'pos'), ('pos', 'cyc')):
                yield ['lng', fy, fx, n]
        # numerically delicate pairs: x (or y) of large magnitude and small spread
        for n in (3, 5, 8, 13):
            for fy, fx in (('alt', 'big'), ('cyc', 'huge'), ('big', 'alt'), ('huge', 'big'), ('alt', 'offs'), ('offs', 'alt'), ('alt', 'offs53'),
                           ('offs53', 'pos'), ('offsf', 'alt'), ('offsf', 'pos'), ('cyc', 'offsf')):
                yield ['lng', fy, fx, n]

    def check(self, env, case):
        if case[0] == 'one':
            return slope_one(env, case[1], case[2], case[3])
        out = []
        if case[0] == 'lng':
            ys, xs = long_list(case[1], case[3]), long_list(case[2], case[3])
            delicate = bool({'big', 'huge'} & {case[1], case[2]})
            if delicate:
                _REL[0] = 1e-6
            try:
                for form in ('a', 's', 'h2', 'c2'):
                    f = slope_one(env, form, ys, xs)
                    if f:
                        out.append(f)
            finally:
                _REL[0] = 1e-9
            return out
        ys, pool, forms = case[1], (V if case[2] == 'V' else V4), case[3]     # pool of the x lists
        for xs in lists_over(pool, len(ys)):
            for form in forms:
                f = slope_one(env, form, ys, xs)
                if f:
                    out.append(f)
        return out[:8]


# --------------------------------------------------------------------------
# criteria: own interpreter and recursive wildcard matcher

CRIT_OPS = ('<>', '>=', '<=', '>', '<', '=')
NUM_RE = re.compile(r'-?[0-9]+(\.[0-9]+)?\Z')


def wild(p, s):
    """* = any run of characters (possibly empty), ? = exactly one character."""
    if not p:
        return not s
    if p[0] == '*':
        return wild(p[1:], s) or (bool(s) and wild(p, s[1:]))
    if s and (p[0] == '?' or p[0] == s[0]):
        return wild(p[1:], s[1:])
    return False


def crit_holds(crit, cell):
    op, rest = None, crit
    for o in CRIT_OPS:
        if crit.startswith(o):
            op, rest = o, crit[len(o):]
            break
    num = Fraction(rest) if NUM_RE.match(rest) else None
    if op is not None:
        if num is not None and op != '<>' and not is_number(cell):
            return False        # a text, logical or blank cell does not satisfy a comparison with a number
        if num is not None and op == '<>' and not is_number(cell):
            return True         # ... and for the same reason it IS different from that number (TRUE is not 1)
        if num is None or not is_number(cell):
            raise ValueError('outside the checked criteria domain: %r on %r' % (crit, cell))
        c = fr(cell)
        return {'<>': c != num, '>=': c >= num, '<=': c <= num, '>': c > num, '<': c < num, '=': c == num}[op]
    if num is not None:
        if not is_number(cell):
            if isinstance(cell, str) and not NUM_RE.match(cell) or cell is None or isinstance(cell, bool):
                return False    # ... nor is it equal to one (numeric TEXT in a cell stays undemanded)
            raise ValueError('outside the checked criteria domain: %r on %r' % (crit, cell))
        return fr(cell) == num
    if not isinstance(cell, str):
        if is_number(cell) or cell is None or isinstance(cell, bool):
            return False        # a number, logical or blank cell does not match a text pattern
        raise ValueError('outside the checked criteria domain: %r on %r' % (crit, cell))
    if '*' in rest or '?' in rest:
        return wild(rest, cell)
    return cell == rest


def selected(ranges, crits):
    n = len(ranges[0])
    if any(len(r) != n for r in ranges):
        raise ValueError('ranges of unequal length')
    return [i for i in range(n) if all(crit_holds(c, r[i]) for r, c in zip(ranges, crits))]


def ref_criteria(fn, ranges, crits, values):
    """-> (spec, selection class)"""
    sel = selected(ranges, crits)
    src = values if values is not None else ranges[0]
    cls = 'empty' if not sel else 'all' if len(sel) == len(ranges[0]) else 'proper'
    if fn == 'COUNTIF':
        return ('num', Fraction(len(sel))), cls
    xs = [fr(src[i]) for i in sel]
    if fn in ('SUMIF', 'SUMIFS'):
        return ('num', sum(xs, Fraction(0))), cls
    if fn in ('AVERAGEIF', 'AVERAGEIFS'):
        return (('num', mean(xs)) if xs else ('anyerror',)), cls
    if fn == 'MAXIFS':
        if xs and max(xs) < 0:
            cls += ':negative-max'
        return ('num', max(xs) if xs else Fraction(0)), cls
    raise ValueError(fn)


def arr_text(form, xs):
    # (a whole float of 1e16 and more has no literal spelling of its own: its digits, which denote the same number)
    return '{' + (',' if form == 'l' else ';').join(lit(int(x) if isinstance(x, float) and x.is_integer() and abs(x) >= 1e16 else x) for x in xs) + '}'


def crit_one(env, fn, form, ranges, crits, values):
    """fn(ranges/criteria[/values]) through the parser against the reference; form 'h' host lists, 'c' / 'w' host
    columns / rows as a range arrives ([[a],[b]] / [[a,b]]), 'l' literal arrays {a,b}, 'r' literal arrays {a;b}."""
    spec, cls = ref_criteria(fn, ranges, crits, values)
    vars_ = {}

    def arr(name, xs):
        if form == 'h':
            vars_[name] = list(xs)
            return name
        if form == 'c':     # a column as a host delivers a range: rows of one cell
            vars_[name] = [[x] for x in xs]
            return name
        if form == 'w':     # a row: one row of cells
            vars_[name] = [list(xs)]
            return name
        if form == 's':     # one cell: the value itself (only for one-item ranges)
            (vars_[name],) = xs
            return name
        return arr_text(form, xs)
    def build(crit_texts):
        if fn in ('SUMIF', 'COUNTIF', 'AVERAGEIF'):
            args = [arr('cra', ranges[0]), crit_texts[0]]
            if values is not None:
                if fn == 'COUNTIF':
                    raise ValueError('COUNTIF has no 3-argument form')
                args.append(arr('vals', values))
        else:
            args = [arr('vals', values)]
            for j, (r, c) in enumerate(zip(ranges, crit_texts)):
                args.append(arr('cr' + AZ[j], r))
                args.append(c)
        return '%s(%s)' % (fn, ','.join(args))
    # the criterion as a text literal; a bare number also as the NUMBER it spells (COUNTIF(r,2)) and as a number variable;
    # any criterion as a text variable (rotating, so that every delivery is seen for every kind of criterion)
    spellings = [[lit(c) for c in crits]]
    if any(NUM_RE.match(c) for c in crits):
        spellings.append([c if NUM_RE.match(c) else lit(c) for c in crits])
        for j, c in enumerate(crits):
            if NUM_RE.match(c):
                vars_['ncrit' + AZ[j]] = int(c) if re.match(r'-?[0-9]+\Z', c) else float(c)
        spellings.append([('ncrit' + AZ[j]) if NUM_RE.match(c) else lit(c) for j, c in enumerate(crits)])
    elif len(ranges[0]) % 2:
        for j, c in enumerate(crits):
            vars_['tcrit' + AZ[j]] = c
        spellings.append(['tcrit' + AZ[j] for j in range(len(crits))])
    else:
        # ... or as a one-cell range holding the text (a criterion kept in a cell, referenced as B1:B1)
        for j, c in enumerate(crits):
            vars_['rcrit' + AZ[j]] = [[c]]
        spellings.append(['rcrit' + AZ[j] for j in range(len(crits))])
    env.note('%s:%s' % (fn, cls))
    if cls.startswith('proper'):
        env.nt()
    if len(spellings) > 2:
        # the text literal always; of the other deliveries one per evaluation, in rotation over functions, forms and ranges
        k = (len(fn) + len(form) + len(ranges[0]) + sum(len(c) for c in crits) + (0 if values is None else len(values) + 1)) % (len(spellings) - 1)
        spellings = [spellings[0], spellings[1 + k]]
    for sp in spellings:
        formula = build(sp)
        raw = env.ev(formula, vars=vars_)
        out = env.out(raw)
        if not judge(spec, raw, out):
            sel = selected(ranges, crits)
            return fail('%s%s = %s, expected %s (selected positions %s)' % (
                formula, (' with %s' % vars_) if vars_ else '', out, show(spec), sel), show(spec), out,
                case=['one', fn, form, ranges, crits, values])
    return None


NUM_CRITS = [op + num for op in ('>', '<', '>=', '<=', '=', '<>') for num in ('-1', '0', '2', '2.5')] + \
            ['2', '2.5', '-1']
SECOND_CRITS = ['>0', '<=2', '<>2.5', '2', '=-1', '>=0', '<2.5', '<>-1']
NEG = [-3, -0.5, -2.5, -4]
MIX = [2.5, -1, 4, 0]


def value_families(c):
    n = len(c)
    fams = [NEG[:n], MIX[:n]]
    if n == 1:
        fams.append([0])        # a single cell holding 0 (falsy) is a value range like any other
    if n == 3:
        fams.append([1e16, 1.0, -1e16])     # AVERAGE / SUM of these are 1/3 and 1 (exact summation): so are the conditional forms
    rev = list(reversed(c))
    if rev != list(c) and rev not in fams:
        fams.append(rev)
    return fams


class CritBase(Sub):
    def check(self, env, case):
        if case[0] == 'one':
            return crit_one(env, case[1], case[2], case[3], case[4], case[5])
        out = []
        for fn, form, ranges, crits, values in self.expand(env, case):
            f = crit_one(env, fn, form, ranges, crits, values)
            if f:
                out.append(f)
        return out[:8]


class CriteriaNumeric(CritBase):
    name = 'c11.criteria_num'
    rule = ('criteria range = every list of the bound over the pool x 27 criteria ({>,<,>=,<=,=,<>} x '
            '{-1,0,2,2.5}, bare 2 / 2.5 / -1; as text literal, a bare number also as a number literal and a number variable) x '
            'SUMIF, AVERAGEIF (2 and 3 arguments), COUNTIF, SUMIFS, '
            'AVERAGEIFS, MAXIFS with value lists {all-negative, mixed, reversed criteria range} (every value '
            'list for length 2), host lists, literal arrays and - one cell - the bare values; two criteria ranges with 8 second criteria; '
            'result = statistic of exactly the selected items, 0 / any error on an empty selection; '
            'non-trivial = selection is a proper non-empty subset')
    min_cases = 399
    min_nontrivial = 20000
    min_classes = 18

    def cases(self, tier, unit):
        top = 3 if tier == 'quick' else 4
        for n in range(1, top + 1):
            for c in lists_over(V, n):
                yield ['c', c, (['s'] if n == 1 else []) + (['h', 'c', 'w', 'l'] if (n <= 2 or (tier != 'quick' and n <= 3)) else ['h', 'c', 'w'])]
        if tier != 'quick':
            for c in lists_over(V, 2):
                yield ['cv', c]
        for n in range(1, (2 if tier == 'quick' else 3) + 1):
            for c in lists_over(V, n):
                yield ['cc', c, 8 if (tier != 'quick' and n <= 2) else 4]

    def expand(self, env, case):
        kind, c = case[0], case[1]
        n = len(c)
        if kind == 'c':
            for crit in NUM_CRITS:
                for form in case[2]:
                    for fn in ('SUMIF', 'COUNTIF', 'AVERAGEIF'):
                        yield fn, form, [c], [crit], None
                    for vals in value_families(c):
                        for fn in ('AVERAGEIF', 'SUMIF', 'SUMIFS', 'AVERAGEIFS', 'MAXIFS'):
                            yield fn, form, [c], [crit], vals
        elif kind == 'cv':
            fams = value_families(c)
            for vals in lists_over(V, n):
                if vals in fams:
                    continue
                for crit in NUM_CRITS:
                    for fn in ('AVERAGEIF', 'SUMIFS', 'AVERAGEIFS', 'MAXIFS'):
                        yield fn, 'h', [c], [crit], vals
        else:
            seconds = []
            for d in (list(reversed(c)), MIX[:n], c[1:] + c[:1]):
                if d not in seconds:
                    seconds.append(d)
            for d in seconds:
                for ca in NUM_CRITS:
                    for cb in SECOND_CRITS[:case[2]]:
                        for vals in (NEG[:n], MIX[:n]):
                            for fn in ('SUMIFS', 'AVERAGEIFS', 'MAXIFS'):
                                yield fn, 'h', [c, d], [ca, cb], vals


TEXTS = ['apple', 'apricot', 'banana', 'a', 'abc', 'a?c', 'ab\ncd']
PATTERNS = ['a*', '*a', 'a?c', '*', '?', 'apple', 'b*a', '*an*', 'ab\ncd', 'ab']


class CriteriaText(CritBase):
    name = 'c11.criteria_text'
    rule = ('criteria range = every list of the bound over {apple,apricot,banana,a,abc,a?c} x patterns '
            '{a*,*a,a?c,*,?,apple,b*a,*an*}: COUNTIF, and AVERAGEIF(3) / SUMIFS / AVERAGEIFS / MAXIFS over '
            'all-negative and mixed value lists, plus a second numeric criteria range with 8 criteria; the '
            'selection is computed with an independent recursive wildcard matcher; non-trivial = proper '
            'non-empty selection')
    min_cases = 258
    min_nontrivial = 5000
    min_classes = 12

    TEXTS_ = TEXTS
    PATTERNS_ = PATTERNS

    def cases(self, tier, unit):
        for n in range(1, (3 if tier == 'quick' else 4) + 1):
            for t in lists_over(self.TEXTS_, n):
                yield ['t', t, n <= 2 or tier != 'quick']

    def expand(self, env, case):
        t = case[1]
        n = len(t)
        forms = (('s',) if n == 1 else ()) + (('h', 'c', 'w', 'l') if n <= 3 else ('h', 'c'))
        for pat in self.PATTERNS_:
            for form in forms:
                yield 'COUNTIF', form, [t], [pat], None
                for vals in (NEG[:n], MIX[:n]):
                    for fn in ('AVERAGEIF', 'SUMIF', 'SUMIFS', 'AVERAGEIFS', 'MAXIFS'):
                        yield fn, form, [t], [pat], vals
            for cb in (SECOND_CRITS if case[2] else []):
                for vals in (NEG[:n], MIX[:n]):
                    for fn in ('SUMIFS', 'AVERAGEIFS', 'MAXIFS'):
                        yield fn, 'h', [t, MIX[:n]], [pat, cb], vals


class Scale(Sub):
    name = 'c11.scale'
    rule = ('size ladder (1..13, then around 16, 32, 64, 100, 128, 256, 512, 1000, 1024 [2048, 4096]): the list is a fixed '
            'permutation of 1..n delivered as a flat host list, as rows of 16, as a range and (n <= 257) as literal arguments '
            'and as a literal array; 17 statistics and 6 criteria functions against closed forms (n(n+1)/2, (n+1)/2, '
            '(n^2-1)/12 ...); non-trivial = all')
    min_cases = 40
    min_nontrivial = 40
    min_classes = 3

    def cases(self, tier, unit):
        for n in scale(tier):
            for form in ('flat', 'rows', 'range') + (('args', 'array') if n <= 257 else ()):
                yield [n, form]

    @staticmethod
    def perm(n):
        step = next(k for k in (7919, 104729, 13, 11, 7, 5, 3, 2, 1) if math.gcd(k, n) == 1)
        return [(i * step) % n + 1 for i in range(n)]

    def check(self, env, case):
        n, form = case
        items = self.perm(n)
        vars_, cells = {}, None
        if form == 'flat':
            vars_['xs'] = list(items)
            a = 'xs'
        elif form == 'rows':
            vars_['xs'] = [items[i:i + 16] for i in range(0, n, 16)]
            a = 'xs'
        elif form == 'range':
            a = 'A1:A%d' % n
            cells = {a: [[v] for v in items]}
        elif form == 'args':
            a = ','.join(str(v) for v in items)
        else:
            a = '{' + ','.join(str(v) for v in items) + '}'
        env.nt()
        env.note(form)
        F = Fraction
        m = n // 2
        want = [('SUM(%s)', F(n * (n + 1), 2)), ('COUNT(%s)', n), ('AVERAGE(%s)', F(n + 1, 2)), ('MIN(%s)', 1), ('MAX(%s)', n),
                ('MEDIAN(%s)', F(n + 1, 2)), ('AVEDEV(%s)', F(n * n - (n % 2), 4 * n)),
                ('VARP(%s)', F(n * n - 1, 12)), ('VAR.P(%s)', F(n * n - 1, 12)), ('HARMEAN(%s)', F(n) / sum(F(1, i) for i in range(1, n + 1)))]
        if n >= 2:
            want += [('VAR(%s)', F(n * (n + 1), 12)), ('VAR.S(%s)', F(n * (n + 1), 12))]
        if form not in ('args',):
            want += [('LARGE(%s,1)', n), ('LARGE(%%s,%d)' % n, 1), ('SUMIF(%%s,">%d")' % m, F(n * (n + 1), 2) - F(m * (m + 1), 2)),
                     ('COUNTIF(%%s,"<=%d")' % m, m), ('COUNTIF(%%s,"%d")' % n, 1), ('MAXIFS(%%s,%%s,"<%d")' % n, n - 1 if n > 1 else 0),
                     ('SUMIFS(%%s,%%s,">=%d")' % n, n)]
            if n > m:
                want.append(('AVERAGEIF(%%s,">%d")' % m, F(n + m + 1, 2)))
            if n >= 2:
                want.append(('LARGE(%s,2)', n - 1))
        out = []
        for tmpl, w in want:
            f = tmpl.replace('%s', a)
            o = env.evo(f, vars_ or None, None, cells)
            r = number_of(o)
            if r is None or not close(r, w, rel=1e-9):
                shown = tmpl.replace('%s', {'flat': 'xs', 'rows': 'xs', 'range': a, 'args': '<1..n permuted>', 'array': '{<1..n permuted>}'}[form])
                out.append(fail('%s over a permutation of 1..%d (%s) = %r, expected %s' % (shown, n, form, o if len(repr(o)) < 80 else repr(o)[:80], float(w)),
                                float(w), o if len(repr(o)) < 200 else repr(o)[:200]))
                if len(out) >= 3:
                    break
        return out


def number_of(o):
    if o[0] == 'v' and isinstance(o[1], (int, float)) and not isinstance(o[1], bool):
        return o[1]
    return None


class CriteriaMixed(CritBase):
    name = 'c11.criteria_mixed'
    rule = ('criteria ranges that mix kinds of cells (a header text above numbers, a logical, a blank): every list of length '
            '2..3 over {1, 2.5, -1, 0, "a", "x2", "", TRUE, FALSE, blank} x criteria {>0, <2, >=2.5, <=1, =1, 1, a, x*, ?, <>1, <>0, ""} x COUNTIF, SUMIFS, '
            'AVERAGEIFS, MAXIFS over numeric value lists, as host lists, columns and rows: a cell of another kind than the '
            'criterion simply is not selected; non-trivial = proper non-empty selection')
    min_cases = 100
    min_nontrivial = 1000
    min_classes = 6
    MIXED = [1, 2.5, -1, 'a', 'x2', True, None, '', False, 0]
    CRITS = ['>0', '<2', '>=2.5', '<=1', '=1', '1', 'a', 'x*', '?', '<>1', '<>0', '']

    def cases(self, tier, unit):
        for n in (2, 3):
            for c in lists_over(self.MIXED, n):
                if len(set(type(x) for x in c)) > 1:
                    yield ['m', c]

    def expand(self, env, case):
        c = case[1]
        n = len(c)
        for crit in self.CRITS:
            for form in ('h', 'c', 'w'):
                yield 'COUNTIF', form, [c], [crit], None
                for fn in ('SUMIFS', 'AVERAGEIFS', 'MAXIFS'):
                    yield fn, form, [c], [crit], MIX[:n]


class CriteriaBrackets(CriteriaText):
    """* and ? are the only wildcards: brackets and ! in a criterion are ordinary characters (a glob library reads
    [..] as a character class)"""
    name = 'c11.criteria_brackets'
    rule = ('as criteria_text over the texts {a[b]c, abc, [x], x, a!c} x patterns {a[b]*, a[b]?, [x]*, *], a[!b]?, [*, ?[*}: '
            'brackets and ! are ordinary characters, only * and ? are wildcards; non-trivial = proper non-empty selection')
    min_cases = 30
    min_nontrivial = 500
    min_classes = 6
    TEXTS_ = ['a[b]c', 'abc', '[x]', 'x', 'a!c']
    PATTERNS_ = ['a[b]*', 'a[b]?', '[x]*', '*]', 'a[!b]?', '[*', '?[*']


# --------------------------------------------------------------------------
# error items

ERR_CODES = ['#ERROR!', '#DIV/0!', '#NAME?', '#N/A', '#NULL!', '#NUM!', '#REF!', '#VALUE!']
ERR_FUNCS = ['SUM', 'PRODUCT', 'AVERAGE', 'MIN', 'MAX', 'MEDIAN']
ERR_EXPRS = ['1/0', 'NA()', '"a"+1', 'undefinedname', 'SQRT(-1)', 'LN(0)']
ERR_FORMS = ('v', 't', 'h', 'n', 'l', 'k')


def err_one(env, fn, form, items):
    """items: numbers and {'$err': code} / {'$expr': text} markers.
    forms: v error through a variable among literal arguments; t error token / expression text among
    literal arguments; h one host flat list; n one host right-nested list; l literal array with the
    error through a variable; k literal array containing the token / expression text."""
    codes = []
    for it in items:
        if isinstance(it, dict):
            if '$err' in it:
                codes.append(it['$err'])
            else:
                alone = env.evo(it['$expr'])
                if alone[0] != 'e':
                    env.note('producer is not an error: %s' % it['$expr'])
                    return None
                codes.append(alone[1])
    vars_ = {}
    texts = []
    ne = 0
    for it in items:
        if not isinstance(it, dict):
            texts.append(lit(it))
        elif '$expr' in it:
            if form not in ('t', 'k'):
                raise ValueError('expression producers have forms t and k only')
            texts.append(it['$expr'])
        elif form in ('t', 'k'):
            texts.append(it['$err'])
        else:
            name = 'xe' + AZ[ne]
            ne += 1
            vars_[name] = env.dec(it)
            texts.append(name)
    if form in ('v', 't'):
        args = ','.join(texts)
    elif form in ('l', 'k'):
        args = '{' + ','.join(texts) + '}'
    else:
        vars_ = {'arr': nest(form, [env.dec(it) if isinstance(it, dict) else it for it in items])}
        args = 'arr'
    formula = '%s(%s)' % (fn, args)
    raw = env.ev(formula, vars=vars_)
    out = env.out(raw)
    env.nt()
    for c in codes:
        env.note(c)
    spec = ('error', sorted(set(codes)))
    if judge(spec, raw, out):
        return None
    return fail('%s%s = %s, expected the error item %s' % (
        formula, (' with %s' % vars_) if vars_ else '', out, ' or '.join(sorted(set(codes)))),
        show(spec), out, case=['one', fn, form, items])


class ErrorItems(Sub):
    name = 'c11.error_items'
    rule = ('each of the 8 error values (through a variable, as a literal token, inside a host flat / nested '
            'list, inside a literal array) and 6 error-producing expressions (expected code = the code the '
            'expression gives on its own) at every position of every list of length 1..3 whose other items '
            'are from the pool x SUM, PRODUCT, AVERAGE, MIN, MAX, MEDIAN gives that error; pairs of different '
            'errors: either; non-trivial = every evaluation')
    min_cases = 1000
    min_nontrivial = 30000
    min_classes = 8

    def cases(self, tier, unit):
        for m in (0, 1, 2):
            for rest in lists_over(V, m):
                for pos in range(m + 1):
                    for code in ERR_CODES:
                        yield ['e', rest[:pos] + [{'$err': code}] + rest[pos:]]
                    for expr in ERR_EXPRS:
                        yield ['x', rest[:pos] + [{'$expr': expr}] + rest[pos:]]
        # the other items may be beyond what their sum or product can hold: the error item is the result all the same
        for rest in ([10 ** 400, 1.5], [2.5, 10 ** 309], [10 ** 200, 10 ** 200, 1.5], [-(10 ** 309), 0.5, 3]):
            for pos in range(len(rest) + 1):
                for code in ('#DIV/0!', '#N/A'):
                    yield ['e', rest[:pos] + [{'$err': code}] + rest[pos:]]
        for ca in ERR_CODES:
            for cb in ERR_CODES:
                if ca != cb:
                    for layout in ([{'$err': ca}, {'$err': cb}], [{'$err': ca}, 1, {'$err': cb}],
                                   [2.5, {'$err': ca}, {'$err': cb}]):
                        yield ['e', layout]

    def check(self, env, case):
        if case[0] == 'one':
            return err_one(env, case[1], case[2], case[3])
        out = []
        forms = ERR_FORMS if case[0] == 'e' else ('t', 'k')
        for fn in ERR_FUNCS:
            for form in forms:
                f = err_one(env, fn, form, case[1])
                if f:
                    out.append(f)
        return out[:8]


class Near(object):
    """a float that equals whatever lies within 1e-12 of it (relative)"""
    def __init__(self, value):
        self.value = value

    def __eq__(self, other):
        return isinstance(other, (int, float)) and abs(other - self.value) <= 1e-12 * abs(self.value)

    __req__ = __eq__

    def __ne__(self, other):
        return not self.__eq__(other)

    def __repr__(self):
        return repr(self.value)


class ExtremeItems(Sub):
    name = 'c11.extreme_items'
    rule = ('MEDIAN, AVERAGE, MIN, MAX and LARGE over 2..4 items near or beyond the largest double whose SUM cannot be held '
            'but whose statistic can (10^309 twice, 10^400 and 10^400+2, 1.5e308 and 1.7e308, ...) in every order, as arguments and '
            'as a host list: the exact statistic (whole results exactly, others within 1e-9); SUM, AVERAGE and all-selecting SUMIF / SUMIFS over '
            'whole numbers mixed with floats that cancel (10^16, 1.0, -10^16) in every order; non-trivial = all')
    min_cases = 20
    min_nontrivial = 20
    LISTS = [[10 ** 309, 10 ** 309], [10 ** 400, 10 ** 400 + 2], [1.5e308, 1.7e308], [1.7e308, 1.7e308, 1.0], [10 ** 309, 10 ** 309 + 4, 7, 10 ** 310],
             [-1.5e308, -1.7e308], [1e308, 1.5e308, 1.6e308, 1.7e308], [2 ** 1024, 2 ** 1024 + 2], [-(10 ** 309), 10 ** 309]]
    FUNCS = ['MEDIAN', 'AVERAGE', 'MIN', 'MAX', 'LARGE2']
    # whole numbers (every whole-number literal is one) among floats whose sum cancels: the sum is rounded once, in every order
    MIXED = [[10 ** 16, 1.0, -10 ** 16], [10 ** 16, 0.5, -10 ** 16, 0.25], [2 ** 60, 1.5, -2 ** 60], [10 ** 400, 1.0, -10 ** 400],
             # ... and whole numbers WITHIN 2^53 that cancel against a float: the floats are not to be rounded among themselves first
             [2 ** 53, -(2.0 ** 53 - 1), 0.3], [10 ** 15, -999999999999999.5, 0.3], [1000000, -999999.5, 0.0000000003],
             # ... and a whole part beyond 2^53 that no double holds, beside a float (the double nearest to the exact sum, not to the rounded whole part)
             [2 ** 53 + 1, 0.5], [2 ** 53 + 1, -(2.0 ** 53)], [2 ** 62 + 1, 2 ** 62 + 2, 1.0, 256.5]]

    def cases(self, tier, unit):
        for li in range(len(self.LISTS)):
            for fn in self.FUNCS:
                yield [li, fn]
        for li in range(len(self.MIXED)):
            for fn in ('SUM', 'AVERAGE', 'SUMIFALL'):
                yield [len(self.LISTS) + li, fn]
        for pi in range(len(self.PRODUCTS)):
            yield [pi, 'PRODUCT']

    # whole-number products right below the bound up to which whole numbers are computed (2^17 bits: the exact product), a zero among
    # factors whose product is beyond it (0 in every order), and plain cases
    PRODUCTS = [[2 ** 65536, 2 ** 65535], [2 ** 131070, 2], [2 ** 131071, 1], [2 ** 100000, 2 ** 31071, 1], [3, 2 ** 131069], [2 ** 131071, 4, 0],
                [0, 2 ** 131071, 4], [2 ** 70000, 0, 2 ** 70000], [7 ** 20000, 3 ** 30000, -1], [2 ** 1000, 0.5], [1.5, 4, 0],
                # whole numbers beyond the largest double with a float that brings the product back (the interpreter's int * float refuses them)
                [10 ** 310, 0.001], [10 ** 200, 10 ** 200, 1e-300], [10 ** 155, 10 ** 155, 0.001], [2 ** 1030, 2.0 ** -10, 3]]

    def product(self, env, items):
        if any(isinstance(x, float) for x in items):
            # a float among whole numbers: the exact product, rounded (the order of the float factors may show in the last places)
            exact = Fraction(1)
            for x in items:
                exact *= Fraction(x)
            want = Near(float(exact))
        else:
            want = 1
            for x in items:
                want = want * x
        for perm in sorted(set(itertools.permutations(items))):
            for f, vars_ in (('PRODUCT(arr)', {'arr': list(perm)}), ('PRODUCT(arr,brr)', {'arr': list(perm[:1]), 'brr': [list(perm[1:])]})):
                o = env.evo(f, vars_)
                v = o[1] if o[0] == 'v' else None
                if isinstance(v, dict) and '$int' in v:
                    v = int(v['$int'], 0)
                if not (isinstance(v, (int, float)) and not isinstance(v, bool) and v == want):
                    shown = repr(o) if not isinstance(v, int) or abs(v) < 2 ** 63 else '%d-bit whole number' % v.bit_length()
                    return fail('%s with the items %s = %s, expected their product (%s)' % (
                        f, ', '.join(repr(x) if not isinstance(x, int) or abs(x) < 2 ** 63 else '2^%d-ish (%d bits)' % (x.bit_length() - 1, x.bit_length()) for x in perm),
                        shown, repr(want) if not isinstance(want, int) or abs(want) < 2 ** 63 else 'a whole number of %d bits' % want.bit_length()), 'the product', shown)
        return None

    def check(self, env, case):
        if case[1] == 'PRODUCT':
            env.nt()
            env.note('PRODUCT')
            return self.product(env, self.PRODUCTS[case[0]])
        items, fn = (self.LISTS + self.MIXED)[case[0]], case[1]
        env.nt()
        env.note(fn)
        k = None
        if fn == 'SUMIFALL':
            # SUMIF / SUMIFS selecting every item sum as SUM sums
            want = sum((fr(x) for x in items), Fraction(0))
            for perm in sorted(set(itertools.permutations(items)), key=repr):
                for f in ('SUMIF(xones,">0",arr)', 'SUMIFS(arr,xones,">0")', 'SUMIF(arr,"<>0.125")'):
                    o = env.evo(f, {'arr': list(perm), 'xones': [1] * len(perm)})
                    if not (o[0] == 'v' and isinstance(o[1], (int, float)) and not isinstance(o[1], bool) and (
                            Fraction(o[1]) == want or o[1] == float(want))):
                        return fail('%s with arr = %r = %r, expected %s (every item is selected: the sum of the items, rounded once)' % (f, list(perm), o, float(want)),
                                    float(want), o)
            return None
        if fn == 'LARGE2':
            fn, k = 'LARGE', 2
        spec = ref_stat(fn, items, k)
        want = spec[1]
        if want.denominator != 1 and abs(want) > Fraction(repr(1.7976931348623157e308)):
            env.note('not representable')
            return None
        for perm in sorted(set(itertools.permutations(items)), key=repr):
            for form in ('a', 'h'):
                if form == 'a' and k:
                    continue            # LARGE takes one array
                if form == 'a':
                    # whole numbers as literals, floats (no literal spells 1.5e308 exactly) through scalar variables
                    vars_ = dict(('item' + AZ[i], x) for i, x in enumerate(perm) if isinstance(x, float))
                    f = '%s(%s%s)' % (fn, ','.join('item' + AZ[i] if isinstance(x, float) else lit(x) for i, x in enumerate(perm)), ',2' if k else '')
                elif k:
                    f, vars_ = 'LARGE(arr,2)', {'arr': list(perm)}
                else:
                    f, vars_ = '%s(arr)' % fn, {'arr': list(perm)}
                o = env.evo(f, vars_)
                ok = False
                if o[0] == 'v' and isinstance(o[1], dict) and '$int' in o[1]:
                    o = ['v', int(o[1]['$int'], 0)]
                if o[0] == 'v' and isinstance(o[1], int) and not isinstance(o[1], bool):
                    ok = o[1] == want
                elif o[0] == 'v' and isinstance(o[1], float) and math.isfinite(o[1]):
                    ok = abs(Fraction(o[1]) - want) <= abs(want) * Fraction(1, 10 ** 9)
                    if fn == 'SUM' and items in self.MIXED and abs(want) < 10 ** 308:
                        # the sum of whole numbers and floats is rounded once: the double nearest to the exact sum
                        ok = o[1] == float(want)
                if not ok:
                    shown = repr(o) if o[0] == 'e' or not isinstance(o[1], int) or abs(o[1]) < 2 ** 63 else '%d-bit whole number' % o[1].bit_length()
                    return fail('%s%s = %s, expected %s (the statistic can be held although the sum of the items cannot)' % (
                        f if len(f) < 200 else f[:200] + '...', ' with %s' % (repr(vars_)[:160],) if vars_ else '', shown,
                        float(want) if abs(want) < 10 ** 308 else '%d-digit number %s...' % (len(str(abs(want.numerator))), str(want.numerator)[:12])),
                        'the exact statistic', shown)
        return None


class AggWholeFloats(WholeFloats):
    name = 'c11.whole_floats'
    VARS = {'arr': [3, [1, 2]]}
    TEMPLATES = [
        ('LARGE({{5,6,7,8}},{0})', [(1,), (3,), (4,), (5,), (0,)]),
        ('LARGE(arr,{0})', [(1,), (2,)]),
        ('SUM({0},{1})', [(2, 3)]),
    ]


NEEDS_ZYGOTE = True


class StatSiblings(Siblings):
    name = 'c11.siblings'
    GROUPS = [
        (['SUM({0})', 'PRODUCT({0})', 'AVERAGE({0})', 'MIN({0})', 'MAX({0})', 'COUNT({0})', 'MEDIAN({0})', 'MODE({0})',
          'VAR({0})', 'VARP({0})', 'VAR.S({0})', 'VAR.P({0})', 'STDEV({0})', 'STDEVP({0})', 'STDEV.S({0})', 'STDEV.P({0})',
          'AVEDEV({0})', 'GEOMEAN({0})', 'HARMEAN({0})', 'LARGE({0},1)', 'LARGE({0},2)', 'SLOPE({0},{{1,2,3,4}})',
          'SLOPE({{1,2,3,4}},{0})'],
         [('={3,1,4,1}',), ('={2,7,1,8}',), ('={5,5,2,9}',), ('={1,2,3,4}',), ('={4,3,2,1}',), ('={1.5,2.5,2.5,0.5}',)]),
        (['SUMIF({0},{1})', 'COUNTIF({0},{1})', 'AVERAGEIF({0},{1})', 'SUMIFS({0},{0},{1})', 'AVERAGEIFS({0},{0},{1})',
          'MAXIFS({0},{0},{1})', 'SUMIF({0},{1},{{10,20,30,40}})', 'AVERAGEIF({0},{1},{{10,20,30,40}})'],
         [('={3,1,4,1}', '>1'), ('={3,1,4,1}', 1), ('={3,1,4,1}', '<>1'), ('={3,1,4,1}', '>9'), ('={"ab","b","abc","a"}', 'a*'),
          ('={"ab","b","abc","a"}', '?'), ('={3,1,4,1}', '<=3')]),
        # criteria of different kinds that compare equal in the host language (TRUE, 1, 1.0, "1" / FALSE, 0, 0.0): a table of compiled
        # criteria keyed by equality serves the first of them for all
        (['COUNTIF({0},{1})', 'SUMIF({0},{1},{{10,20,30,40}})', 'AVERAGEIF({0},{1},{{10,20,30,40}})', 'SUMIFS({{10,20,30,40}},{0},{1})',
          'MAXIFS({{10,20,30,40}},{0},{1})', 'AVERAGEIFS({{10,20,30,40}},{0},{1})'],
         [('={1,TRUE,1,"1"}', True), ('={1,TRUE,1,"1"}', 1.0), ('={1,TRUE,1,"1"}', 1), ('={1,TRUE,1,"1"}', '1'), ('={0,FALSE,0,""}', False),
          ('={0,FALSE,0,""}', 0.0), ('={0,FALSE,0,""}', 0)]),
    ]


SUBS = [ExtremeItems(), Definitions(), Regrouping(), Large(), LongLists(), Slope(), CriteriaNumeric(), CriteriaText(), CriteriaBrackets(), CriteriaMixed(), Scale(),
        ErrorItems(), AggWholeFloats(), StatSiblings()]
