# -*- coding: utf-8 -*-
"""C03 - parser isolation, re-entrancy, thread independence (K1 + K2).

K2: two real threads, one parser each, every schedule with <= P preemptions at line granularity
(sched.py); oracle: each thread's outcome equals its solo outcome.
K1: nested evaluation interposed at every callback invocation of an outer evaluation (other
pre-built parser / parser built inside the callback / the same parser), to nesting depth 2; and
binding histories on parser A observed from parser B."""
import itertools
import os

from ..core import Sub, fail, enc
from .. import sched, snapshot

BOUNDS = {
    'quick': 'threads: 8 ordered formula pairs x 2 starting threads, every schedule with <= 1 preemption (all ~300 points '
             'each) and 1 pair with <= 2 preemptions; nested: 10 outer templates x 10 inner formulas x 3 targets x every callback '
             'invocation, depth 1, every PAIR of invocations and ALL invocations at once (sibling nested evaluations), and '
             'depth 2 for 3 inner x 3 targets; bindings: all sequences of <= 2 binding operations on A x '
             '5 probes on B',
    'thorough': 'threads: all 64 ordered pairs x 2 starts with <= 1 preemption, 8 pairs with <= 2 preemptions, 2 pairs (the '
                'two shortest formulas) with <= 3 (a cap of 150 000 executions per shard exists and is reported if hit); nested depth 2 for all inner formulas; binding '
                'sequences of <= 3',
}
ASSUMPTIONS = ['scheduling granularity = source line of hotxlfp code + calls of ply.lex Lexer.input/token/clone; a lost update '
               'inside one source line is outside the model (GIL: bytecode is the atomic step)',
               'two threads on the *same* parser are outside the statement and not explored',
               'solo outcome = outcome of the same formula alone on a fresh parser with the same bindings (the two parsers of an execution carry different bindings)']

TFORMULAS = ['SUM(1,2)+3', '"x"&"y"', '1/0', 'nosuchvar', 'FN(2)*va', 'A1+B2', '1+', 'IF(1<2,MAX(1,5),0)']


def make_parser(env, tag=0):
    """the two parsers of an execution carry DIFFERENT bindings (tag), so that an evaluation reaching the other
    parser's variable, function or listener shows in its outcome"""
    p = env.new_parser()
    p.set_variable('va', 7 + 100 * tag)
    p.set_function('FN', lambda x: x + 1 + 1000 * tag)
    p.on('callCellValue', lambda cell, setter: setter(3 + 10 * tag))
    return p


def solo(env, text, tag=0):
    key = ('solo', text, tag)
    cache = env.__dict__.setdefault('_c03solo', {})
    if key not in cache:
        p = make_parser(env, tag)
        try:
            cache[key] = env.out(p.parse(text))
        except Exception as e:
            cache[key] = ['x', type(e).__name__]
    return cache[key]


class Threads(Sub):
    name = 'c03.threads'
    rule = ('ordered pairs of formulas, one parser and one real thread each, under the cooperative scheduler: every schedule '
            'with at most P preemptions (sharded by the position of the first preemption); each outcome must equal the solo '
            'outcome; non-trivial = schedule with >= 1 preemption')
    min_cases = 100
    min_nontrivial = 100
    MAXPTS = 420

    def pairs(self, tier):
        n = len(TFORMULAS)
        if tier == 'quick':
            P1 = [(0, 1), (1, 0), (0, 2), (3, 4), (4, 5), (5, 6), (6, 7), (2, 2)]
            P2 = [(2, 3)]
            P3 = []
        else:
            P1 = [(i, j) for i in range(n) for j in range(n)]
            P2 = [(i, (i + 3) % n) for i in range(n)]
            # three preemptions on the two shortest formulas (~35 scheduling points each): a shard (= fixed
            # first preemption) holds at most ~2 000 executions
            P3 = [(2, 3), (3, 2)]
        return P1, P2, P3

    def cases(self, tier, unit):
        P1, P2, P3 = self.pairs(tier)
        seen = set()
        for bound, prs in ((3, P3), (2, P2), (1, P1)):
            for (i, j) in prs:
                if (i, j) in seen:
                    continue
                seen.add((i, j))
                for start in (0, 1):
                    yield [i, j, start, bound, -1]
                    for first in range(self.MAXPTS):
                        yield [i, j, start, bound, first]

    def check(self, env, case):
        i, j, start, bound, first = case[:5]
        texts = (TFORMULAS[i], TFORMULAS[j])
        want = [solo(env, t, k) for k, t in enumerate(texts)]
        pkgdir = os.path.join(snapshot.snapshot_dir(), 'hotxlfp')

        def make():
            ps = [make_parser(env, 0), make_parser(env, 1)]
            bodies = [lambda p=ps[0]: p.parse(texts[0]), lambda p=ps[1]: p.parse(texts[1])]
            return bodies, None

        def chk(ex, ctx):
            got = []
            for r in ex.results:
                if r[0] == 'ok':
                    got.append(env.out(r[1]))
                else:
                    got.append(['x', type(r[1]).__name__])
            if got != want:
                sw = [k for k, c in enumerate(ex.taken) if c]
                where = [ex.points[k] for k in sw]
                return fail('threads evaluating %r and %r on two parsers (thread %d first), preempted at decision points %r '
                            '%r: outcomes %r, solo outcomes %r' % (texts[0], texts[1], start, sw, where, got, want), want, got,
                            case=[i, j, start, len(sw), sw[0] if sw else -1, ex.taken])
            return None

        stats = {}
        if len(case) > 5:
            # replay of one recorded schedule (twice: the same schedule must give the same observation)
            outs = []
            for _ in range(2):
                bodies, ctx = make()
                ex = sched.Execution(bodies, case[5], pkgdir, start=start).run()
                outs.append((chk(ex, ctx), ex.points))
            if outs[0][1] != outs[1][1]:
                raise sched.Divergence('the same schedule produced different points on two runs')
            return outs[0][0]
        limit = 150000
        rc = env.__dict__.setdefault('_c03ref', {}).setdefault((i, j, start), {})
        f, choices = sched.explore(make, pkgdir, bound, chk, first=first, start=start, stats=stats, limit=limit, ref_cache=rc)
        n = stats.get('executions', 0)
        env.evals += 2 * n
        env.cov['schedules'] = env.cov.get('schedules', 0) + n
        env.cov['traces_validated_against_impl'] = env.cov.get('traces_validated_against_impl', 0) + n
        env.cov['transitions'] = env.cov.get('transitions', 0) + n * max(1, stats.get('max_points', 0))
        env.cov['scheduling_points_max'] = max(env.cov.get('scheduling_points_max', 0), stats.get('max_points', 0))
        if stats.get('capped'):
            env.cov['capped_shards'] = env.cov.get('capped_shards', 0) + 1
        if first >= 0 and not stats.get('beyond'):
            env.nt(n)
            env.note('P%d' % bound)
            if stats.get("thread_points", 0) < 8:
                return fail('vacuous schedule space: a thread had only %d scheduling points' % stats.get('thread_points', 0))
        elif first < 0:
            env.note('no-preemption')
        else:
            env.note('beyond')
        return f


# --------------------------------------------------------------------------
# the same schedule exploration, but every execution is the FIRST thing a pristine process does
# (lazy initialisation - imports, tables built on first use - races only then)

NEEDS_ZYGOTE = True
COLD_PAIRS = [(0, 7), (4, 5), (7, 4)]


def cold_execution(payload):
    """runs in a pristine grandchild of the zygote"""
    from ..core import Env
    env = Env()
    texts = payload['texts']
    pkgdir = os.path.join(snapshot.snapshot_dir(), 'hotxlfp')
    if payload.get('solo') is not None:
        p = make_parser(env, payload['solo'])
        try:
            return {'out': env.out(p.parse(texts[payload['solo']]))}
        except Exception as e:
            return {'out': ['x', type(e).__name__]}
    ps = [make_parser(env, 0), make_parser(env, 1)]
    bodies = [lambda p=ps[0]: p.parse(texts[0]), lambda p=ps[1]: p.parse(texts[1])]
    ex = sched.Execution(bodies, payload['choices'], pkgdir, start=payload['start']).run()
    outs = []
    for r in ex.results:
        outs.append(env.out(r[1]) if r[0] == 'ok' else ['x', type(r[1]).__name__])
    return {'out': outs, 'ntaken': len(ex.taken), 'points': [list(x) for x in ex.points[:len(payload['choices']) + 1]],
            'thread_points': min(ex.total_points)}


class ThreadsCold(Sub):
    name = 'c03.threads_cold'
    rule = ('3 formula pairs x 2 starting threads: every schedule with <= 1 preemption among the first 600 decision points, each '
            'execution run as the first evaluations of a PRISTINE process (fork server), so that one-time initialisation '
            'happens under the scheduler; outcomes must equal the solo outcomes of pristine processes; non-trivial = '
            'schedule with a preemption')
    min_cases = 100
    min_nontrivial = 100
    MAXPTS = 600

    def cases(self, tier, unit):
        for (i, j) in COLD_PAIRS:
            for start in (0, 1):
                for first in range(-1, self.MAXPTS):
                    yield [i, j, start, first]

    def check(self, env, case):
        from .. import zygote
        i, j, start, first = case
        texts = [TFORMULAS[i], TFORMULAS[j]]
        cache = env.__dict__.setdefault('_c03cold', {})
        if (i, j) not in cache:
            cache[(i, j)] = [zygote.call('hxverif.props.c03', 'cold_execution', {'texts': texts, 'solo': k})['out']
                             for k in (0, 1)]
        want = cache[(i, j)]
        choices = [] if first < 0 else [0] * first + [1]
        res = zygote.call('hxverif.props.c03', 'cold_execution', {'texts': texts, 'choices': choices, 'start': start})
        env.evals += 4
        if first >= 0 and res['ntaken'] <= first:
            env.note('beyond')
            return None
        env.cov['schedules'] = env.cov.get('schedules', 0) + 1
        env.cov['traces_validated_against_impl'] = env.cov.get('traces_validated_against_impl', 0) + 1
        if first >= 0:
            env.nt()
        env.note('cold')
        if res['out'] != want:
            return fail('in a fresh process, threads evaluating %r and %r on two parsers (thread %d first)%s: outcomes %r, '
                        'solo outcomes (fresh process each) %r' % (
                            texts[0], texts[1], start,
                            '' if first < 0 else ', preempted at decision point %d %r' % (first, res['points'][-1:]),
                            res['out'], want), want, res['out'])
        return None


# --------------------------------------------------------------------------
# nested (sequential) evaluation

OUTER = ['FN(1)+10', '10+FN(1)*3', 'SUM(FN(1),5)&"z"', 'va+A1', 'IF(FN(1)>1,A1,va)', 'SUM(A1:B2)+FN(2)', 'FN(FN(3))-B7',
         'FN(1)+FN(2)+10', 'A1+B2+va+1', 'SUM(FN(1),FN(2),4)&"t"', 'FN(1)+va*2', 'A1&va&FN(2)&va&B2']
INNER = ['1+1', '"a"&"b"', '1/0', 'nosuch', '1+', 'SUM(1,2,3)*2', 'FN(5)+va', 'A1', '#N/A', '{1,2}', 'va+nosuch', 'va*A1+(',
         'va&A1&#REF!']
TARGETS = ('other-prebuilt', 'other-fresh', 'same', 'same-rebound')


class Nested(Sub):
    name = 'c03.nested'
    rule = ('outer formula x inner formula x target parser (pre-built other / built inside the callback / the same parser / the same parser with a variable rebound around the nested evaluation) x '
            'every callback invocation of the outer evaluation as the interposition point, depth 1 and 2: outer and inner '
            'outcomes equal their solo outcomes; non-trivial = interposition actually happened')
    min_cases = 300
    min_nontrivial = 200
    min_classes = 3

    def cases(self, tier, unit):
        for o in range(len(OUTER)):
            for i in range(len(INNER)):
                for t in range(4):
                    for site in range(10):
                        yield [o, i, t, site, None]
        # several sibling nested evaluations inside ONE outer evaluation: at every callback invocation ('all'),
        # and at every pair of invocations
        for o in range(len(OUTER)):
            for i in (0, 2, 5, 6, 10, 11):
                for t in range(4):
                    yield [o, i, t, 'all', None]
                    for s1 in range(6):
                        for s2 in range(s1 + 1, 7):
                            yield [o, i, t, [s1, s2], None]
        inner2 = (0, 3, 6) if tier == 'quick' else range(len(INNER))
        for o in (0, 3, 6):
            for i in inner2:
                for t in range(3):
                    for t2 in range(3):
                        for site in (0, 1, 2):
                            yield [o, 6, t, site, [i, t2]]

    def build(self, env, hook, tag=0):
        """every parser of a case carries DIFFERENT bindings (tag): an evaluation that picks up another parser's
        variable, function or listener gives a different value, not the same one by coincidence"""
        p = env.new_parser()
        p.set_variable('va', 7 + 100 * tag)

        def fn(x):
            hook('fn')
            return x + 1 + 1000 * tag
        p.set_function('FN', fn)
        p.on('callCellValue', lambda cell, setter: (hook('cell'), setter(3 + 10 * tag)))
        p.on('callRangeValue', lambda s, e, setter: (hook('range'), setter([[1 + 10 * tag, 2], [3, 4]])))
        p.on('callVariable', lambda name, setter: hook('var'))
        p.on('callFunction', lambda name, args, setter: hook('callFunction'))
        return p

    def check(self, env, case):
        o, i, t, site, deeper = case
        outer_text, inner_text = OUTER[o], INNER[i]
        nohook = lambda kind: None
        want_outer = env.out(self.build(env, nohook).parse(outer_text))
        TAG = {'same': 0, 'same-rebound': 0, 'other-prebuilt': 1, 'other-fresh': 3}
        ref = self.build(env, nohook, TAG[TARGETS[t]])
        if TARGETS[t] == 'same-rebound':
            ref.set_variable('va', 999)
        want_inner = env.out(ref.parse(inner_text))
        st = {'n': 0, 'level': 0, 'inner': None, 'fired': False, 'fired2': False, 'third': None, 'q': None,
              'count': 0, 'bad_inner': None}
        sites = None if site == 'all' else (site if isinstance(site, list) else [site])

        def mk(tag):
            """a parser whose callbacks report to the controller together with the parser itself"""
            cell = {}
            p = self.build(env, lambda kind: ctl(cell['p'], kind), tag)
            cell['p'] = p
            return p

        def ctl(me, kind):
            if me is outer and st['level'] == 0:
                n = st['n']
                st['n'] += 1
                if sites is None or n in sites:
                    st['fired'] = True
                    st['count'] += 1
                    target = TARGETS[t]
                    q = prebuilt if target == 'other-prebuilt' else (mk(3) if target == 'other-fresh' else outer)
                    st['q'] = q
                    st['level'] = 1
                    if target == 'same-rebound':
                        # the callback binds a variable for the nested evaluation and puts the old value back afterwards
                        # (a "current record" / loop variable): the rest of the outer formula must see the old value
                        outer.set_variable('va', 999)
                    try:
                        got = env.out(q.parse(inner_text))
                    finally:
                        st['level'] = 0
                        if target == 'same-rebound':
                            outer.set_variable('va', 7)
                    if st['inner'] is None or got != want_inner:
                        st['inner'] = got
                return
            if st['level'] == 1 and me is st['q'] and deeper is not None and not st['fired2']:
                st['fired2'] = True
                tgt = TARGETS[deeper[1]]
                q2 = third if tgt == 'other-prebuilt' else (mk(4) if tgt == 'other-fresh' else st['q'])
                st['tag3'] = 2 if tgt == 'other-prebuilt' else (4 if tgt == 'other-fresh' else TAG[TARGETS[t]])
                st['level'] = 2
                try:
                    st['third'] = env.out(q2.parse(INNER[deeper[0]]))
                finally:
                    st['level'] = 1

        prebuilt = mk(1)
        third = mk(2)
        outer = mk(0)
        env.evals += 4
        try:
            got_outer = env.out(outer.parse(outer_text))
        except Exception as e:
            got_outer = ['x', type(e).__name__]
        if not st['fired']:
            env.note('site beyond the template')
            return None
        env.nt()
        env.note(TARGETS[t] + ('-d2' if st['fired2'] else '') + ('-x%d' % min(st['count'], 3) if st['count'] > 1 else ''))
        desc = 'outer %r, at callback invocation(s) %s evaluate %r on %s' % (outer_text, site, inner_text, TARGETS[t])
        if st['fired2']:
            desc += ', whose first callback evaluates %r on %s' % (INNER[deeper[0]], TARGETS[deeper[1]])
        if st['inner'] != want_inner:
            return fail('%s: inner outcome %r, solo %r' % (desc, st['inner'], want_inner), want_inner, st['inner'])
        if got_outer != want_outer:
            return fail('%s: outer outcome %r, solo %r' % (desc, got_outer, want_outer), want_outer, got_outer)
        if st['fired2']:
            want3 = env.out(self.build(env, nohook, st['tag3']).parse(INNER[deeper[0]]))
            if st['third'] != want3:
                return fail('%s: third-level outcome %r, solo %r' % (desc, st['third'], want3), want3, st['third'])
        return None


# --------------------------------------------------------------------------
# a sheet: the cell listener evaluates the formula of the requested cell on the SAME parser (the
# ordinary way a host resolves references), recursively

SHEET_A = ['5', '0', '""', '2.5', 'FALSE', '"txt"', '1/0', '', 'IF(1>3,,"low")', 'IF(TRUE,,1)']
SHEET_B = ['A1', 'A1+1', 'IF(A1>3,,"low")', 'IF(ISBLANK(A1),0,)', 'A1&"|"', 'SUM(A1:A1)', 'IFERROR(A1,)', '7', 'nosuch+A1',
           'ISBLANK(A1)']
SHEET_C = ['B1', 'A1', 'B1&A1', 'IF(B1,"y","n")', 'SUM(A1:B1)', 'IF(A1=B1,,A1)', 'B1+0']
SHEET_TOP = ['C1', 'ISBLANK(C1)&ISNUMBER(C1)&ISTEXT(C1)', 'C1+B1', 'B1&"/"&C1', 'A1&C1&B1&A1', 'SUM(A1:C1)', 'IF(ISERROR(C1),A1,C1)',
             'C1=A1', 'IFERROR(B1+C1,A1)']


class Sheet(Sub):
    name = 'c03.sheet'
    rule = ('every sheet A1 x B1 x C1 over pools of 10 x 10 x 7 formulas (numbers, 0, "", FALSE, blanks, errors, references '
            'to the cells before, a 1-cell or 2/3-cell range) x 9 top formulas: the cell and range listeners resolve a '
            'reference by evaluating that cell\'s formula on the SAME parser, recursively (nested evaluation inside a '
            'listener, to depth 3); the outcome must equal the bottom-up evaluation in which every cell is computed on a '
            'parser of its own and handed on as a constant; non-trivial = all')
    min_cases = 500
    min_nontrivial = 500
    min_classes = 4

    def cases(self, tier, unit):
        for a in range(len(SHEET_A)):
            for b in range(len(SHEET_B)):
                for c in range(len(SHEET_C)):
                    yield [a, b, c]

    @staticmethod
    def value_of(r):
        """what a host stores for a cell: the result, or the error object when the formula failed"""
        if isinstance(r, dict) and r.get('error') is not None:
            return ('err', r['error'])
        if isinstance(r, dict):
            return ('val', r['result'])
        return ('err', '#ERROR!')

    def check(self, env, case):
        a, b, c = case
        formulas = {'A1': SHEET_A[a], 'B1': SHEET_B[b], 'C1': SHEET_C[c]}
        errmod = env.err
        env.nt()

        def to_host(v):
            if v[0] == 'err':
                return env.dec({'$err': v[1]})
            return v[1]

        # bottom-up reference: a parser per cell, lower cells as constants
        consts = {}
        for label in ('A1', 'B1', 'C1'):
            consts[label] = self.value_of(self.eval_with(env, formulas[label], consts, to_host))
        out = []
        for top in SHEET_TOP:
            want = env.out(self.eval_with(env, top, consts, to_host))
            # recursive host on ONE parser
            p = env.new_parser()
            depth = {'n': 0}

            def resolve(label):
                f = formulas.get(label)
                if f is None:
                    return None
                depth['n'] += 1
                try:
                    if depth['n'] > 6:
                        return None
                    return to_host(self.value_of(p.parse(f)))
                finally:
                    depth['n'] -= 1

            def on_cell(cell, setter):
                setter(resolve(cell.label.replace('$', '')))

            def on_range(s_, e_, setter):
                row = []
                for ci in range(s_.col.index, e_.col.index + 1):
                    row.append(resolve('ABCDEFGH'[ci] + '1'))
                setter([row])
            p.on('callCellValue', on_cell)
            p.on('callRangeValue', on_range)
            env.evals += 1
            try:
                got = env.out(p.parse(top))
            except Exception as e:
                got = ['x', type(e).__name__]
            env.note('C1 is %s' % ('an error' if consts['C1'][0] == 'err' else type(consts['C1'][1]).__name__))
            if got != want:
                out.append(fail('sheet A1=%r, B1=%r, C1=%r: %r evaluated with listeners that resolve references by evaluating the '
                                'referenced cell on the same parser gives %r; bottom-up (every cell on a parser of its own) '
                                'gives %r' % (formulas['A1'], formulas['B1'], formulas['C1'], top, got, want), want, got))
                break
        return out

    def eval_with(self, env, formula, consts, to_host):
        p = env.new_parser()

        def on_cell(cell, setter):
            v = consts.get(cell.label.replace('$', ''))
            setter(None if v is None else to_host(v))

        def on_range(s_, e_, setter):
            row = []
            for ci in range(s_.col.index, e_.col.index + 1):
                v = consts.get('ABCDEFGH'[ci] + '1')
                row.append(None if v is None else to_host(v))
            setter([row])
        p.on('callCellValue', on_cell)
        p.on('callRangeValue', on_range)
        env.evals += 1
        try:
            return p.parse(formula)
        except Exception as e:
            return ('raised', e)


class Chain(Sub):
    name = 'c03.chain'
    rule = ('depth ladder n = 1..80 of re-entrant evaluation on one parser: cells A1 = A2+1, ..., A(n-1) = An+1, An = a constant '
            '(number, text, logical, blank, error) resolved by a cell listener that evaluates the referenced cell on the SAME parser '
            '(n nested evaluations and n nested emits of the same event), with a second, counting listener subscribed after the '
            'first: value of A1, every listener called exactly once per reference at every depth; also the chain through '
            'variables (callVariable) and through a custom function; non-trivial = all')
    min_cases = 100
    min_nontrivial = 100

    def cases(self, tier, unit):
        for n in range(1, 81):      # the interpreter's recursion limit is reached at about 120 nested evaluations
            for kind in ('cell', 'var', 'fn', 'scoped'):
                yield [n, kind]

    def check(self, env, case):
        n, kind = case
        env.nt()
        out = []
        for const_text, step, want in (('7', '+1', 7 + n - 1), ('"t"', '&"x"', 't' + 'x' * (n - 1)), ('TRUE', '', True), ('IF(TRUE,,1)', '', None),
                                       ('1/0', '+1', '#DIV/0!')):
            if kind == 'var' and want is None:
                continue        # a callVariable listener cannot answer "blank": None leaves the name unresolved
            p = env.new_parser()
            counts = {}
            second = []

            if kind == 'scoped':
                # the SAME name at every level: a listener that answers "rate" by evaluating, one scope further out, a
                # formula that mentions "rate" again (scoped definitions, a ledger row built on the previous row)
                level = {'d': 0}

                def scoped(name, setter):
                    if name != 'rate':
                        return
                    level['d'] += 1
                    d = level['d']
                    try:
                        counts[d] = counts.get(d, 0) + 1
                        r = p.parse(const_text if d >= n else 'rate' + step)
                    finally:
                        level['d'] -= 1
                    setter(env.dec({'$err': r['error']}) if r['error'] is not None else r['result'])
                if want is None:
                    continue
                p.on('callVariable', scoped)
                p.on('callVariable', lambda name, s: second.append(level['d'] + 1) if name == 'rate' else None)
                env.evals += n
                try:
                    r = env.out(p.parse('rate' + step))
                except Exception as e:
                    r = ['x', type(e).__name__]
                w2 = want
                if isinstance(want, int) and not isinstance(want, bool):
                    w2 = want + 1
                elif isinstance(want, str) and not want.startswith('#'):
                    w2 = want + 'x'
                exp = ['e', w2] if isinstance(w2, str) and w2.startswith('#') else ['v', w2]
                if r != exp:
                    out.append(fail('the name rate resolved %d scopes deep by a listener that evaluates a formula mentioning rate again on '
                                    'the same parser (innermost = %s): %r, expected %r' % (n, const_text, r, exp), exp, r))
                    break
                if sorted(counts.items()) != [(i, 1) for i in range(1, n + 1)] or sorted(second) != list(range(1, n + 1)):
                    out.append(fail('the name rate resolved %d scopes deep: resolutions per level %r..., second listener saw %d of %d' % (
                        n, sorted(counts.items())[:3], len(second), n), n, len(second)))
                    break
                continue

            def formula(i):
                if i == n:
                    return const_text
                ref = {'cell': 'A%d' % (i + 1), 'var': 'v%s' % ('abcdefghij'[(i + 1) // 100] + 'abcdefghij'[(i + 1) // 10 % 10] + 'abcdefghij'[(i + 1) % 10]),
                       'fn': 'CELL(%d)' % (i + 1)}[kind]
                return ref + step

            def resolve(i):
                counts[i] = counts.get(i, 0) + 1
                r = p.parse(formula(i))
                if r['error'] is not None:
                    return env.dec({'$err': r['error']})
                return r['result']
            if kind == 'cell':
                p.on('callCellValue', lambda c, s: s(resolve(c.row.index + 1)))
                p.on('callCellValue', lambda c, s: second.append(c.row.index + 1))
            elif kind == 'var':
                idx = lambda name: 'abcdefghij'.index(name[1]) * 100 + 'abcdefghij'.index(name[2]) * 10 + 'abcdefghij'.index(name[3])
                mine = lambda name: len(name) == 4 and name[0] == 'v' and all(ch in 'abcdefghij' for ch in name[1:])
                p.on('callVariable', lambda name, s: s(resolve(idx(name))) if mine(name) else None)
                p.on('callVariable', lambda name, s: second.append(idx(name)) if mine(name) else None)
            else:
                p.set_function('CELL', lambda i: resolve(i))
                p.on('callFunction', lambda name, args, s: second.append(args[0]) if name == 'CELL' else None)
            env.evals += n
            try:
                r = env.out(p.parse(formula(1)))
            except Exception as e:
                r = ['x', type(e).__name__]
            exp = ['e', want] if isinstance(want, str) and want.startswith('#') else ['v', want]
            if r != exp:
                out.append(fail('a chain of %d %s references resolved by nested evaluation on one parser (last one = %s): the first gives %r, '
                                'expected %r' % (n, kind, const_text, r, exp), exp, r))
                break
            wantc = dict((i, 1) for i in range(2, n + 1))
            if counts != wantc or sorted(second) != list(range(2, n + 1)):
                out.append(fail('a chain of %d %s references: resolutions per reference %r..., second listener saw %d of %d references' % (
                    n, kind, sorted(counts.items())[:3], len(second), n - 1), n - 1, len(second)))
                break
        return out


# --------------------------------------------------------------------------
# bindings are per instance

BOPS = [['setvar', 'xv', 11], ['setvar', 'TRUE', 'hijack'], ['setfn', 'XF'], ['setfn', 'SUM'], ['oncell'], ['onvar'],
        ['onfn'], ['parse', 'xv+XF(1)+A1'], ['parse', 'nosuch+'], ['once'], ['parse', 'SUM(B2:A1)+SUM($C$3:A2)+C3'],
        ['parse', 'ABS(TRUE)&SUM(TRUE)&MAXA(FALSE)&(1+2)'], ['hosterr']]
PROBES = ['xv', 'XF(1)', 'A1', 'SUM(1,2)', 'TRUE', 'nosuchvar', 'A1:B2', 'IF(TRUE,1,2)', 'B2*2', 'C3-A2', 'SUM(B2:C3)',
          'ABS(1.0)&"|"&SUM(1.0)&"|"&MAXA(2/2)&"|"&(0.0+1)&"|"&(3.0*1)',
          'ISNA(NA())&ERROR.TYPE(1/0)&IFNA(NA(),5)&ISERR(SUM(1,1/0))&IFERROR(MAX(NA()),"t")']


def bindings_case(payload):
    """pristine grandchild: one binding history on parser A, then the probes on parser B"""
    from ..core import Env
    env = Env()
    return Bindings().check_in_process(env, payload['case'], payload['fresh'])


def bindings_fresh(payload):
    """pristine grandchild: the probes on a parser that never had a sibling, in a process where nothing else ran"""
    from ..core import Env
    env = Env()
    lone = new_b(env)
    return [env.out(lone.parse(t)) for t in PROBES]


def own_cell_listener(cell, setter):
    # parser B's own listener: the value identifies the cell that was asked for
    setter(100 * cell.row.index + cell.col.index + 1 + (5000 if len(cell.label) != 2 else 0))


def own_range_listener(s, e, setter):
    setter([[s.row.index, s.col.index, len(s.label)], [e.row.index, e.col.index, len(e.label)]])


def new_b(env):
    b = env.new_parser()
    b.on('callCellValue', own_cell_listener)
    b.on('callRangeValue', own_range_listener)
    return b


class Bindings(Sub):
    name = 'c03.bindings'
    rule = ('every sequence of <= k binding operations (set_variable, set_function incl. shadowing a built-in, listeners on '
            'three events, parses, host-made error values) on parser A, created before or after parser B - or B a copy.deepcopy fork of A taken before the operations: every probe on B equals the probe on a '
            'parser that never had a sibling, A\'s listeners are never invoked by B, and A still sees its own bindings; '
            'non-trivial = all')
    min_cases = 100
    min_nontrivial = 100

    def cases(self, tier, unit):
        k = 2 if tier == 'quick' else 3
        for n in range(1, k + 1):
            for seq in itertools.product(range(len(BOPS)), repeat=n):
                for order in (0, 1, 2):
                    yield [list(seq), order]

    def check(self, env, case):
        # every case runs as the first thing a pristine process does: what parser A did in an EARLIER case must not
        # decide (or mask) what parser B sees in this one
        from .. import zygote
        env.nt()
        env.evals += len(PROBES)
        fresh = getattr(env, '_c03fresh', None)
        if fresh is None:
            fresh = env._c03fresh = zygote.call('hxverif.props.c03', 'bindings_fresh', {})
        r = zygote.call('hxverif.props.c03', 'bindings_case', {'case': case, 'fresh': fresh})
        return r

    def check_in_process(self, env, case, fresh):
        seq, order = case
        calls = []
        if order == 0:
            A = env.new_parser()
            B = new_b(env)
        elif order == 1:
            B = new_b(env)
            A = env.new_parser()
        else:
            # B is a fork: copy.deepcopy of a configured template; what happens to the template afterwards is not B's business
            import copy
            A = new_b(env)
            A.parse('xv+A1')
            B = copy.deepcopy(A)
        for oi in seq:
            op = BOPS[oi]
            if op[0] == 'setvar':
                A.set_variable(op[1], op[2])
            elif op[0] == 'setfn':
                A.set_function(op[1], lambda *a: 99)
            elif op[0] == 'oncell':
                A.on('callCellValue', lambda cell, setter: (calls.append('cell'), setter(5)))
                A.on('callRangeValue', lambda s, e, setter: (calls.append('range'), setter([[5]])))
            elif op[0] == 'onvar':
                A.on('callVariable', lambda name, setter: (calls.append('var'), setter(6)))
            elif op[0] == 'onfn':
                A.on('callFunction', lambda name, args, setter: (calls.append('fn'), setter(7)))
            elif op[0] == 'once':
                A.once('callCellValue', lambda cell, setter: (calls.append('once'), setter(8)))
            elif op[0] == 'parse':
                A.parse(op[1])
            elif op[0] == 'hosterr':
                # the host of parser A answers with error values of its own making (a variable, a function result)
                A.set_variable('xe', env.err.XLError('#N/A'))
                A.set_function('XE', lambda *a: env.err.XLError('#DIV/0!'))
                A.parse('IFNA(xe,1)+XE()')
        del calls[:]
        for t, want in zip(PROBES, fresh):
            got = env.out(B.parse(t))
            if got != want:
                return fail('after %r on parser A, parser B evaluates %r to %r; a parser without sibling gives %r' % (
                    [BOPS[i] for i in seq], t, got, want), want, got)
        if calls:
            return fail('after %r on parser A, evaluating on parser B invoked A\'s listeners: %r' % ([BOPS[i] for i in seq], calls))
        # A still sees its own variable
        if any(BOPS[i][0] == 'setvar' and BOPS[i][1] == 'xv' for i in seq) and not any(BOPS[i][0] == 'onvar' for i in seq):
            got = env.out(A.parse('xv'))
            if got != ['v', 11]:
                return fail('parser A lost its own variable after evaluations on B: %r' % (got,), ['v', 11], got)
        return None


SUBS = [Threads(), ThreadsCold(), Nested(), Sheet(), Chain(), Bindings()]
