# -*- coding: utf-8 -*-
"""C09 - names resolve to what was registered; unknown names are #NAME? (K3 + small K1)."""
import itertools
import os
import re

from ..core import Sub, fail, enc, scale
from .. import snapshot

BOUNDS = {
    'quick': 'every identifier-shaped, not cell-shaped name of length <= 4 over {a,Z,q,_,1} + long-name families (set -> read '
             'back by identity alone and in 3 contexts; unset -> #NAME?); 22 host values of assorted Python types; custom '
             'function call-site patterns with 0..3 call sites; all names of SUPPORTED_FORMULAS.md (resolve, lex as one '
             'function token, shadowed by a custom function); TRUE/FALSE/NULL; unknown function names (every shape of '
             'length <= 3 over {A,b,1,_,.} not in the registry, the 332 "not yet supported" names, A1-shaped, dotted) in 12 '
             'positions; unknown variables in 12 positions',
    'thorough': 'same with names of length <= 5 over the 5-character alphabet and unknown names x all positions',
}
ASSUMPTIONS = ['error objects and None as variable values are not demanded to read back (None is the blank)',
               'case variants of documented names (sum() are not treated as unknown names',
               'an unknown call under a trapping function (IFERROR) is not checked',
               'identifier-shaped = [A-Za-z_][A-Za-z0-9_]* ; cell-shaped = letters followed by digits only']

IDENT = re.compile(r'[A-Za-z_][A-Za-z0-9_]*\Z')
CELLISH = re.compile(r'[A-Za-z]+[0-9]+\Z')
PREDEF = ('TRUE', 'FALSE', 'NULL')


def supported_lists():
    path = os.path.join(snapshot.snapshot_dir(), 'SUPPORTED_FORMULAS.md')
    sup, unsup, cur = [], [], None
    with open(path, encoding='utf-8') as f:
        for line in f:
            line = line.strip()
            if line.startswith('# Supported'):
                cur = sup
            elif line.startswith('# Not Yet'):
                cur = unsup
            elif line.startswith('* ') and cur is not None:
                cur.append(line[2:].strip())
    return sup, unsup


class Sentinel(object):
    def __repr__(self):
        return '<sentinel>'


class Names(Sub):
    name = 'c09.names'
    rule = ('every identifier-shaped name of the bound that is not cell-shaped: unset -> #NAME?; set to a fresh object -> the '
            'formula consisting of the name returns that object (identity); set to 41 -> name+1, SUM(name,1), -name see 41; '
            'non-trivial = name with a digit or underscore')
    min_cases = 400
    min_nontrivial = 100
    ALPHA = ('a', 'Z', 'q', '_', '1')

    def cases(self, tier, unit):
        maxlen = 4 if tier == 'quick' else 5
        for n in range(1, maxlen + 1):
            for t in itertools.product(self.ALPHA, repeat=n):
                s = ''.join(t)
                if IDENT.match(s) and not CELLISH.match(s) and s not in PREDEF:
                    yield s
        for s in ('x' * 50, 'name_with_underscores', 'CamelCaseName', 'v' + 'ab' * 100, 'Total_2019_q', 'rate_', '__', 'X',
                  'trueish', 'TRUEX', 'nullable', 'e', 'pi', 'sum', 'SUMX', 'true', 'True', 'tRUE', 'false', 'False',
                  'null', 'Null', 'nULL'):
            yield s

    def check(self, env, case):
        name = case
        if any(ch.isdigit() or ch == '_' for ch in name):
            env.nt()
        out = env.evo(name)
        if out != ['e', '#NAME?']:
            return fail('unset variable %r evaluates to %r, expected #NAME?' % (name, out), ['e', '#NAME?'], out)
        obj = Sentinel()
        r = env.ev(name, vars={name: obj})
        if not (isinstance(r, dict) and r.get('error') is None and r.get('result') is obj):
            return fail('variable %r set to an object; the formula %r returns %r instead of that object' % (
                name, name, env.out(r)), 'the object', env.out(r))
        for f, want in (('%s+1', 42), ('SUM(%s,1)', 42), ('-%s', -41), ('(%s)', 41)):
            out = env.evo(f % name, vars={name: 41})
            if out != ['v', want]:
                return fail('with %s = 41, %r evaluates to %r, expected %r' % (name, f % name, out, want), want, out)
        return None


def host_values():
    import datetime
    import decimal
    import fractions

    class K(object):
        pass
    return [('object', object()), ('dict', {'a': 1}), ('empty dict', {}), ('tuple', (1, 2)), ('bytes', b'xy'),
            ('lambda', lambda: 0), ('nan', float('nan')), ('inf', float('inf')), ('bigint', 10 ** 30),
            ('fraction', fractions.Fraction(1, 3)), ('decimal', decimal.Decimal('1.10')), ('class', K), ('instance', K()),
            ('zero', 0), ('zero float', 0.0), ('false', False), ('empty text', ''), ('empty list', []),
            ('list', [1, [2, 3]]), ('text', 'NOSUCH(1)'), ('date', datetime.date(2020, 1, 2)),
            ('datetime', datetime.datetime(2020, 1, 2, 3, 4, 5)), ('set', frozenset([1])), ('complex', 1 + 2j)]


class Values(Sub):
    name = 'c09.values'
    rule = ('a variable bound to each of 24 host values of assorted Python types (falsy ones included) reads back as exactly '
            'that object; non-trivial = all')
    min_cases = 20
    min_nontrivial = 20

    def cases(self, tier, unit):
        for i in range(len(host_values())):
            yield i

    def check(self, env, case):
        label, v = host_values()[case]
        env.nt()
        for name in ('hv', 'Some_Name'):
            r = env.ev(name, vars={name: v})
            if not (isinstance(r, dict) and set(r) == {'result', 'error'} and r['error'] is None and r['result'] is v):
                return fail('variable %s bound to %s reads back as %r' % (name, label, env.out(r)), label, env.out(r))
        return None


# call-site patterns: (formula, reference evaluator is run on the log)
PATTERNS = [
    'FN()', 'FN(1)', 'FN(1,2,3)', 'FN("a",TRUE)', 'FN(1+2,SUM(3,4))', 'FN(1)+FN(2)', 'FN(1)*FN(2)-FN(3)',
    'FN(FN(1))', 'FN(FN(1),FN(2))', 'FN(FN(FN(1)))', 'SUM(FN(1),FN(2),FN(3))', 'FN(1)&FN(2)', 'IF(FN(1)>0,FN(2),FN(3))',
    '-FN(4)', 'FN({1,2})', 'FN(va)', 'FN(A1)', 'FN(1,,3)', '{1,2}', 'FN(1)=FN(1)', 'GN(FN(1))+FN(GN(2))',
]


class Custom(Sub):
    name = 'c09.custom'
    rule = ('call-site patterns with 0..3 sites of a recording custom function, nested and sequential: one log entry per call '
            'site, arguments evaluated and in order, return value used; a custom function shadows a built-in of the same '
            'name; non-trivial = pattern with >= 2 call sites')
    min_cases = 20
    min_nontrivial = 8

    def cases(self, tier, unit):
        for i in range(len(PATTERNS)):
            for shadow in (0, 1, 2, 3, 4, 5):
                yield [i, shadow]

    def check(self, env, case):
        i, shadow = case
        text = PATTERNS[i]
        # 1: MAX and ABS are built-ins, the custom ones must win; 2, 3: other identifier-shaped names
        fname = ('SUMSQ', 'MAX', '_SQ', 'f_1.x', 'max', 'Fq')[shadow]
        gname = ('GN', 'ABS', 'G_', '__g', 'abs', 'Gq')[shadow]
        text = text.replace('GN(', gname + '(').replace('FN(', fname + '(')
        log = []

        def fn(*args):
            log.append(['F', enc(list(args))])
            n = len(log)
            return 100 * n + sum(a for a in args if isinstance(a, (int, float)) and not isinstance(a, bool))

        def gn(*args):
            log.append(['G', enc(list(args))])
            return 7
        if shadow == 5:
            # callables that are FALSY objects (an empty dict-based memoiser, a lazily filled table with __len__)
            class Table(dict):
                def __init__(self, f):
                    dict.__init__(self)
                    self.f = f

                def __call__(self, *a):
                    return self.f(*a)
            fn, gn = Table(fn), Table(gn)
        if shadow == 4:
            # 4: lower-case spellings of built-in names are names of their own: the built-ins stay what they are
            chk = env.evo('MAX(1,5)&"|"&ABS(0-3)', funcs={fname: fn, gname: gn})
            del log[:]
            if chk != ['v', '5|3']:
                return fail('with custom functions registered as %r and %r the built-ins MAX(1,5)&"|"&ABS(0-3) give %r' % (fname, gname, chk), '5|3', chk)
        out = env.evo(text, vars={'va': 5}, funcs={fname: fn, gname: gn}, cells={'A1': 9})
        if text.count(fname + '(') + text.count(gname + '(') >= 2:
            env.nt()
        # reference: replay the formula structure by hand-written expectations
        exp = EXPECT[PATTERNS[i]]
        want_log, want_val = exp
        if log != want_log:
            return fail('%r: call log %r, expected %r (one entry per call site, evaluated arguments in order)' % (
                text, log, want_log), want_log, log)
        if out != ['v', want_val]:
            return fail('%r evaluates to %r, expected %r (return values of the custom function used)' % (text, out, want_val),
                        want_val, out)
        return None


def _f(n, *args):
    return 100 * n + sum(a for a in args if isinstance(a, (int, float)) and not isinstance(a, bool))


EXPECT = {
    'FN()': ([['F', []]], 100),
    'FN(1)': ([['F', [1]]], 101),
    'FN(1,2,3)': ([['F', [1, 2, 3]]], 106),
    'FN("a",TRUE)': ([['F', ['a', True]]], 100),
    'FN(1+2,SUM(3,4))': ([['F', [3, 7]]], 110),
    'FN(1)+FN(2)': ([['F', [1]], ['F', [2]]], 101 + 202),
    'FN(1)*FN(2)-FN(3)': ([['F', [1]], ['F', [2]], ['F', [3]]], 101 * 202 - 303),
    'FN(FN(1))': ([['F', [1]], ['F', [101]]], 200 + 101),
    'FN(FN(1),FN(2))': ([['F', [1]], ['F', [2]], ['F', [101, 202]]], 300 + 303),
    'FN(FN(FN(1)))': ([['F', [1]], ['F', [101]], ['F', [301]]], 300 + 301),
    'SUM(FN(1),FN(2),FN(3))': ([['F', [1]], ['F', [2]], ['F', [3]]], 101 + 202 + 303),
    'FN(1)&FN(2)': ([['F', [1]], ['F', [2]]], '101202'),
    'IF(FN(1)>0,FN(2),FN(3))': ([['F', [1]], ['F', [2]], ['F', [3]]], 202),
    '-FN(4)': ([['F', [4]]], -104),
    'FN({1,2})': ([['F', [[1, 2]]]], 100),
    'FN(va)': ([['F', [5]]], 105),
    'FN(A1)': ([['F', [9]]], 109),
    'FN(1,,3)': ([['F', [1, None, 3]]], 104),
    '{1,2}': ([], [1, 2]),
    'FN({5})': ([['F', [[5]]]], 100),
    'FN(1)=FN(1)': ([['F', [1]], ['F', [1]]], False),
    'GN(FN(1))+FN(GN(2))': ([['F', [1]], ['G', [101]], ['G', [2]], ['F', [7]]], 7 + 407),
}


class StrictArgs(Sub):
    name = 'c09.strict_args'
    rule = ('a custom function that REJECTS what it is given (raises, or returns an error value, for a list argument) x the '
            'argument as a one-item literal array, a one-cell range, a one-item host list, a 2-item array, a scalar x bare / '
            'under IFERROR / next to another call: it is called exactly once per call site with the evaluated argument, and its '
            'error is the call\'s value - no second attempt with the argument re-shaped; non-trivial = all')
    min_cases = 10
    min_nontrivial = 10

    def cases(self, tier, unit):
        for how in ('raises', 'returns'):
            for ai in range(5):
                for ctx in range(3):
                    yield [how, ai, ctx]

    def check(self, env, case):
        how, ai, ctx = case
        env.nt()
        log = []
        E = env.err

        def chk(x):
            log.append(enc(x))
            if isinstance(x, list):
                if how == 'raises':
                    raise ValueError('one value, please')
                return E.XLError('#VALUE!')
            return x
        arg, want_arg = [('{5}', [5]), ('B7:B7', [[5]]), ('xone', [5]), ('{5,6}', [5, 6]), ('5', 5)][ai]
        text = ['CHK(%s)', 'IFERROR(CHK(%s),"rejected")', 'CHK(1)+CHK(%s)'][ctx] % arg
        out = env.evo(text, vars={'xone': [5]}, funcs={'CHK': chk}, cells={'B7:B7': [[5]]})
        want_log = ([1] if ctx == 2 else []) + [want_arg]
        if log != want_log:
            return fail('%r: the custom function was called with %r, expected %r (once per call site, the evaluated arguments)' % (
                text, log, want_log), want_log, log)
        is_list = isinstance(want_arg, list)
        if ctx == 1:
            ok = out == (['v', 'rejected'] if is_list else ['v', 5])
        elif ctx == 2:
            ok = (out[0] == 'e') if is_list else out == ['v', 6]
        else:
            ok = (out[0] == 'e') if is_list else out == ['v', 5]
        if not ok:
            return fail('%r where the custom function %s for a list: outcome %r' % (text, how + (' an error' if how == 'returns' else ''), out), None, out)
        return None


class Dotted(Sub):
    name = 'c09.dotted'
    rule = ('dotted names are names: every non-empty subset of {va, va.b, va.b.c, vb.va, va.price} registered with distinct values '
            '(va also as a dict / a list holding a "price" / "b" entry): each registered name reads exactly its own value, every '
            'unregistered one of the five - and va.nosuch, nosuch.va - is #NAME?, whatever its prefix or suffix holds; 7 dotted names with a '
            'part that alone is shaped like a cell reference (rate.q1, q1.rate, a.b1.c ...) are names too: #NAME? unset, the value set; '
            'non-trivial = subset where a name and its prefix are both involved')
    min_cases = 30
    min_nontrivial = 20
    NAMES = ['va', 'va.b', 'va.b.c', 'vb.va', 'va.price']

    CELLISH = ['rate.q1', 'q1.rate', 'a.b1.c', 'x.A1', 'tax.fy2024', 'AB12.total', 'r1.c1']

    def cases(self, tier, unit):
        for mask in range(1, 32):
            for base in ('num', 'dict', 'list'):
                yield [mask, base]
        for i in range(len(self.CELLISH)):
            yield ['cellish', i]

    def check(self, env, case):
        mask, base = case
        if mask == 'cellish':
            # a dotted name is one name also when one of its parts, taken alone, is shaped like a cell reference
            name = self.CELLISH[base]
            env.nt()
            p = env.new_parser()
            cells = []
            p.on('callCellValue', lambda cell, setter: (cells.append(cell.label), setter(-1)))
            env.evals += 3
            o = env.out(p.parse(name))
            if o != ['e', '#NAME?']:
                return fail('the unregistered dotted name %r evaluates to %r, expected #NAME?' % (name, o), ['e', '#NAME?'], o)
            p.set_variable(name, 41)
            for f, want in ((name, 41), (name + '+1', 42), ('SUM(%s,1)' % name, 42)):
                o = env.out(p.parse(f))
                if o != ['v', want]:
                    return fail('with the variable %r set to 41, %r evaluates to %r, expected %r' % (name, f, o, want), ['v', want], o)
            if cells:
                return fail('the dotted name %r raised cell events %r' % (name, cells), [], cells)
            return None
        reg = [n for i, n in enumerate(self.NAMES) if mask >> i & 1]
        vals = dict((n, 100 + i) for i, n in enumerate(self.NAMES))
        if base == 'dict':
            vals['va'] = {'price': 7, 'b': {'c': 8}, 'nosuch': 9}
        elif base == 'list':
            vals['va'] = ['price', 'b', 5]
        p = env.new_parser()
        for n in reg:
            p.set_variable(n, vals[n])
        if any(n != 'va' and n.startswith('va.') for n in reg) or 'va' in reg:
            env.nt()
        for n in self.NAMES + ['va.nosuch', 'nosuch.va', 'va.b.nosuch']:
            env.evals += 1
            o = env.out(p.parse(n))
            if n in reg:
                want = ['v', enc(vals[n])] if not isinstance(vals[n], dict) else None
                if want is not None and o != want:
                    return fail('with %r registered, %r reads %r, expected its own value %r' % (reg, n, o, vals[n]), want, o)
                if want is None and o[0] != 'v':
                    return fail('with %r registered, %r (a dict) reads %r' % (reg, n, o), 'the dict', o)
            elif o != ['e', '#NAME?']:
                return fail('with only %r registered (va = %r), the unregistered name %r evaluates to %r, expected #NAME?' % (
                    reg, vals['va'] if 'va' in reg else None, n, o), ['e', '#NAME?'], o)
        return None


class Documented(Sub):
    name = 'c09.documented'
    rule = ('every name in the "Supported" section of SUPPORTED_FORMULAS.md: NAME(...) at arities 0..3 is not #NAME? for at '
            'least one arity (it resolves to a built-in), a custom function registered under that name is called instead, '
            'and none of the "Not Yet Supported" names resolves; non-trivial = name with a dot or digit')
    min_cases = 100
    min_nontrivial = 10

    def cases(self, tier, unit):
        sup, unsup = supported_lists()
        for n in sup:
            yield ['sup', n]

    def check(self, env, case):
        _, name = case
        if '.' in name or any(ch.isdigit() for ch in name):
            env.nt()
        outs = []
        for args in ('', '1', '1,2', '1,2,3', '"a"', '{1,2},1'):
            outs.append(env.evo('%s(%s)' % (name, args)))
        if all(o == ['e', '#NAME?'] or o == ['v', None] for o in outs):
            return fail('documented function %s does not resolve: %s(..) at arities 0..3 gives %r' % (name, name, outs),
                        'a built-in', outs)
        called = []

        def shadow(*args):
            called.append(list(args))
            return 'shadow'
        out = env.evo('%s(5,6)' % name, funcs={name: shadow})
        if out != ['v', 'shadow'] or called != [[5, 6]]:
            return fail('custom function registered as %s: %s(5,6) gives %r, calls %r' % (name, name, out, called),
                        ['v', 'shadow'], out)
        out = env.evo('(1+%s(5))&"x"' % name, funcs={name: lambda a: 4})
        if out != ['v', '5x']:
            return fail('custom %s inside an expression: %r' % (name, out), '5x', out)
        return None


class Predefined(Sub):
    name = 'c09.predefined'
    rule = 'TRUE, FALSE and NULL on a fresh parser, alone and in context; non-trivial = all'
    min_cases = 3

    def cases(self, tier, unit):
        for x in ('TRUE', 'FALSE', 'NULL'):
            yield x

    def check(self, env, case):
        env.nt()
        p = env.new_parser()
        env.evals += 1
        r = p.parse(case)
        want = {'TRUE': True, 'FALSE': False, 'NULL': None}[case]
        if r != {'result': want, 'error': None} or (want is not None and r['result'] is not want):
            return fail('%s on a fresh parser gives %r' % (case, r), want, env.out(r))
        ctx = {'TRUE': ('IF(TRUE,1,2)', 1), 'FALSE': ('IF(FALSE,1,2)', 2), 'NULL': ('ISBLANK(NULL)', True)}[case]
        r = p.parse(ctx[0])
        if r != {'result': ctx[1], 'error': None}:
            return fail('%s gives %r' % (ctx[0], r), ctx[1], env.out(r))
        return None


POSITIONS = ['{x}', '{x}+1', '1+{x}', '{x}*2', '2/{x}', '{x}&"a"', '"a"&{x}', '{x}=1', '1<{x}', '-{x}', 'SUM(1,{x})',
             'SUM({x},1)', '{{1,{x}}}', 'IF(TRUE,1,{x})', 'IF(FALSE,{x},2)', 'LEN({x})', '({x})', 'ABS({x})+1']


def hash_pick(v):
    # deterministic 1-in-3 selection for the quick tier
    return sum(ord(c) for c in v) % 3 == 0


def unknown_fn_names(tier):
    sup, unsup = supported_lists()
    supset = set(sup)
    names = []
    alpha = ('A', 'b', '1', '_', '.')
    for n in range(1, 4):
        for t in itertools.product(alpha, repeat=n):
            s = ''.join(t)
            # shapes the lexer documents as function names: letters first, then letters/digits/_/.
            # identifier-shaped names (letter or underscore first), dots allowed inside
            if re.match(r'[A-Za-z_][A-Za-z0-9_.]*\Z', s) and s not in supset:
                names.append(s)
    names += ['NOSUCH', 'A1', 'XFD10', 'Sum', 'sum', 'NO.SUCH', 'SUMX', 'XSUM', 'TRUEX', 'F', 'VERY_LONG_FUNCTION_NAME_' * 3]
    # near misses of documented names: a dot or an underscore inserted, a character doubled or dropped
    for nm in sup:
        variants = set()
        for i in range(1, len(nm)):
            variants.add(nm[:i] + '.' + nm[i:])
            variants.add(nm[:i] + '_' + nm[i:])
        variants.add(nm + nm[-1])
        variants.add(nm.replace('.', ''))
        if len(nm) > 2:
            variants.add(nm[:-1])
        for v in sorted(variants):
            if v not in supset and re.match(r'[A-Za-z][A-Za-z0-9_.]*\Z', v) and (tier == 'thorough' or hash_pick(v)):
                names.append(v)
    return names, unsup


class Unknown(Sub):
    name = 'c09.unknown'
    rule = ('calls to unregistered function names (all shapes of length <= 3 over {A,b,1,_,.}, the documented "not yet '
            'supported" names, cell-shaped and dotted names) with 0..2 arguments, and unset variables, in 18 positions: the '
            'formula evaluates to #NAME?, never to a value or a blank; non-trivial = position other than bare')
    min_cases = 1000
    min_nontrivial = 800

    def cases(self, tier, unit):
        names, unsup = unknown_fn_names(tier)
        for nm in names:
            for pi in range(len(POSITIONS)):
                yield ['fn', nm, pi, 1]
            yield ['fn', nm, 0, 0]
            yield ['fn', nm, 0, 2]
        for k, nm in enumerate(unsup):
            if re.match(r'[A-Za-z][A-Za-z0-9_.]*\Z', nm):
                pis = range(len(POSITIONS)) if tier == 'thorough' else (0, 1 + k % (len(POSITIONS) - 1))
                for pi in pis:
                    yield ['fn', nm, pi, 1]
        # ... and a dotted name whose first part IS set is still another, unset, name
        for nm in ('nosuchvar', 'x', 'Some_Var', 'trueish', 'q_', 'abc', 'vset.nosuch', 'TRUE.x', 'vset.y.z', 'nosuch.vset',
                   '_u', 'vset_'):
            for pi in range(len(POSITIONS)):
                yield ['var', nm, pi, 0]

    def check(self, env, case):
        kind, nm, pi, nargs = case
        if pi:
            env.nt()
        x = nm if kind == 'var' else '%s(%s)' % (nm, ','.join(['1', '"b"'][:nargs]))
        text = POSITIONS[pi].replace('{x}', x).replace('{{', '{').replace('}}', '}')
        out = env.evo(text, vars={'vset': 3}, funcs={'KNOWNFN': lambda *a: 1})
        if out != ['e', '#NAME?']:
            return fail('%r uses the unregistered %s %s; expected #NAME?, got %r' % (
                text, 'function' if kind == 'fn' else 'variable', nm, out), ['e', '#NAME?'], out)
        # ... whatever listeners do: one that raises (the lookup of the name failed in the host, too) must not turn the
        # unknown name into a value or a silent blank - an error of some code is demanded
        if pi < 6 or kind == 'var':
            for exc in (SyntaxError, KeyError):
                p = env.new_parser()
                p.set_variable('vset', 3)
                p.set_function('KNOWNFN', lambda *a: 1)

                def boom(*a, _exc=exc):
                    raise _exc('lookup failed')
                p.on('callVariable' if kind == 'var' else 'callFunction', boom)
                env.evals += 1
                try:
                    o2 = env.out(p.parse(text))
                except Exception as e:
                    o2 = ['x', type(e).__name__]
                if o2[0] != 'e':
                    return fail('%r uses the unregistered %s %s and the %s listener raises %s: expected an error, got %r' % (
                        text, 'function' if kind == 'fn' else 'variable', nm, 'callVariable' if kind == 'var' else 'callFunction',
                        exc.__name__, o2), ['e', 'any code'], o2)
        return None


REBIND_OPS = [['parse', 'FX(2)'], ['parse', 'SUM(1,2)'], ['parse', 'vx+1'], ['setfn', 'FX', 0], ['setfn', 'FX', 1],
              ['setfn', 'SUM', 0], ['setfn', 'SUM', 1], ['setvar', 'vx', 10], ['setvar', 'vx', 20], ['setvar', 'vx', 'SUM'],
              ['parse', 'FX(SUM(vx,1))']]


class Rebind(Sub):
    name = 'c09.rebind'
    rule = ('every history of <= 3 (quick) / 4 (thorough) operations over {parse x 4, set_function(name, body) x 4 incl. '
            'shadowing the built-in SUM, set_variable x 3} on ONE parser, then the probes: each probe sees exactly the '
            'bindings registered last (a name resolved before it was registered or re-registered must not stick); '
            'non-trivial = history that re-registers a name after a parse used it')
    min_cases = 100
    min_nontrivial = 50

    def cases(self, tier, unit):
        depth = 3 if tier == 'quick' else 4
        for n in range(1, depth + 1):
            for h in itertools.product(range(len(REBIND_OPS)), repeat=n):
                yield list(h)

    def check(self, env, case):
        hist = [REBIND_OPS[i] for i in case]
        p = env.new_parser()
        logs = []
        bodies = {0: lambda *a: ('f0', list(a)), 1: lambda *a: ('f1', list(a))}
        cur = {'FX': None, 'SUM': None, 'vx': None}
        used = set()
        rebinding = False
        for op in hist:
            if op[0] == 'parse':
                env.evals += 1
                p.parse(op[1])
                for nm in ('FX', 'SUM', 'vx'):
                    if nm in op[1]:
                        used.add(nm)
            elif op[0] == 'setfn':
                if op[1] in used:
                    rebinding = True
                cur[op[1]] = op[2]
                p.set_function(op[1], bodies[op[2]])
            else:
                if op[1] in used:
                    rebinding = True
                cur['vx'] = op[2]
                p.set_variable('vx', op[2])
        if rebinding:
            env.nt()
        # probes
        env.evals += 3
        out = env.out(p.parse('FX(7)'))
        want = ['e', '#NAME?'] if cur['FX'] is None else ['v', {'$tuple': ['f%d' % cur['FX'], [7]]}]
        if out != want:
            return fail('after %r, FX(7) gives %r, expected %r (the function registered last)' % (hist, out, want), want, out)
        out = env.out(p.parse('SUM(1,2)'))
        want = ['v', 3] if cur['SUM'] is None else ['v', {'$tuple': ['f%d' % cur['SUM'], [1, 2]]}]
        if out != want:
            return fail('after %r, SUM(1,2) gives %r, expected %r' % (hist, out, want), want, out)
        out = env.out(p.parse('vx'))
        want = ['e', '#NAME?'] if cur['vx'] is None else ['v', cur['vx']]
        if out != want:
            return fail('after %r, vx gives %r, expected %r' % (hist, out, want), want, out)
        return None



class NameScale(Sub):
    name = 'c09.scale'
    rule = ('size ladder of the number n of variables and of custom functions registered on one parser: each reads back / is '
            'called with its own value (first, middle, last and every 37th), an unregistered neighbour is #NAME?, re-registering '
            'the middle one is seen, and a second parser sees none of them; non-trivial = all')
    min_cases = 40
    min_nontrivial = 40

    def cases(self, tier, unit):
        for n in scale(tier):
            yield [n]

    @staticmethod
    def nm(prefix, i):
        return prefix + ''.join('abcdefghij'[int(d)] for d in str(i))

    def check(self, env, case):
        n = case[0]
        env.nt()
        p = env.new_parser()
        q = env.new_parser()
        for i in range(n):
            p.set_variable(self.nm('v', i), 1000 + i)
            p.set_function(self.nm('F', i).upper(), (lambda x, _i=i: 10 * _i + x))
        idx = sorted(set([0, n // 2, n - 1] + list(range(0, n, 37))))
        env.evals += 3 * len(idx) + 6
        for i in idx:
            r = env.out(p.parse(self.nm('v', i)))
            if r != ['v', 1000 + i]:
                return fail('%d variables on one parser: %s reads %r, expected %d' % (n, self.nm('v', i), r, 1000 + i), 1000 + i, r)
            r = env.out(p.parse('%s(7)+%s' % (self.nm('F', i).upper(), self.nm('v', i))))
            if r != ['v', 10 * i + 7 + 1000 + i]:
                return fail('%d custom functions on one parser: %s(7)+%s gives %r, expected %d' % (
                    n, self.nm('F', i).upper(), self.nm('v', i), r, 10 * i + 7 + 1000 + i), 10 * i + 7 + 1000 + i, r)
            r = env.out(q.parse(self.nm('v', i)))
            if r != ['e', '#NAME?']:
                return fail('%d variables on parser p: a second parser reads %s as %r, expected #NAME?' % (n, self.nm('v', i), r))
        for text in (self.nm('v', n), self.nm('F', n).upper() + '(1)', self.nm('v', n - 1) + 'x'):
            r = env.out(p.parse(text))
            if r != ['e', '#NAME?']:
                return fail('%d names registered: the unregistered %s gives %r, expected #NAME?' % (n, text, r), '#NAME?', r)
        mid = n // 2
        p.set_variable(self.nm('v', mid), 'again')
        p.set_function(self.nm('F', mid).upper(), lambda x: 'fn again')
        r = env.out(p.parse('%s&"|"&%s(1)' % (self.nm('v', mid), self.nm('F', mid).upper())))
        if r != ['v', 'again|fn again']:
            return fail('%d names registered: after re-registering the middle ones they read %r' % (n, r), 'again|fn again', r)
        return None


SUBS = [Names(), Values(), Custom(), StrictArgs(), Dotted(), Documented(), Predefined(), Unknown(), Rebind(), NameScale()]
