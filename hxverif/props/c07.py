# -*- coding: utf-8 -*-
"""C07 - comparisons form a consistent total order with number < text < logical (K3).

A 43-value pool (numbers incl. floats a few units in the last place apart, dates >= 1 Mar 1900, text, logicals, blank).  For one supply route the
complete relation matrix  rel[a][b][op]  (all ordered pairs of the pool x six operators
through Parser.parse) is computed once per worker process; every law is then read off the matrix:

  pair laws   (all ordered pairs)  all six results are booleans; exactly one of < = > ;
              <= , >= , <> are the derived relations;  a<b  <=>  b>a ;  agreement with the reference key
  triple laws (all ordered triples of the non-blank values, no further evaluation)
              transitivity of < and of =

Reference key (independent of hotxlfp): rank 0 numbers and dates by exact value (date = days since
1899-12-30 + day fraction, a Fraction), rank 1 text by code point, rank 2 logicals FALSE < TRUE; a
blank is 0 against a number/date, "" against text, FALSE against a logical, and equals a blank.

The case is one matrix *row* (first operand fixed), so that the failures of one row are reported
together and every failing pair / triple is individually replayable."""
import datetime
from fractions import Fraction

from ..core import Sub, fail, enc, lit, scale

CMP = ('<', '=', '>', '<=', '>=', '<>')
BASE = datetime.datetime(1899, 12, 30)
MAX_TRIPLES_REPORTED = 4      # per row; the total is given in the message


def D(*a):
    return {'$dt': datetime.datetime(*a).isoformat()}


# ... and floats a few units in the last place apart (0.1+0.2 beside 0.3, the neighbours of 1 and of a date-time serial): they are
# different numbers, so exactly one of < = > holds - an equality 'to 15 digits' beside exact < and > breaks the trichotomy
NUMBERS = [-2.5, -1, 0, 0.5, 1, 2, 10, 43789, 43789.25, 2 ** 53, 2 ** 53 + 1, 10 ** 17, 10 ** 17 + 1,
           0.3, 0.30000000000000004, 1.0000000000000002, 1.0000000000000009, 43789.250000000007]
DATES = [D(1900, 3, 1), D(2000, 2, 29), D(2019, 11, 20), D(2019, 11, 20, 6, 0), D(9999, 12, 31),
         D(2019, 11, 20, 6, 0, 0, 250000), D(2019, 11, 20, 6, 0, 0, 750000)]     # two instants inside one second
TEXTS = ['', '1', '10', '9', '-1', 'a', 'ab', 'b', 'true', 'Apple', 'apple', 'B',
         '2019-11-20', '2019-11-20 06:00:00', '20 November 2019']      # text that spells a date of the pool is still text
POOL = NUMBERS + DATES + TEXTS + [True, False, None]
NONBLANK = [i for i, v in enumerate(POOL) if v is not None]

# delivery-channel and host-type differential (core.Env): of every 3 evaluations that bind variables, one is repeated with the
# values handed in by the cell/range listeners, one with the values returned by custom functions and one with every value an
# instance of a trivial subclass of its type (numpy.float64, IntEnum, rich-text str ... are such); outcomes must agree
CHANNELS = 3

_N, _NB = len(POOL), len(NONBLANK)
_L = len([v for v in POOL if not (isinstance(v, dict) and '$dt' in v)])
BOUNDS = {
    'quick': '%d values (%d numbers incl. negative/fractional, two equal to date serials and adjacent integers above 2^53, %d date(-time)s from '
             '1900-03-01 to 9999-12-31 incl. two instants inside one second, %d texts incl. empty, numeric-looking, mixed-case and three that spell '
             'a date of the pool, TRUE, FALSE, blank) supplied as variables: all %d ordered pairs x 6 operators; all %d ordered triples '
             'of the %d non-blank values on the computed matrix' % (_N, len(NUMBERS), len(DATES), len(TEXTS), _N * _N, _NB ** 3, _NB),
    'thorough': 'as quick, and the same pool supplied as cell values (%d pairs) and as literals (%d literal-able '
                'values, blank = unset cell: %d pairs, %d triples)' % (_N * _N, _L, _L * _L, (_L - 1) ** 3),
}
ASSUMPTIONS = [
    'the reference text order is demanded only for pairs where code-point and case-insensitive orders agree; pairs '
    'such as "Apple"/"apple"/"B" are in the pool for the order-free laws (trichotomy, derived relations, converse, '
    'transitivity), which must hold under either policy',
    'dates are datetime.datetime values on or after 1 March 1900; 1900-03-01 is only compared with numbers far '
    'from its serial, so C13\'s serial of that day does not influence C07',
    'results must be real booleans (TRUE/FALSE), not 1/0',
    'transitivity is demanded for < and for = on non-blank values; blank takes part in the pair laws only',
    'at most %d transitivity failures are listed per matrix row (the message gives the total); every failing '
    'pair is listed' % MAX_TRIPLES_REPORTED,
]


# ---------------------------------------------------------------------------- reference key
def serial(dt):
    td = dt - BASE
    return Fraction(td.days) + Fraction(td.seconds * 10 ** 6 + td.microseconds, 86400 * 10 ** 6)


def key(v):
    if isinstance(v, bool):
        return (2, 1 if v else 0)
    if isinstance(v, (int, float)):
        return (0, Fraction(v))
    if isinstance(v, datetime.datetime):
        return (0, serial(v))
    if isinstance(v, str):
        return (1, [ord(ch) for ch in v])
    raise ValueError(v)


def ref_sign(a, b):
    """-1 / 0 / 1 for a < b / a = b / a > b by the statement's order."""
    if a is None and b is None:
        return 0
    if a is None:
        return -ref_sign(b, a)
    ka = key(a)
    if b is None:
        kb = (ka[0], {0: Fraction(0), 1: [], 2: 0}[ka[0]])
    else:
        kb = key(b)
    return -1 if ka < kb else (1 if ka > kb else 0)


def order_demanded(a, b):
    """Two texts are held to the reference order only where the code-point order and the case-insensitive
    order agree (the statement does not say which of the two 'lexicographically' means); the pair LAWS
    (trichotomy, derived relations, converse, transitivity) are demanded for every pair regardless."""
    if isinstance(a, str) and isinstance(b, str):
        cp = (a > b) - (a < b)
        ci = (a.lower() > b.lower()) - (a.lower() < b.lower())
        return cp == ci
    return True


def kind(v):
    if v is None:
        return 'blank'
    if isinstance(v, bool):
        return 'logical'
    if isinstance(v, (int, float)):
        return 'number'
    if isinstance(v, datetime.datetime):
        return 'date'
    return 'text'


# ---------------------------------------------------------------------------- evaluation
def literal_ok(v):
    return not isinstance(v, datetime.datetime)


def in_route(route, v):
    return route != 'lit' or literal_ok(v)


def compare(env, route, a, b):
    """-> {op: True/False/<other json>} for the six operators"""
    res = {}
    for op in CMP:
        if route == 'var':
            o = env.evo('xa%sxb' % op, vars={'xa': a, 'xb': b})
        elif route == 'cell':
            cells = {}
            if a is not None:
                cells['A1'] = a
            if b is not None:
                cells['B1'] = b
            o = env.evo('A1%sB1' % op, cells=cells)
        else:
            o = env.evo(('B3' if a is None else lit(a)) + op + ('C4' if b is None else lit(b)))
        res[op] = o[1] if (o[0] == 'v' and isinstance(o[1], bool)) else o
    return res


def where(route, a, b):
    if route == 'var':
        return 'xa OP xb with xa=%r, xb=%r' % (a, b)
    if route == 'cell':
        return 'A1 OP B1 with A1=%r, B1=%r' % (a, b)
    return '%s OP %s' % ('B3 (unset)' if a is None else lit(a), 'C4 (unset)' if b is None else lit(b))


def pair_laws(route, a, b, ab, ba):
    """ab, ba: compare() results of (a,b) and (b,a).  -> list of (law, expected, actual) problems"""
    bad = []
    nonbool = dict((op, ab[op]) for op in CMP if not isinstance(ab[op], bool))
    if nonbool:
        return [('every comparison gives TRUE or FALSE', 'booleans', nonbool)]
    lt, eq, gt = ab['<'], ab['='], ab['>']
    if [lt, eq, gt].count(True) != 1:
        bad.append(('exactly one of a<b, a=b, a>b is TRUE', 'exactly one TRUE', {'<': lt, '=': eq, '>': gt}))
    if ab['<='] != (lt or eq):
        bad.append(('a<=b is (a<b or a=b)', lt or eq, ab['<=']))
    if ab['>='] != (gt or eq):
        bad.append(('a>=b is (a>b or a=b)', gt or eq, ab['>=']))
    if ab['<>'] != (not eq):
        bad.append(('a<>b is not(a=b)', not eq, ab['<>']))
    if isinstance(ba['>'], bool) and lt != ba['>']:
        bad.append(('a<b iff b>a', {'a<b': lt, 'b>a': lt}, {'a<b': lt, 'b>a': ba['>']}))
    s = ref_sign(a, b)
    exp = {'<': s < 0, '=': s == 0, '>': s > 0}
    got = {'<': lt, '=': eq, '>': gt}
    if exp != got and order_demanded(a, b):
        bad.append(('order %s vs %s: expected a %s b' % (kind(a), kind(b), '<=>'[s + 1]), exp, got))
    return bad


_MATRIX = {}


def matrix(env, route):
    """rel[i][j] = compare(POOL[i], POOL[j]) for the whole pool, computed once per process."""
    k = (id(env), route)
    m = _MATRIX.get(k)
    if m is None:
        vals = [env.dec(v) for v in POOL]
        m = [[compare(env, route, a, b) if in_route(route, a) and in_route(route, b) else None
              for b in vals] for a in vals]
        _MATRIX.clear()
        _MATRIX[k] = m
    return m


class Order(Sub):
    name = 'c07.order'
    rule = ('one case = one row of the %dx%d relation matrix' % (_N, _N) + ' of a supply route (matrix = every ordered pair x '
            '{<,=,>,<=,>=,<>}, evaluated once per worker): pair laws for all the pairs of the row, transitivity '
            'of < and = for the 1 024 triples that start with the row value; non-trivial = pairs of two different '
            'value kinds (number/date/text/logical/blank) and triples spanning >= 2 kinds')
    min_cases = 26
    min_nontrivial = 8000
    min_classes = 15

    def units(self, tier):
        return ['var'] if tier == 'quick' else ['var', 'cell', 'lit']

    def cases(self, tier, unit):
        for i, v in enumerate(POOL):
            if unit == 'lit' and isinstance(v, dict):
                continue          # dates have no literal form
            yield ['row', unit, i]

    def check(self, env, case):
        if case[0] == 'pair':
            return self.pair(env, case[1], env.dec(case[2]), env.dec(case[3]))
        if case[0] == 'triple':
            return self.triple(env, case[1], [env.dec(x) for x in case[2:5]])
        _, route, i = case
        m = matrix(env, route)
        vals = [env.dec(v) for v in POOL]
        a = vals[i]
        out = []
        for j, b in enumerate(vals):
            if m[i][j] is None:
                continue
            if kind(a) != kind(b):
                env.nt()
            env.note('%s/%s' % (kind(a), kind(b)))
            f = self.pair_fail(route, a, b, m[i][j], m[j][i])
            if f:
                out.append(f)
        if a is None:
            return out
        nbad = 0
        first = []
        for j in NONBLANK:
            if m[i][j] is None:
                continue
            for k in NONBLANK:
                if m[j][k] is None:
                    continue
                if len(set((kind(a), kind(vals[j]), kind(vals[k])))) >= 2:
                    env.nt()
                probs = self.triple_laws(m[i][j], m[j][k], m[i][k])
                if probs:
                    nbad += 1
                    if len(first) < MAX_TRIPLES_REPORTED:
                        first.append((vals[j], vals[k], probs))
        for b, c, probs in first:
            out.append(self.triple_fail(route, a, b, c, probs, nbad))
        return out

    # -- pairs
    def pair_fail(self, route, a, b, ab, ba):
        bad = pair_laws(route, a, b, ab, ba)
        if not bad:
            return None
        law, exp, got = bad[0]
        return fail('%s: %s violated%s; results %s' % (
            where(route, a, b), law, ' (+%d more laws)' % (len(bad) - 1) if len(bad) > 1 else '',
            ' '.join('%s:%s' % (op, short(ab[op])) for op in CMP)),
            exp, got, case=['pair', route, enc(a), enc(b)])

    def pair(self, env, route, a, b):
        return self.pair_fail(route, a, b, compare(env, route, a, b), compare(env, route, b, a))

    # -- triples
    def triple_laws(self, ab, bc, ac):
        probs = []
        if ab['<'] is True and bc['<'] is True and ac['<'] is not True:
            probs.append('a<b and b<c but not a<c')
        if ab['='] is True and bc['='] is True and ac['='] is not True:
            probs.append('a=b and b=c but not a=c')
        return probs

    def triple_fail(self, route, a, b, c, probs, total=None):
        return fail('transitivity violated (%s) for a=%r, b=%r, c=%r supplied as %s%s' % (
            '; '.join(probs), a, b, c, {'var': 'variables', 'cell': 'cells', 'lit': 'literals'}[route],
            '' if total is None else ' [%d failing triples start with this a]' % total),
            'transitive', probs, case=['triple', route, enc(a), enc(b), enc(c)])

    def triple(self, env, route, vals):
        a, b, c = vals
        probs = self.triple_laws(compare(env, route, a, b), compare(env, route, b, c), compare(env, route, a, c))
        return self.triple_fail(route, a, b, c, probs) if probs else None


def short(x):
    if x is True:
        return 'T'
    if x is False:
        return 'F'
    return repr(x)



class CompareScale(Sub):
    name = 'c07.scale'
    rule = ('size ladder n: two texts of n characters differing only in the LAST character (and one a prefix of the other), '
            'integers of n digits (n <= 300) differing by 1, as variables, cells and literals: trichotomy, the derived relations and '
            'the converse, decided by the last character / digit; non-trivial = all')
    min_cases = 40
    min_nontrivial = 40

    def cases(self, tier, unit):
        for n in scale(tier):
            yield [n]

    def check(self, env, case):
        n = case[0]
        env.nt()
        base = ''.join('abcdefghij'[i % 10] for i in range(n - 1))
        # (mixed case is left out: the text order is demanded only where code-point and case-insensitive order agree)
        pairs = [(base + 'a', base + 'b'), (base + 'y', base + 'z'), (base, base + 'a'), (base + 'a', base + 'a')]
        if n <= 300:
            d = int('7' * n)
            pairs += [(d, d + 1), (-d - 1, -d), (d, d), (d, float(d)) if n <= 15 else (d, d + 2)]
        out = []
        for a, b in pairs:
            if isinstance(a, str):
                ka, kb = a.lower(), b.lower()
            else:
                ka, kb = a, b
            lt, eq = ka < kb, ka == kb
            want = {'<': lt, '=': eq, '>': not lt and not eq, '<=': lt or eq, '>=': not lt, '<>': not eq}
            for route in ('var', 'cell') + (('lit',) if n <= 257 else ()):
                for op in ('<', '=', '>', '<=', '>=', '<>'):
                    for x, y, w in ((a, b, want[op]), (b, a, {'<': want['>'], '>': want['<'], '<=': want['>='], '>=': want['<='], '=': eq, '<>': not eq}[op])):
                        if route == 'var':
                            o = env.evo('xa%sxb' % op, {'xa': x, 'xb': y})
                        elif route == 'cell':
                            o = env.evo('A1%sB2' % op, None, None, {'A1': x, 'B2': y})
                        else:
                            o = env.evo('%s%s%s' % (lit(x), op, lit(y)))
                        if o != ['v', w]:
                            sx = repr(x) if len(repr(x)) < 30 else repr(x)[:12] + '...' + repr(x)[-8:]
                            sy = repr(y) if len(repr(y)) < 30 else repr(y)[:12] + '...' + repr(y)[-8:]
                            out.append(fail('size %d (%s): %s %s %s gives %r, expected %r' % (n, route, sx, op, sy, o, w), w, o))
                            if len(out) >= 3:
                                return out
        return out


class OneCell(Sub):
    name = 'c07.one_cell'
    rule = ('a one-cell range ([[v]]) or one-item array ([v]) is its item - as under the arithmetic operators: every ordered pair '
            'over 12 values of all kinds x 6 operators with the left, the right or both operands wrapped gives what the bare '
            'values give (differential against the scalar evaluation of the same parser); non-trivial = all')
    min_cases = 100
    min_nontrivial = 100
    VALS = [-1, 0, 2.5, D(2019, 11, 20), '', '1', 'a', 'B', True, False, None, 43789, {'$err': '#DIV/0!'}, {'$err': '#N/A'}]       # an error in the cell is the outcome

    def cases(self, tier, unit):
        for i in range(len(self.VALS)):
            for j in range(len(self.VALS)):
                yield [i, j]

    def check(self, env, case):
        a, b = env.dec(self.VALS[case[0]]), env.dec(self.VALS[case[1]])
        env.nt()
        for op in CMP:
            f = 'xa%sxb' % op
            base = env.evo(f, vars={'xa': a, 'xb': b})
            for wa, wb, how in (([[a]], b, 'left operand a one-cell range'), (a, [b], 'right operand a one-item array'),
                                ([a], [[b]], 'both operands wrapped')):
                o = env.evo(f, vars={'xa': wa, 'xb': wb})
                if o != base:
                    return fail('%s with xa = %r, xb = %r (%s) gives %r, with the bare values xa = %r, xb = %r it gives %r' % (
                        f, wa, wb, how, o, a, b, base), base, o)
        return None


SUBS = [Order(), OneCell(), CompareScale()]
