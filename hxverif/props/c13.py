# -*- coding: utf-8 -*-
"""C13 - date serial numbers (K3, full calendar sweep).

Reference model: datetime.date.toordinal().  serial(d) = ordinal(d) - ordinal(1899-12-30)
(+ milliseconds of the day / 86 400 000, computed as an exact Fraction) is demanded for every
instant from 1900-03-01T00:00:00 on.  Before 1 Mar 1900 the statement only demands that
date -> serial -> date is the identity and that serials increase strictly with time, so there
nothing else is demanded (N / DAYS / subtraction / comparisons are checked from 1 Mar 1900 on).

Everything is observed through Parser.parse: dates reach a formula as datetime values bound to
variables (xd, xp, xe) and, for a subset, as DATE(y,m,d) literals.  A case is a block (one
calendar year, one hour of a chosen day, one chosen second); every failure carries a narrow
['one', ...] case that check() accepts, so each failing date is replayable on its own."""
import datetime
import re
from fractions import Fraction

from ..core import Sub, fail, isnum, enc, local_timezone, ZONES

D = datetime.date
DT = datetime.datetime

EPOCH_ORD = D(1899, 12, 30).toordinal()
FIRST_ORD = D(1900, 1, 1).toordinal()
MAR1_ORD = D(1900, 3, 1).toordinal()
LAST_ORD = D(9999, 12, 31).toordinal()
MAR1_DT = DT(1900, 3, 1)
FIRST_DT = DT(1900, 1, 1)
HALF_MS_S = 0.0005                     # R2: date-times compare to 0.5 ms
HALF_MS_D = 0.5 / 86400000.0           # the same, in days (5.8e-9)

BOUNDARY_YEARS = (1900, 1901, 1904, 1970, 1999, 2000, 2001, 2038, 2100, 2400, 9998, 9999)
OFFSETS = (1, -1, 7, 30, 365, 36525)
ALLDAY_OFFSETS = (1, -1)

# 40 chosen days: both sides of 1 Mar 1900, first days, leap days, century years, both sides of
# the Unix epoch (the implementation computes in epoch seconds), 2^31 s, last days
INSTANT_DAYS = (
    '1900-01-01', '1900-01-02', '1900-02-27', '1900-02-28', '1900-03-01', '1900-03-02',
    '1900-12-31', '1901-01-01', '1904-02-28', '1904-02-29', '1904-03-01', '1969-12-31',
    '1970-01-01', '1970-01-02', '1999-12-31', '2000-01-01', '2000-02-28', '2000-02-29',
    '2000-03-01', '2001-09-09', '2019-11-20', '2038-01-19', '2096-02-29', '2100-02-28',
    '2100-03-01', '2100-12-31', '2399-12-31', '2400-02-29', '2400-03-01', '3000-06-15',
    '4000-02-29', '5555-05-05', '7000-07-07', '8000-02-29', '9000-01-01', '9996-02-29',
    '9999-01-01', '9999-12-01', '9999-12-30', '9999-12-31')
QUICK_INSTANT_DAYS = ('1900-01-01', '1900-02-28', '1900-03-01', '9999-12-31')

# 24 chosen seconds, every millisecond of each
MILLI_SECONDS = (
    '1900-01-01T00:00:00', '1900-01-01T23:59:59', '1900-02-28T23:59:59', '1900-03-01T00:00:00',
    '1900-03-01T00:00:01', '1900-03-01T12:00:00', '1900-03-01T23:59:59', '1900-03-02T00:00:00',
    '1904-02-29T23:59:59', '1969-12-31T23:59:59', '1970-01-01T00:00:00', '1999-12-31T23:59:59',
    '2000-02-29T12:00:00', '2001-09-09T01:46:40', '2019-11-20T06:30:15', '2038-01-19T03:14:07',
    '2100-02-28T23:59:59', '2400-02-29T00:00:00', '5555-05-05T05:55:55', '9999-01-01T00:00:00',
    '9999-12-31T00:00:00', '9999-12-31T11:59:59', '9999-12-31T23:59:58', '9999-12-31T23:59:59')

assert len(set(INSTANT_DAYS)) == 40 and len(set(MILLI_SECONDS)) == 24 and set(QUICK_INSTANT_DAYS) <= set(INSTANT_DAYS)

# host-type and delivery-channel differential (core.Env): 1 evaluation in 4 that binds variables is repeated in one of the
# three variants (values from the cell listener, from a custom function, as instances of subclasses - a pandas Timestamp is a
# datetime subclass); on top of the cell-listener differential every date-time evaluation already gets in val()
CHANNELS = 12

BOUNDS = {
    'quick': 'days: every day of 12 boundary years (%s) + first and last day of every month of every year '
             '1900..9999 (198 495 days); serials: the reference serials of those days (>= 61); offsets '
             '{1,-1,7,30,365,36525} from each of those days; date-times: every second of 4 chosen days, every '
             'millisecond of 24 chosen seconds' % ','.join(str(y) for y in BOUNDARY_YEARS),
    'thorough': 'days: every calendar day 1900-01-01..9999-12-31 (2 958 464); serials: every integer 61..2 958 465; '
                'offsets {1,-1} from every day and {7,30,365,36525} from the 198 495 days of the quick set (result '
                'kept inside 1900-03-01..9999-12-31); the long '
                'formula list (literal DATE() routes, all six comparison operators, x-y, n+d, d-(-n)) on every day '
                'of the 12 boundary years; '
                'date-times: every second of 40 chosen days (3 456 000 instants), every millisecond of 24 '
                'chosen seconds.  Not exhausted: the 2.5e14 millisecond instants (grid only)',
}
ASSUMPTIONS = [
    'before 1 Mar 1900 no particular serial is demanded: only date -> serial -> date identity (d+0 = d), strict '
    'monotonicity of DATEVALUE, and that DATE(y,m,d) and the same datetime bound to a variable get the same '
    'serial; N / DAYS / subtraction / comparisons are checked only for dates from 1 Mar 1900 on (the "Hence" '
    'sentence of the statement follows from the 1-March-onward serial definition)',
    'd+n is demanded only when both d and d+n lie in 1900-03-01..9999-12-31 (a sum that crosses the phantom '
    '29 Feb 1900 or leaves year 9999 is not demanded)',
    'serial -> date -> serial is demanded for serials >= 61 only (whole serials everywhere, fractional serials '
    'on the instant grid); serials 0..60 are not demanded',
    'date-times compare to 0.5 ms (serials to 0.5 ms expressed in days); whole-day serials must also lie within '
    'that tolerance of the integer',
    'the serial -> date direction is observed as d+0 (date + number -> date) and YEAR/MONTH/DAY(serial); '
    'HOUR/MINUTE/SECOND of fractional serials are not demanded (sub-millisecond rounding may legitimately '
    'fall on either side of a second boundary)',
    'the comparison checks cover date-vs-number and date-vs-date with = <> < > <= >= ; which *text* spellings '
    'count as dates is not part of this check',
]


# --------------------------------------------------------------------------- helpers

class ChannelDiff(Exception):
    def __init__(self, failure):
        Exception.__init__(self, 'delivery channels disagree')
        self.failure = failure


_CH = {'n': 0}
_CELL_OF = {}


def via_cells(formula, vars):
    """the same formula with every variable replaced by a cell reference holding the same value"""
    cells = {}
    text = formula
    for k in sorted(vars, key=len, reverse=True):
        if k not in _CELL_OF:
            _CELL_OF[k] = 'Q%d' % (7 + len(_CELL_OF))
        text = re.sub(r'(?<![A-Za-z0-9_$])%s(?![A-Za-z0-9_(])' % re.escape(k), _CELL_OF[k], text)
        cells[_CELL_OF[k]] = vars[k]
    return text, cells


def val(env, formula, vars=None):
    """-> (python value, None) or (None, normalised non-value outcome).
    A date-time is the same value whether the host hands it in as a variable or as the value of a cell: whenever a
    bound value is a date-time with a time of day (and for every 4th other date-time evaluation) the formula is also
    evaluated with the variables replaced by cell references carrying the same values; the outcomes must be identical."""
    r = env.ev(formula, vars)
    dts = [v for v in (vars or {}).values() if isinstance(v, DT)]
    if dts:
        _CH['n'] += 1
        if _CH['n'] % 4 == 0 or any(v.hour or v.minute or v.second or v.microsecond for v in dts):
            text, cells = via_cells(formula, vars)
            o1, o2 = env.out(r), env.evo(text, None, None, cells)
            if o1 != o2:
                raise ChannelDiff(fail('%s with %s gives %r, but %s with the same values delivered by the cell listener (%s) '
                                       'gives %r' % (formula, dict((k, enc(v)) for k, v in vars.items()), o1, text,
                                                     dict((k, enc(v)) for k, v in cells.items()), o2), o1, o2))
        # ... and a date-time that arrives as a one-cell range or a one-item list is that date-time for the functions the
        # statement names (under + - the result keeps the shape of the operand, so the operators are left to C06)
        if _CH['n'] % 4 == 1 and ONE_VALUE_FORM.match(formula):
            o1 = env.out(r)
            text, cells = via_cells(formula, vars)
            ranged = re.sub(r'(Q\d+)', r'\1:\1', text)
            wraps = [('the one-cell range', ranged, None, dict(('%s:%s' % (k, k), [[v]]) for k, v in cells.items())),
                     ('a one-item list', formula, dict((k, [v]) for k, v in vars.items()), None),
                     ('a one-item row of a one-item list', formula, dict((k, [(v,)]) for k, v in vars.items()), None)]
            kind, text2, vars2, cells2 = wraps[(_CH['n'] // 4) % 3]
            o2 = env.evo(text2, vars2, None, cells2)
            if o1 != o2:
                raise ChannelDiff(fail('%s with %s gives %r, but with every value delivered as %s (%s) it gives %r: one cell '
                                       'is one value' % (formula, dict((k, enc(v)) for k, v in vars.items()), o1, kind, text2, o2),
                                       o1, o2))
    if isinstance(r, dict) and len(r) == 2 and r.get('error', 0) is None and 'result' in r:
        return r['result'], None
    return None, env.out(r)


ONE_VALUE_FORM = re.compile(r'^(N|DATEVALUE|DAYS)\((x\w+)(,x\w+)?\)$')


def show(v, bad):
    return bad if bad is not None else enc(v)


def near_dt(v, want, tol=HALF_MS_S):
    if not isinstance(v, DT):
        return False
    try:
        return abs((v - want).total_seconds()) <= tol
    except TypeError:       # aware datetime
        return False


def near_num(v, want, tol=HALF_MS_D):
    return isnum(v) and abs(v - want) <= tol


def month_ends(y):
    """First and last day (as ordinals) of every month of year y, ascending, duplicate-free."""
    out = []
    for m in range(1, 13):
        a = D(y, m, 1).toordinal()
        b = (D(y + 1, 1, 1) if m == 12 else D(y, m + 1, 1)).toordinal() - 1
        out.append(a)
        out.append(b)
    return out


def quick_days(y):
    """quick tier: first/last day of every month for leap years and the years around a century,
    else the four days that carry the year / February / March boundaries"""
    if y % 4 == 0 or y % 100 in (1, 99):
        return month_ends(y)
    me = month_ends(y)
    return [me[0], me[3], me[4], me[-1]]


def day_ordinals(tier, y):
    if tier == 'thorough' or y in BOUNDARY_YEARS:
        return range(D(y, 1, 1).toordinal(), D(y, 12, 31).toordinal() + 1)
    return quick_days(y)


def classify(env, d):
    if d.toordinal() < MAR1_ORD:
        env.note('before-1mar1900')
    elif d.month == 2 and d.day == 29:
        env.note('leap-day')
    elif d.month == 3 and d.day == 1:
        env.note('1-march')
    elif d.day == 1:
        env.note('first-of-month')
    else:
        env.note('other-day')


class YearBlocks(Sub):
    """Common enumeration: one case per calendar year."""
    min_cases = 8100

    def units(self, tier):
        # several year ranges per sub in the thorough tier: smaller work items, shorter tail
        if tier == 'quick':
            return [[1900, 9999]]
        return [[1900, 3999], [4000, 5999], [6000, 7999], [8000, 9999]]

    def cases(self, tier, unit):
        for y in range(unit[0], unit[1] + 1):
            yield ['year', tier, y]


# --------------------------------------------------------------------------- days

class Days(YearBlocks):
    name = 'c13.days'
    rule = ('every calendar day of the tier (thorough: all 2 958 464; quick: boundary years + first/last of every '
            'month), as datetime variable (and as DATE(y,m,d) on boundary years and first/last day of every month): '
            'DATEVALUE = reference serial from 1 Mar 1900 on, '
            'serial strictly greater than that of the previously visited day, d+0 = d; from 1 Mar 1900 on N / DAYS / '
            'd-p / comparisons see the same serial; non-trivial = day on or after 1900-03-01 (a specific serial is '
            'demanded)')
    min_nontrivial = 60000
    min_classes = 5

    def check(self, env, case):
        if case[0] == 'one':
            o = D.fromisoformat(case[1]).toordinal()
            p = D.fromisoformat(case[2]).toordinal() if case[2] else None
            sp = None
            if p is not None:
                sp, _ = val(env, 'DATEVALUE(xd)', {'xd': DT.combine(D.fromordinal(p), datetime.time())})
            out = []
            self.one(env, o, p, sp, out)
            return out
        _, tier, y = case
        out = []
        p = sp = None
        ords = day_ordinals(tier, y)
        if y > 1900:
            p = ords[0] - 1
            sp, _ = val(env, 'DATEVALUE(xd)', {'xd': DT.combine(D.fromordinal(p), datetime.time())})
        for o in ords:
            sp = self.one(env, o, p, sp, out)
            p = o
            if len(out) > 40:
                break
        return out

    def one(self, env, o, p, sp, out):
        """Checks day `o`; p/sp = previously visited day and its observed serial. -> observed serial."""
        d = D.fromordinal(o)
        dt = DT(d.year, d.month, d.day)
        post = o >= MAR1_ORD
        S = o - EPOCH_ORD
        narrow = ['one', d.isoformat(), D.fromordinal(p).isoformat() if p is not None else None]
        full = d.year in BOUNDARY_YEARS
        lit_d = 'DATE(%d,%d,%d)' % (d.year, d.month, d.day)
        classify(env, d)
        if post:
            env.nt()

        def bad(msg, expected, v, b):
            out.append(fail(msg, expected, show(v, b), case=narrow))

        # -- date -> serial
        s, b = val(env, 'DATEVALUE(xd)', {'xd': dt})
        if not isnum(s):
            bad('DATEVALUE(xd) with xd = %s is not a number' % d, S if post else 'a number', s, b)
            return None
        if post and not near_num(s, S):
            bad('DATEVALUE(xd) with xd = %s is %r; the serial of that day (days since 1899-12-30) is %d'
                % (d, s, S), S, s, None)
        if isnum(sp) and not sp < s:
            bad('serials do not increase strictly: DATEVALUE(%s) = %r but DATEVALUE(%s) = %r'
                % (D.fromordinal(p), sp, d, s), '> %r' % sp, s, None)
        ref = S if post else s           # "the same serial" that every other function must see

        # -- serial -> date (date + 0 converts through the serial and back)
        v, b = val(env, 'xd+0', {'xd': dt})
        if not near_dt(v, dt):
            bad('xd+0 with xd = %s does not return the same date' % d, enc(dt), v, b)

        # -- same date spelled DATE(y,m,d) (boundary years and first/last day of every month; C14 sweeps
        #    YEAR/MONTH/DAY(DATE(y,m,d)) over every day)
        if full or d.day == 1 or o == LAST_ORD or D.fromordinal(o + 1).day == 1:
            v, b = val(env, 'DATEVALUE(%s)' % lit_d)
            if not near_num(v, ref):
                bad('DATEVALUE(%s) is not the serial %r' % (lit_d, ref), ref, v, b)

        if full:
            v, b = val(env, '%s+0' % lit_d)
            if not near_dt(v, dt):
                bad('%s+0 does not return the same date' % lit_d, enc(dt), v, b)
            v, b = val(env, '0+xd', {'xd': dt})
            if not near_dt(v, dt):
                bad('0+xd with xd = %s does not return the same date' % d, enc(dt), v, b)
        if not post:
            return s      # before 1 Mar 1900 only the round trip and strict monotonicity are demanded

        # -- N, DAYS, subtraction, comparisons see the same serial (dates from 1 Mar 1900 on)
        v, b = val(env, 'N(xd)', {'xd': dt})
        if not near_num(v, ref):
            bad('N(xd) with xd = %s is not the serial %r' % (d, ref), ref, v, b)
        if p is not None and p >= MAR1_ORD:
            pd = D.fromordinal(p)
            pdt = DT(pd.year, pd.month, pd.day)
            diff = o - p
            v, b = val(env, 'DAYS(xd,xp)', {'xd': dt, 'xp': pdt})
            if not near_num(v, diff):
                bad('DAYS(xd,xp) with xd = %s, xp = %s is not the difference of their serials (%r)' % (d, pd, diff),
                    diff, v, b)
            if full:
                v, b = val(env, 'xd-xp', {'xd': dt, 'xp': pdt})
                if not near_num(v, diff):
                    bad('xd-xp with xd = %s, xp = %s is not the difference of their serials (%r)' % (d, pd, diff),
                        diff, v, b)
                lit_p = 'DATE(%d,%d,%d)' % (pd.year, pd.month, pd.day)
                v, b = val(env, '%s-%s' % (lit_d, lit_p))
                if not near_num(v, diff):
                    bad('%s-%s is not the difference of the serials (%r)' % (lit_d, lit_p, diff), diff, v, b)
                for f, want in (('xd>xp', True), ('xp<xd', True), ('xd=xp', False), ('xd<=xp', False)):
                    v, b = val(env, f, {'xd': dt, 'xp': pdt})
                    if v is not want:
                        bad('%s with xd = %s, xp = %s should be %s' % (f, d, pd, want), want, v, b)
        comps = [('xd=xs', True), ('xd<xs+1', True)]
        if full:
            comps += [('xs-1<xd', True), ('xd<xs', False), ('xd>xs', False), ('xs=xd', True), ('xd<>xs', False),
                      ('xd>=xs', True), ('xd<=xs', True), ('xd>xs-1', True), ('xd>=xs+1', False)]
        for f, want in comps:
            v, b = val(env, f, {'xd': dt, 'xs': ref})
            if v is not want:
                bad('%s with xd = %s, xs = %r (its serial) should be %s' % (f, d, ref, want), want, v, b)
        if full:
            v, b = val(env, 'DATEVALUE(xd+0)', {'xd': dt})
            if not near_num(v, ref):
                bad('DATEVALUE(xd+0) with xd = %s is not the serial %r' % (d, ref), ref, v, b)
        return s


# --------------------------------------------------------------------------- serials

class Serials(YearBlocks):
    name = 'c13.serials'
    rule = ('every integer serial of the tier (thorough: all of 61..2 958 465; quick: serials of the quick day '
            'set), as variable (as literal on the quick day set): DATEVALUE(n) = n and YEAR/MONTH/DAY(n) = the reference date '
            'fromordinal(n + ordinal(1899-12-30)); non-trivial = every serial')
    min_nontrivial = 60000
    min_classes = 4

    def check(self, env, case):
        out = []
        if case[0] == 'one':
            self.one(env, case[1], out)
            return out
        _, tier, y = case
        for o in day_ordinals(tier, y):
            if o < MAR1_ORD:
                continue
            self.one(env, o - EPOCH_ORD, out)
            if len(out) > 40:
                break
        return out

    def one(self, env, n, out):
        d = D.fromordinal(n + EPOCH_ORD)
        narrow = ['one', n]
        full = d.year in BOUNDARY_YEARS
        env.nt()
        classify(env, d)

        def bad(msg, expected, v, b):
            out.append(fail(msg, expected, show(v, b), case=narrow))

        v, b = val(env, 'DATEVALUE(xs)', {'xs': n})
        if not near_num(v, n):
            bad('DATEVALUE(xs) with xs = %d (the serial of %s) does not return the serial' % (n, d), n, v, b)
        if full or d.day == 1 or n + EPOCH_ORD == LAST_ORD or D.fromordinal(n + EPOCH_ORD + 1).day == 1:
            v, b = val(env, 'DATEVALUE(%d)' % n)
            if not near_num(v, n):
                bad('DATEVALUE(%d) (the serial of %s) does not return the serial' % (n, d), n, v, b)
        for fn, want in (('YEAR', d.year), ('MONTH', d.month), ('DAY', d.day)):
            v, b = val(env, fn + '(xs)', {'xs': n})
            if not (isnum(v) and v == want):
                bad('%s(xs) with xs = %d is not that of %s' % (fn, n, d), want, v, b)
        if full:
            for fn, want in (('YEAR', d.year), ('MONTH', d.month), ('DAY', d.day)):
                v, b = val(env, '%s(%d)' % (fn, n))
                if not (isnum(v) and v == want):
                    bad('%s(%d) is not that of %s' % (fn, n, d), want, v, b)
                v, b = val(env, fn + '(xs)', {'xs': float(n)})
                if not (isnum(v) and v == want):
                    bad('%s(xs) with xs = %r is not that of %s' % (fn, float(n), d), want, v, b)
            v, b = val(env, 'DATEVALUE(xs)', {'xs': float(n)})
            if not near_num(v, n):
                bad('DATEVALUE(xs) with xs = %r does not return the serial' % float(n), n, v, b)
            # serial -> date -> serial through arithmetic: (date - date) is a number, number + date a date
            dt = DT(d.year, d.month, d.day)
            v, b = val(env, 'xd=xs', {'xd': dt, 'xs': n})
            if v is not True:
                bad('xd=xs with xd = %s, xs = %d (its serial) should be TRUE' % (d, n), True, v, b)


# --------------------------------------------------------------------------- offsets

class Offsets(YearBlocks):
    name = 'c13.offsets'
    rule = ('every day of the tier x n in {1,-1} and every day of the quick day set (boundary years + first/last of '
            'every month) x n in {7,30,365,36525}, with d and d+n inside 1900-03-01..9999-12-31: '
            'xd+xn is the date n days later; on boundary-year days also (xd+xn)-xd = n, xe-xd = n, xn+xd, '
            'DATE(..)+n, xd-(-n); non-trivial = the sum crosses a month boundary')
    min_nontrivial = 15000
    min_classes = 6

    def units(self, tier):
        return list(OFFSETS)

    def cases(self, tier, unit):
        # thorough: n = +-1 from every day; the larger offsets from the quick day set (198 495 anchor days):
        # every date -> serial and serial -> date mapping is already swept completely by c13.days / c13.serials
        dayset = 'thorough' if tier == 'thorough' and unit in ALLDAY_OFFSETS else 'quick'
        for y in range(1900, 10000):
            yield ['year', dayset, y, unit]

    def check(self, env, case):
        out = []
        if case[0] == 'one':
            self.one(env, D.fromisoformat(case[1]).toordinal(), case[2], out)
            return out
        _, tier, y, n = case
        for o in day_ordinals(tier, y):
            self.one(env, o, n, out)
            if len(out) > 40:
                break
        return out

    def one(self, env, o, n, out):
        if o < MAR1_ORD or not (MAR1_ORD <= o + n <= LAST_ORD):
            env.note('not-demanded(outside 1900-03-01..9999-12-31)')
            return
        d = D.fromordinal(o)
        e = D.fromordinal(o + n)
        dt = DT(d.year, d.month, d.day)
        et = DT(e.year, e.month, e.day)
        narrow = ['one', d.isoformat(), n]
        env.note('n=%d' % n)
        if (d.year, d.month) != (e.year, e.month):
            env.nt()

        def bad(msg, expected, v, b):
            out.append(fail(msg, expected, show(v, b), case=narrow))

        v, b = val(env, 'xd+xn', {'xd': dt, 'xn': n})
        if not near_dt(v, et):
            bad('xd+xn with xd = %s, xn = %d is not %s (%d days later)' % (d, n, e, n), enc(et), v, b)
        if d.year not in BOUNDARY_YEARS:
            return
        v, b = val(env, '(xd+xn)-xd', {'xd': dt, 'xn': n})
        if not near_num(v, n):
            bad('(xd+xn)-xd with xd = %s, xn = %d is not %d' % (d, n, n), n, v, b)
        v, b = val(env, 'xe-xd', {'xd': dt, 'xe': et})
        if not near_num(v, n):
            bad('xe-xd with xe = %s, xd = %s is not the %d days between them' % (e, d, n), n, v, b)
        v, b = val(env, 'DAYS(xe,xd)', {'xd': dt, 'xe': et})
        if not near_num(v, n):
            bad('DAYS(xe,xd) with xe = %s, xd = %s is not the %d days between them' % (e, d, n), n, v, b)
        v, b = val(env, 'xn+xd', {'xd': dt, 'xn': n})
        if not near_dt(v, et):
            bad('xn+xd with xd = %s, xn = %d is not %s' % (d, n, e), enc(et), v, b)
        f = 'DATE(%d,%d,%d)%s%d' % (d.year, d.month, d.day, '+' if n >= 0 else '-', abs(n))
        v, b = val(env, f)
        if not near_dt(v, et):
            bad('%s is not %s' % (f, e), enc(et), v, b)
        v, b = val(env, 'xd-xm', {'xd': dt, 'xm': -n})
        if not near_dt(v, et):
            bad('xd-xm with xd = %s, xm = %d is not %s' % (d, -n, e), enc(et), v, b)
        v, b = val(env, 'xd+xn=xe', {'xd': dt, 'xn': n, 'xe': et})
        if v is not True:
            bad('xd+xn=xe with xd = %s, xn = %d, xe = %s should be TRUE' % (d, n, e), True, v, b)


# --------------------------------------------------------------------------- instants

def ref_serial(t):
    """Exact reference serial of a naive datetime (Fraction); meaningful from 1 Mar 1900 on."""
    days = t.toordinal() - EPOCH_ORD
    us = ((t.hour * 60 + t.minute) * 60 + t.second) * 1000000 + t.microsecond
    return Fraction(days) + Fraction(us, 86400 * 1000000)


def check_instant(env, t, tp, sp, narrow, out):
    """t: datetime; tp/sp: previous instant and its observed serial. -> observed serial of t."""
    post = t >= MAR1_DT

    def bad(msg, expected, v, b):
        out.append(fail(msg, expected, show(v, b), case=narrow))

    s, b = val(env, 'DATEVALUE(xd)', {'xd': t})
    if not isnum(s):
        bad('DATEVALUE(xd) with xd = %s is not a number' % t.isoformat(), 'a number', s, b)
        return None
    if post:
        rs = float(ref_serial(t))
        if abs(s - rs) > HALF_MS_D:
            bad('DATEVALUE(xd) with xd = %s is %r; days since 1899-12-30 with the time of day as fraction = %r'
                % (t.isoformat(), s, rs), rs, s, None)
    if isnum(sp) and not sp < s:
        bad('serials do not increase strictly with time: DATEVALUE(%s) = %r but DATEVALUE(%s) = %r'
            % (tp.isoformat(), sp, t.isoformat(), s), '> %r' % sp, s, None)
    if post and tp is not None and tp >= MAR1_DT and (t.second % 5 == 0 or t.microsecond):
        # the comparison operators see the same serial: an instant is after, and not equal to, the one before
        for f, want in (('xp<xd', True), ('xp=xd', False), ('xd<=xp', False), ('xd<>xp', True)):
            v, b = val(env, f, {'xp': tp, 'xd': t})
            if v is not want:
                bad('%s with xp = %s, xd = %s is %r' % (f, tp.isoformat(), t.isoformat(), v), want, v, b)
    if post and (t.second % 5 == 0 or t.microsecond) and (t.hour or t.minute or t.second or t.microsecond):
        # ... also against plain numbers: the whole-day serial (an int) is before the instant, the next day after it
        day = t.toordinal() - EPOCH_ORD
        for f, want in (('xk<xd', True), ('xk=xd', False), ('xd>xk', True), ('xk>=xd', False), ('xn>xd', True), ('xd<=xn', True)):
            v, b = val(env, f, {'xk': day, 'xn': day + 1, 'xd': t})
            if v is not want:
                bad('%s with xk = %d, xn = %d (whole-day serials), xd = %s is %r' % (f, day, day + 1, t.isoformat(), v), want, v, b)
    if t.second % 10 == 0 or t.microsecond:
        # whatever the serial is (also before 1 March 1900): N and DATEVALUE show the same one
        v, b = val(env, 'N(xd)', {'xd': t})
        if not near_num(v, s):
            bad('N(xd) = %r but DATEVALUE(xd) = %r with xd = %s: two serials for one date-time' % (v, s, t.isoformat()), s, v, b)
    if tp is not None and isnum(sp) and (t.second % 10 == 0 or t.microsecond) and post and tp >= MAR1_DT:
        # ... and DAYS sees the whole difference of the two serials, fractions of a second included (from 1 Mar 1900 on)
        v, b = val(env, 'DAYS(xd,xp)', {'xd': t, 'xp': tp})
        if not near_num(v, s - sp, HALF_MS_D / 2):
            bad('DAYS(xd,xp) = %r but DATEVALUE(xd)-DATEVALUE(xp) = %r with xd = %s, xp = %s' % (v, s - sp, t.isoformat(), tp.isoformat()),
                s - sp, v, b)
    v, b = val(env, 'xd+0', {'xd': t})
    if not near_dt(v, t):
        bad('xd+0 with xd = %s does not return the same date-time (0.5 ms)' % t.isoformat(), enc(t), v, b)
    if post:
        v, b = val(env, 'DATEVALUE(xs)', {'xs': rs})
        if not near_num(v, rs):
            bad('DATEVALUE(xs) with xs = %r (serial of %s) does not return the serial' % (rs, t.isoformat()),
                rs, v, b)
    return s


class Instants(Sub):
    name = 'c13.seconds'
    rule = ('every second of the chosen days (40 thorough / 4 quick), one case per hour: DATEVALUE(xd) = days '
            'since 1899-12-30 + fraction (from 1 Mar 1900), strictly increasing second over second, xd+0 = xd to '
            '0.5 ms, DATEVALUE(serial) = serial; non-trivial = instant with a non-zero time of day')
    min_cases = 96
    min_nontrivial = 300000
    min_classes = 2

    def units(self, tier):
        days = QUICK_INSTANT_DAYS if tier == 'quick' else INSTANT_DAYS
        return [list(days[i:i + 10]) for i in range(0, len(days), 10)]

    def cases(self, tier, unit):
        for day in unit:
            for h in range(24):
                yield [day, h]

    def check(self, env, case):
        out = []
        if case[0] == 'one':
            t = DT.fromisoformat(case[1])
            tp = t - datetime.timedelta(seconds=1)
            sp = None
            if tp >= FIRST_DT:
                sp, _ = val(env, 'DATEVALUE(xd)', {'xd': tp})
            else:
                tp = None
            check_instant(env, t, tp, sp, case, out)
            return out
        day, h = case
        d = D.fromisoformat(day)
        t = DT(d.year, d.month, d.day, h)
        tp = t - datetime.timedelta(seconds=1)
        sp = None
        if tp >= FIRST_DT:
            sp, _ = val(env, 'DATEVALUE(xd)', {'xd': tp})
        else:
            tp = None
        one_s = datetime.timedelta(seconds=1)
        env.note('before-1mar1900' if t < MAR1_DT else 'from-1mar1900')
        t0 = t
        for i in range(3600):
            t = t0 + i * one_s
            sp = check_instant(env, t, tp, sp, ['one', t.isoformat()], out)
            tp = t
            if len(out) > 40:
                break
        env.nt(3600 if h else 3599)
        return out


TZ_DAYS = ['1900-03-01', '1969-12-31', '1970-01-01', '2021-01-15', '2021-03-14', '2021-03-28', '2021-06-15', '2021-09-26',
           '2021-10-31', '2021-11-07', '2038-01-19', '9999-12-31']


class Timezones(Sub):
    name = 'c13.timezones'
    rule = ('6 local time zones of the process (UTC, US Eastern and UK with daylight saving, India +5:30, New Zealand, Hawaii; '
            'POSIX TZ strings) x 12 days (winter, summer, the days the clocks change, epoch and 2038 boundaries) x every hour '
            'at :00 and :30: the same conversions as c13.seconds - serial of the instant, round trip, DATEVALUE(serial) = '
            'serial, and the whole-day serial converted to a date is that day at midnight; the zone of the host never '
            'matters; non-trivial = all')
    min_cases = 60
    min_nontrivial = 2000
    min_classes = 5

    def cases(self, tier, unit):
        for tz in ZONES:
            for day in TZ_DAYS:
                yield [tz, day]

    def check(self, env, case):
        out = []
        if case[0] == 'tz':
            _, tz, iso = case
            with local_timezone(tz):
                self.instant(env, tz, DT.fromisoformat(iso), out)
            return out
        tz, day = case
        d = D.fromisoformat(day)
        env.note(tz.split(',')[0])
        with local_timezone(tz):
            for h in range(24):
                for m in (0, 30):
                    env.nt()
                    self.instant(env, tz, DT(d.year, d.month, d.day, h, m), out)
                if len(out) > 10:
                    break
        for f in out:
            f['msg'] = '[process time zone %s] %s' % (tz, f['msg'])
        return out

    def instant(self, env, tz, t, out):
        narrow = ['tz', tz, t.isoformat()]
        tp = t - datetime.timedelta(minutes=30)
        sp, _ = val(env, 'DATEVALUE(xd)', {'xd': tp})
        check_instant(env, t, tp, sp, narrow, out)
        if t.hour == 0 and t.minute == 0:
            k = t.toordinal() - EPOCH_ORD
            for f, vars in (('xk+0', {'xk': k}), ('DATEVALUE(xk)+0', {'xk': k}), ('xk*1', {'xk': float(k)})):
                v, b = val(env, f, vars)
                if not near_dt(v, t) and not (isnum(v) and abs(v - k) < 1e-9):
                    out.append(fail('%s with the whole-day serial xk = %r is %s; expected %s at midnight (or the serial itself)' % (
                        f, vars['xk'], show(v, b), t.date().isoformat()), enc(t), show(v, b), case=narrow))
            for fn, want in (('YEAR', t.year), ('MONTH', t.month), ('DAY', t.day)):
                v, b = val(env, '%s(xk)' % fn, {'xk': k})
                if v != want:
                    out.append(fail('%s(xk) with the whole-day serial xk = %d is %s, expected %d' % (fn, k, show(v, b), want), want,
                                    show(v, b), case=narrow))


class Millis(Sub):
    name = 'c13.milliseconds'
    rule = ('every millisecond of 24 chosen seconds (both sides of 1 Mar 1900, of the Unix epoch, leap days, last '
            'second of 9999): same oracle as c13.seconds at millisecond resolution; non-trivial = every instant')
    min_cases = 24
    min_nontrivial = 24000
    min_classes = 2

    def cases(self, tier, unit):
        for s in MILLI_SECONDS:
            yield [s]

    def check(self, env, case):
        out = []
        one_ms = datetime.timedelta(milliseconds=1)
        if case[0] == 'one':
            t = DT.fromisoformat(case[1])
            tp = t - one_ms
            sp = None
            if tp >= FIRST_DT:
                sp, _ = val(env, 'DATEVALUE(xd)', {'xd': tp})
            else:
                tp = None
            check_instant(env, t, tp, sp, case, out)
            return out
        t = DT.fromisoformat(case[0])
        tp = t - one_ms
        sp = None
        if tp >= FIRST_DT:
            sp, _ = val(env, 'DATEVALUE(xd)', {'xd': tp})
        else:
            tp = None
        env.note('before-1mar1900' if t < MAR1_DT else 'from-1mar1900')
        t0 = t
        for i in range(1000):
            t = t0 + i * one_ms
            sp = check_instant(env, t, tp, sp, ['one', t.isoformat(timespec='milliseconds')], out)
            tp = t
            if len(out) > 40:
                break
        env.nt(1000)
        return out


SUBS = [Days(), Serials(), Offsets(), Instants(), Timezones(), Millis()]


def _guard(sub):
    inner = sub.check

    def check(env, case):
        try:
            return inner(env, case)
        except ChannelDiff as e:
            return [e.failure]
    sub.check = check


for _s in SUBS:
    _guard(_s)
