# -*- coding: utf-8 -*-
"""C04 - precedence, associativity, parentheses (K3: all expression trees up to a size).

Every tree is rendered (a) fully parenthesised, (b) minimally parenthesised according to the
reading the property states, (c) with one redundant pair around each subterm in turn; every
rendering must evaluate to the exact rational value of the *tree* (R2 tolerance for floats)."""
import itertools

from ..core import Sub, fail, close, isnum, scale
from .. import formula as F

# delivery-channel and host-type differential (core.Env): of every 6 evaluations that bind variables, one is repeated with the
# values handed in by the cell/range listeners, one with the values returned by custom functions and one with every value an
# instance of a trivial subclass of its type (numpy.float64, IntEnum, rich-text str ... are such); outcomes must agree
CHANNELS = 6

BOUNDS = {
    'quick': 'all trees with <= 3 binary operators over + - * / (all shapes x operator assignments), unary minus on '
             '<= 2 nodes (3 operators, 4 leaf-kind rotations) or <= 1 node (<= 2 operators, all 6^k leaf-kind '
             'assignments); zero-divisor '
             'placements for <= 2 operators; comparison trees (6 operators, comparisons of comparisons grouping left to right, comparison as '
             'arithmetic leaf, comparison of comparisons); & chains of 2..4 operands alone and against a comparison; '
             'left/right nested chains to depth 30',
    'thorough': 'as quick with <= 5 binary operators (unary minus on <= 2 nodes up to 4 operators, <= 1 node for 5), '
                'zero-divisor placements for <= 3 operators, & chains of 2..5 operands',
}
ASSUMPTIONS = ['& ranks between + - and the comparisons (the statement lists unary minus, * /, + -, comparisons from the tightest down and puts & above the comparisons)',
               'the six comparison operators are ONE level, grouping left to right (3>=2>1 is (3>=2)>1); ^ is outside the statement',
               'comparisons whose outcome depends on float rounding of a non-dyadic quotient are skipped',
               'float results compared with the exact rational value, rel 1e-9']


def expect(tree):
    """-> ('skip', why) | ('e', code) | ('num', Fraction) | ('bool', b) | ('text', s)"""
    try:
        v = F.ref_eval(tree)
    except F.Skip as s:
        return ('skip', str(s))
    except F.RefError as e:
        return ('e', e.code)
    return (v.kind, v.v)


def agree(out, exp):
    kind, v = exp
    if kind == 'e':
        return out == ['e', v]
    if out[0] != 'v':
        return False
    r = out[1]
    if kind == 'num':
        return isnum(r) and close(r, v)
    if kind == 'bool':
        return r is v
    if kind == 'text':
        return isinstance(r, str) and r == v
    return False


def renderings(tree, extras=True):
    seen = set()
    for name, s in _renderings(tree, extras):
        if s not in seen:
            seen.add(s)
            yield name, s


def _renderings(tree, extras):
    yield 'full', F.render_full(tree)
    yield 'min', F.render_min(tree)
    if extras:
        for p in F.subterm_paths(tree):
            yield 'extra%s' % (list(p),), F.render_min(tree, extra=p)


def check_tree(env, tree, extras=True):
    exp = expect(tree)
    if exp[0] == 'skip':
        env.note('skipped: ' + exp[1])
        return None
    vars, cells = F.bindings(tree)
    env.note('expect-' + exp[0])
    n = 0
    first = None
    for name, s in renderings(tree, extras):
        out = env.evo(s, vars, cells=(cells if cells else None))
        n += 1
        if not agree(out, exp):
            return fail('%s rendering %r of tree evaluates to %r, exact value of the tree is %s' % (
                name, s, out, _show(exp)), _show(exp), out, case=['tree', tree])
        # all renderings denote the SAME tree, hence the same sequence of floating-point operations:
        # their outcomes must be identical, not merely close
        if first is None:
            first = (name, s, out)
        elif out != first[2]:
            return fail('renderings of one tree differ: %s %r gives %r but %s %r gives %r (same tree, so the same '
                        'operations in the same order)' % (first[0], first[1], first[2], name, s, out), first[2], out,
                        case=['tree', tree])
    if n > 1:
        env.nt()
    return None


def _show(exp):
    if exp[0] == 'num':
        return 'num %s (%.12g)' % (exp[1], float(exp[1]))
    return '%s %r' % exp


KINDS6 = ('int', 'var', 'cell', 'dec', 'call', 'vneg')
ROT = ('var', 'int', 'cell', 'dec', 'call', 'vneg', 'dot', 'vflt')


def unary_sets(nnodes, maxk):
    yield ()
    for k in range(1, maxk + 1):
        for c in itertools.combinations(range(nnodes), k):
            yield c


class Arith(Sub):
    name = 'c04.arith'
    rule = ('all shapes x operator assignments x unary-minus placements x leaf-kind rotations; leaves are distinct '
            'primes (by position) so any re-association changes the value; non-trivial = tree with >= 2 distinct '
            'renderings')
    min_cases = 20
    min_nontrivial = 1000

    def cases(self, tier, unit):
        maxn = 3 if tier == 'quick' else 5
        for n in range(0, maxn + 1):
            for si, sh in enumerate(F.shapes(n)):
                if n == 0:
                    yield ['blk', n, si, 'all']
                elif n <= 2:
                    for op0 in F.ARITH:
                        for k0 in range(len(KINDS6)):
                            yield ['blk', n, si, 'all', op0, k0, 1 if tier == 'quick' else 2]
                else:
                    rots = (range(4) if tier == 'quick' else range(8)) if n <= 3 else (range(3) if n == 4 else range(1))
                    for rot in rots:
                        if n >= 4:
                            for op0 in F.ARITH:
                                yield ['blk', n, si, rot, op0]
                        else:
                            yield ['blk', n, si, rot]

    def check(self, env, case):
        if case[0] == 'tree':
            return check_tree(env, case[1])
        n, si, rot = case[1], case[2], case[3]
        op0 = case[4] if len(case) > 4 else None
        k0 = case[5] if len(case) > 5 else None
        sh = list(F.shapes(n))[si]
        nn = F.count_nodes(sh)
        out = []
        maxu = 2 if n <= 4 else 1
        if len(case) > 6:
            maxu = case[6]
        if rot == 'all':
            kindsets = [ks for ks in itertools.product(KINDS6, repeat=n + 1) if k0 is None or ks[0] == KINDS6[k0]]
        else:
            kindsets = [tuple(ROT[(rot + i) % len(ROT)] for i in range(n + 1))]
        for ops in itertools.product(F.ARITH, repeat=n):
            if op0 is not None and ops[0] != op0:
                continue
            for un in unary_sets(nn, maxu):
                for ks in kindsets:
                    tree = F.build(sh, ops, ks, set(un))
                    f = check_tree(env, tree, extras=(n <= 3 or not un))
                    if f:
                        out.append(f)
                        if len(out) > 3:
                            return out
        return out


class FloatGrouping(Sub):
    name = 'c04.float_grouping'
    rule = ('all trees with <= 3 operators over + - * / whose leaves are non-dyadic decimals (0.2, 0.3, 0.5, 0.7, 1.1, '
            '1.3): a wrong grouping among operators of one level (a+b-c read as a+(b-c)) changes only the rounding of the '
            'result, so every rendering must give bit-identical results; non-trivial = tree with >= 2 operators')
    min_cases = 5
    min_nontrivial = 300

    def cases(self, tier, unit):
        for n in range(1, 4):
            for si, _ in enumerate(F.shapes(n)):
                yield ['blk', n, si]

    def check(self, env, case):
        if case[0] == 'tree':
            return check_tree(env, case[1])
        _, n, si = case
        sh = list(F.shapes(n))[si]
        out = []
        for ops in itertools.product(F.ARITH, repeat=n):
            for un in ((), (0,), (1,)):
                tree = F.build(sh, ops, ('tenth',), set(un))
                if n >= 2:
                    env.nt()
                f = check_tree(env, tree)
                if f:
                    out.append(f)
                    if len(out) > 3:
                        return out
        return out


class Zero(Sub):
    name = 'c04.zero'
    rule = ('trees over integer leaves with one leaf replaced by 0 or by (p-p), at every position: a zero divisor '
            'anywhere gives #DIV/0!, elsewhere the exact value; non-trivial = expected #DIV/0!')
    min_nontrivial = 10
    min_classes = 2

    def cases(self, tier, unit):
        maxn = 2 if tier == 'quick' else 3
        for n in range(1, maxn + 1):
            for si, sh in enumerate(F.shapes(n)):
                yield ['blk', n, si]

    def check(self, env, case):
        if case[0] == 'tree':
            return check_tree(env, case[1])
        n, si = case[1], case[2]
        sh = list(F.shapes(n))[si]
        out = []
        for ops in itertools.product(F.ARITH, repeat=n):
            base = F.build(sh, ops, ('int',), ())
            for pos in range(n + 1):
                for repl in (['n', '0', [0, 1]], ['b', '-', ['n', '3', [3, 1]], ['n', '3', [3, 1]]],
                             ['v', 'vz', 0]):
                    tree = _replace_leaf(base, pos, repl)
                    exp = expect(tree)
                    f = check_tree(env, tree)
                    if exp == ('e', '#DIV/0!'):
                        env.nt()
                    if f:
                        out.append(f)
                        if len(out) > 3:
                            return out
        return out


def _replace_leaf(t, pos, repl):
    state = {'i': 0}

    def rec(x):
        if x[0] == 'b':
            l = rec(x[2])
            r = rec(x[3])
            return ['b', x[1], l, r]
        if x[0] == 'u':
            return ['u', rec(x[1])]
        me = state['i']
        state['i'] += 1
        return repl if me == pos else x
    return rec(t)


VALSETS = ((2, 3, 5, 7), (2, 3, 2, 3), (6, 2, 3, 1), (5, 5, 5, 5))


def _leafs(vs, lit):
    if lit:
        return [['n', str(v), [v, 1]] for v in vs]
    return [['v', F.VARNAMES[i], v] for i, v in enumerate(vs)]


class Compare(Sub):
    name = 'c04.compare'
    rule = ('L cmp R with L,R arithmetic terms of <= 1 operator (all 6 comparisons, unary minus on either side), a '
            'parenthesised comparison as an arithmetic operand, and comparisons of comparisons, over 4 value '
            'assignments supplied as literals and variables; non-trivial = every tree evaluated')
    min_cases = 100
    min_nontrivial = 100
    min_classes = 2

    def cases(self, tier, unit):
        for vi in range(len(VALSETS)):
            for lit in (0, 1):
                for form in ('A', 'B', 'C'):
                    for cmp_ in F.CMP:
                        yield ['blk', vi, lit, form, cmp_]

    def check(self, env, case):
        if case[0] == 'tree':
            return check_tree(env, case[1])
        vi, lit, form, cmp_ = case[1:]
        a, b, c, d = _leafs(VALSETS[vi], lit)
        trees = []
        if form == 'A':
            ls = [a] + [['b', op, a, b] for op in F.ARITH]
            rs = [c] + [['b', op, c, d] for op in F.ARITH]
            for l in ls:
                for r in rs:
                    trees.append(['b', cmp_, l, r])
                    trees.append(['b', cmp_, ['u', l], r])
                    trees.append(['b', cmp_, l, ['u', r]])
        elif form == 'B':
            cm = ['b', cmp_, a, b]
            for op in F.ARITH:
                trees.append(['b', op, cm, c])
                trees.append(['b', op, c, cm])
                trees.append(['b', op, ['b', op, c, cm], d])
                trees.append(['b', op, c, ['b', '*', cm, d]])
            trees.append(['u', cm])
        else:
            for c2 in F.CMP:
                for c3 in F.CMP:
                    trees.append(['b', c2, ['b', cmp_, a, b], ['b', c3, c, d]])
        out = []
        for t in trees:
            f = check_tree(env, t)
            if f:
                out.append(f)
                if len(out) > 3:
                    break
        return out


AMP_ATOMS = (['n', '1', [1, 1]], ['n', '23', [23, 1]], ['s', 'a'], ['s', 'b c'], ['v', 'vt', 'xy'], ['v', 'vi', 40],
             ['b', '+', ['n', '1', [1, 1]], ['n', '2', [2, 1]]], ['s', ''])


class Amp(Sub):
    name = 'c04.amp'
    rule = ('& chains of 2..k operands over 8 atoms (integers, text, variables, a parenthesised sum, empty text), '
            'left- and right-nested, alone and on either side of one comparison with the expected text: & binds '
            'tighter than comparisons; non-trivial = every chain')
    min_cases = 20
    min_nontrivial = 50

    def cases(self, tier, unit):
        maxk = 4 if tier == 'quick' else 5
        for k in range(2, maxk + 1):
            for first in range(len(AMP_ATOMS)):
                yield ['blk', k, first]

    def check(self, env, case):
        if case[0] == 'tree':
            return check_tree(env, case[1])
        k, first = case[1], case[2]
        out = []
        for rest in itertools.product(range(len(AMP_ATOMS)), repeat=k - 1):
            atoms = [AMP_ATOMS[first]] + [AMP_ATOMS[i] for i in rest]
            left = atoms[0]
            for x in atoms[1:]:
                left = ['b', '&', left, x]
            right = atoms[-1]
            for x in reversed(atoms[:-1]):
                right = ['b', '&', x, right]
            exp = expect(left)
            if exp[0] != 'text':
                continue
            text = exp[1]
            if '"' in text:
                continue
            trees = [left, right,
                     ['b', '=', left, ['s', text]], ['b', '=', ['s', text], left],
                     ['b', '<>', left, ['s', text + 'z']], ['b', '=', left, right]]
            for t in trees:
                f = check_tree(env, t, extras=(k <= 3))
                if f:
                    out.append(f)
                    if len(out) > 3:
                        return out
        return out


MIX_LEAVES = (['n', '1', [1, 1]], ['n', '2', [2, 1]], ['n', '3', [3, 1]], ['v', 'va', 4], ['c', 'A1', 6], ['f', 'SUM(2,3)', 5])
MIX_OPS = ('+', '-', '*')


def _arith_trees(nops):
    """all trees with exactly nops operators of + - * over the leaf pool (leaf choice rotates with the position)"""
    if nops == 0:
        for leaf in MIX_LEAVES[:4]:
            yield leaf
        return
    for k in range(nops):
        for l in _arith_trees(k):
            for r in _arith_trees(nops - 1 - k):
                for op in MIX_OPS:
                    yield ['b', op, l, r]


class AmpArith(Sub):
    name = 'c04.amp_arith'
    rule = ('& against the arithmetic operators: Concat(x, y) and Concat(Concat(x, y), z) for all arithmetic trees x, y (z) with '
            '<= 2 (1) operators (quick: every sixth of the two-operator trees) of + - * over integer leaves (literals, a variable, a cell, a call), also with a unary minus on '
            'the first operand, alone and under one comparison with the expected text; and arithmetic over a & of digits '
            '((1&2)*3 = 36): in the minimal rendering arithmetic operands of & are bare (1+2&3 is "33"), a & operand of an '
            'arithmetic operator is parenthesised; non-trivial = every tree')
    min_cases = 20
    min_nontrivial = 1000

    def cases(self, tier, unit):
        n = 2
        xs = [t for k in range(n + 1) for t in _arith_trees(k)]
        for i in range(len(xs)):
            if tier != 'quick' or i < 60 or i % 6 == 0:       # quick: all trees of <= 1 operator, every sixth of the rest
                yield ['x', n, i]

    def check(self, env, case):
        if case[0] == 'tree':
            return check_tree(env, case[1])
        n, i = case[1], case[2]
        xs = [t for k in range(n + 1) for t in _arith_trees(k)]
        x = xs[i]
        ys = [t for k in range(2) for t in _arith_trees(k)]
        out = []
        for j, y in enumerate(ys):
            trees = [['b', '&', x, y]]
            if j % 4 == i % 4:
                trees.append(['b', '&', ['u', x], y])
                trees.append(['b', '&', ['b', '&', x, y], MIX_LEAVES[(i + j) % 6]])
                trees.append(['b', '&', x, ['b', '&', y, MIX_LEAVES[(i + j) % 6]]])
            for t in list(trees):
                exp = expect(t)
                if exp[0] == 'text' and '"' not in exp[1]:
                    trees.append(['b', '=', t, ['s', exp[1]]])
                    if exp[1].isdigit() and len(exp[1]) < 12:
                        trees.append(['b', '*', t, ['n', '3', [3, 1]]])
                        trees.append(['b', '-', ['n', '100', [100, 1]], t])
            for t in trees:
                f = check_tree(env, t, extras=(j % 7 == 0))
                if f:
                    out.append(f)
                    if len(out) > 3:
                        return out
        return out


class Deep(Sub):
    name = 'c04.deep'
    rule = ('deterministic left-nested, right-nested and alternating chains of depth 1..30 for each operator pattern, '
            'and towers of unary minus; non-trivial = depth >= 4')
    min_cases = 100
    min_nontrivial = 50
    PATTERNS = ('-', '/', '+-', '-+', '*/', '/*', '-*', '*-', '+/', '/-', '-/+*')

    def cases(self, tier, unit):
        for pi in range(len(self.PATTERNS)):
            for depth in range(1, 31):
                for nest in ('L', 'R', 'Z'):
                    yield ['chain', pi, depth, nest]
        for depth in range(1, 31):
            yield ['uminus', depth]

    def check(self, env, case):
        if case[0] == 'tree':
            return check_tree(env, case[1], extras=False)
        if case[0] == 'uminus':
            t = ['n', '3', [3, 1]]
            for i in range(case[1]):
                t = ['u', t]
            t2 = ['b', '-', ['v', 'va', 10], t]
            if case[1] >= 4:
                env.nt()
            return check_tree(env, t, extras=False) or check_tree(env, t2, extras=False)
        _, pi, depth, nest = case
        pat = self.PATTERNS[pi]
        vals = (1, 2, 3, 5, 7)
        leaf = lambda i: ['n', str(vals[i % 5]), [vals[i % 5], 1]] if i % 3 else ['v', F.VARNAMES[i % 8], vals[(i % 8) % 5]]
        t = leaf(0)
        if nest == 'L':
            for i in range(depth):
                t = ['b', pat[i % len(pat)], t, leaf(i + 1)]
        elif nest == 'R':
            t = leaf(depth)
            for i in range(depth - 1, -1, -1):
                t = ['b', pat[i % len(pat)], leaf(i), t]
        else:
            for i in range(depth):
                if i % 2:
                    t = ['b', pat[i % len(pat)], leaf(i + 1), t]
                else:
                    t = ['b', pat[i % len(pat)], t, leaf(i + 1)]
        if depth >= 4:
            env.nt()
        return check_tree(env, t, extras=False)



class ChainScale(Sub):
    name = 'c04.scale'
    rule = ('size ladder of the number n of operators in one formula: 1+1+...+1, 1-1-...-1 (left-associative: 2-n), 2*3+2*3+... , '
            '1+2*1+2*... (* before +), n parentheses around one term, -(-(...)) n unary minus signs, alternating +/- with a '
            'variable; exact integer results; non-trivial = all')
    min_cases = 40
    min_nontrivial = 40

    def cases(self, tier, unit):
        for n in scale(tier):
            yield [n]

    def check(self, env, case):
        n = case[0]
        env.nt()
        P = [('+'.join(['1'] * (n + 1)), n + 1), ('-'.join(['1'] * (n + 1)), 1 - n), ('+'.join(['2*3'] * n), 6 * n),
             ('1' + '+2*1' * n, 1 + 2 * n), ('100' + '-2*3' * n, 100 - 6 * n), ('2' + '*1' * n + '+1', 3),
             ('(' * min(n, 400) + '7' + ')' * min(n, 400), 7), ('-' * min(n, 400) + '5', 5 if min(n, 400) % 2 == 0 else -5),
             ('va' + ''.join('+va' if i % 2 else '-va' for i in range(n)), 7 if n % 2 == 0 else 0),
             ('1' + '+1' * n + '=' + str(n + 1), True), ('1' + '/1' * n, 1.0), ('64' + '/2' * min(n, 6), 64 / 2.0 ** min(n, 6))]
        out = []
        for f, want in P:
            o = env.evo(f, {'va': 7})
            if o != ['v', want] or type(o[1]) is not type(want):
                out.append(fail('a chain of %d operators (%s ... %s) gives %r, expected %r' % (n, f[:24], f[-12:], o, want), want, o))
                if len(out) >= 3:
                    break
        return out


SUBS = [Arith(), FloatGrouping(), Zero(), Compare(), Amp(), AmpArith(), Deep(), ChainScale()]
