# -*- coding: utf-8 -*-
"""C06 - arithmetic and concatenation follow the implicit type-conversion table (K3).

Every ordered pair of a scalar pool x {+,-,*,/} (three supply routes), flat arrays of length
1..4 and 2x2 nested arrays against scalars / equal-length arrays / arrays of another length,
and every ordered pair x '&', evaluated through Parser.parse and compared with a reference
that shares no code with hotxlfp:

  operand -> class   N number (int/float, TRUE/FALSE as 1/0, text spelling a number),
                     D date (date-time value -> serial = days since 1899-12-30 + day fraction;
                        ISO date text),
                     B blank (0),  T any other text (-> #VALUE!)
  value              exact Fraction arithmetic, zero divisor -> #DIV/0!
  result kind        KIND below - a transcription of the cells pinned by
                     /repo/tests/test_operators.py test_implicit_conversions_{number,date,bool,blank}
                     (NOT of hotxlfp/formulas/operators.py)
  date result, serial r:  r >= 61 -> 1899-12-30 + r days (+-0.5 ms);  r < 0 -> #NUM!;
                     0 <= r < 61 (before 1 Mar 1900, serial implementation-defined, C13) -> any
                     date-time in [1900-01-01, 1900-03-01] or #NUM!
"""
import datetime
import itertools
import re
from fractions import Fraction

from ..core import Sub, fail, enc, lit, close, isnum, scale

OPS = ('+', '-', '*', '/')
BASE = datetime.datetime(1899, 12, 30)
LOOSE_LO = datetime.datetime(1900, 1, 1)
LOOSE_HI = datetime.datetime(1900, 3, 1)
FIRST_EXACT = 61                       # serial of 1 March 1900
US_DAY = 86400 * 10 ** 6
EPS = Fraction(1, 10 ** 9)


def serial(dt):
    td = dt - BASE
    return Fraction(td.days) + Fraction(td.seconds * 10 ** 6 + td.microseconds, US_DAY)


MAX_SERIAL = serial(datetime.datetime(9999, 12, 31, 23, 59, 59))


def D(*a):
    return {'$dt': datetime.datetime(*a).isoformat()}


# ---------------------------------------------------------------------------- pools (JSON level)
INTS = [0, 1, -1, 2, 3, 7, -3, 43789]
DECS = [0.5, -2.5, 0.1, 2.675]
NUMTEXT = ['3', '-3', '3.5', '\x1f3.5', '2.5\x1c']        # the last two: padded with separator control characters, which count as blanks
BADTEXT = ['abc', '', '\u00b2', '\u2460\u2082',      # incl. digit-like characters that are not decimal digits
           'inf', 'nan', '-Infinity', '1_000',          # ... and what only a programming language reads as a number
           '99999999999999999999 1', '1.2.99999999999',  # ... and what a lenient date reader chokes on
           '1e999',                                      # ... and a spelling whose value no sheet can hold
           '1' * 29 + 'm', '2' * 40 + 'h']               # ... and digit runs with a unit letter (a date reader computes with them)
DATES = [D(2019, 11, 20), D(2000, 2, 29), D(1900, 3, 1)]
DATETIMES = [D(2019, 11, 20, 6, 0), D(2019, 11, 20, 18, 30, 15)]
DATETEXT = ['2019-11-20', '2019-11-20T00:00:00Z']      # the second: ISO text with a zone designator (same wall-clock date)
SCALARS = INTS + DECS + [True, False, None] + NUMTEXT + BADTEXT + DATES + DATETIMES + DATETEXT

E7 = [2, 0.5, True, None, 'abc', D(2019, 11, 20), 0]          # array elements
E4 = [2, None, 'abc', D(2019, 11, 20)]
E3 = [2, None, 'abc']
E2 = [2, 'abc']
EL = [2, 0.5, True, 'abc', -3]                                 # literal-able array elements
APOOLS = {'E7': E7, 'E4': E4, 'E3': E3, 'E2': E2, 'EL': EL}
S9 = [3, -2.5, False, None, '3', 'abc', D(2000, 2, 29), 0, D(2019, 11, 20, 6, 0)]   # scalars met by arrays
SL = [3, '3', False, 'abc', 0, None]                           # literal-able scalars met by literal arrays

CONCAT = SCALARS + [2.0, -3.0, 100.0, 1e15, 9007199254740992.0, 'a b', 'None', 200000000, '2.0', '10.00', '1e3', '007', '+3', ' 3', '3 ', 'TRUE', '1E2']

# ---------------------------------------------------------------------------- the conversion table
# 'd' = the result is a date, 'n' = a number.  Transcribed cell by cell from the tests:
#   number class N: plain numbers, TRUE/FALSE (test_implicit_conversions_bool) and numeric text
#   ('2 + "2"' = 4, 'DATE(2019,11,20) + "2"' = a date); D: dates and date-spelling text
#   ('DATE(1900;11;1) + "14/10/1900"' = 594, a number like date+date); B: blank (unset cell).
KIND = {
    '+': {('N', 'N'): 'n',   # 2 + 2 = 4, TRUE + 1 = 2
          ('N', 'D'): 'd',   # 2 + DATE(2019,11,20) = 2019-11-22; TRUE + DATE = 2019-11-21
          ('N', 'B'): 'n',   # 2 + B3 = 2
          ('D', 'N'): 'd',   # DATE + 2 = 2019-11-22
          ('D', 'D'): 'n',   # DATE + DATE = 87578
          ('D', 'B'): 'd',   # DATE + B3 = 2019-11-20
          ('B', 'N'): 'n',   # B3 + 1 = 1
          ('B', 'D'): 'd',   # B3 + DATE = 2019-11-20
          ('B', 'B'): 'n'},  # B3 + B4 = 0
    '-': {('N', 'N'): 'n',   # 2 - 2 = 0
          ('N', 'D'): 'd',   # 2 - DATE = #NUM! (a date before 1900; a number would be -43787)
          ('N', 'B'): 'n',   # 2 - B3 = 2
          ('D', 'N'): 'd',   # DATE - 2 = 2019-11-18
          ('D', 'D'): 'n',   # DATE - DATE = 0
          ('D', 'B'): 'd',   # DATE - B3 = 2019-11-20
          ('B', 'N'): 'n',   # B3 - 1 = -1
          ('B', 'D'): 'd',   # B3 - DATE = #NUM!
          ('B', 'B'): 'n'},  # B3 - B4 = 0
    '*': {('N', 'N'): 'n',   # 2 * 3.5 = 7
          ('N', 'D'): 'd',   # 2 * DATE = 2139-10-11
          ('N', 'B'): 'n',   # 2 * B3 = 0
          ('D', 'N'): 'd',   # DATE * 2 = 2139-10-11; DATE * FALSE = 1900-01-01
          ('D', 'D'): 'n',   # DATE * DATE = 1917476521
          ('D', 'B'): 'd',   # DATE * B3 = 1900-01-01
          ('B', 'N'): 'n',   # B3 * 1 = 0
          ('B', 'D'): 'd',   # B3 * DATE = 1900-01-01
          ('B', 'B'): 'n'},  # B3 * B4 = 0
    '/': {('N', 'N'): 'n',   # 2 / 4 = 0.5
          ('N', 'D'): 'd',   # 200000000 / DATE = 1912-07-02 08:34:13; TRUE / DATE = 1900-01-01
          ('N', 'B'): 'n',   # 2 / B3 = #DIV/0!
          ('D', 'N'): 'd',   # DATE / 2 = 1959-12-10 12:00
          ('D', 'D'): 'n',   # DATE / DATE = 1
          ('D', 'B'): 'd',   # DATE / B3 = #DIV/0!
          ('B', 'N'): 'n',   # B3 / 2 = 0
          ('B', 'D'): 'n',   # B3 / DATE = 0  (the one cell that differs from + - *)
          ('B', 'B'): 'n'},  # B3 / B4 = #DIV/0!
}

NUM_RE = re.compile(r'[+-]?(?:[0-9]+(?:\.[0-9]*)?|\.[0-9]+)\Z', re.ASCII)
ISO_RE = re.compile(r'(\d{4})-(\d{2})-(\d{2})(?:T00:00:00Z)?\Z')      # a midnight with a zone designator is that date

# delivery-channel and host-type differential (core.Env): of every 3 evaluations that bind variables, one is repeated with the
# values handed in by the cell/range listeners, one with the values returned by custom functions and one with every value an
# instance of a trivial subclass of its type (numpy.float64, IntEnum, rich-text str ... are such); outcomes must agree
CHANNELS = 3

BOUNDS = {
    'quick': '26 scalars (8 ints, 4 decimals, 2 logicals, blank, 5 numeric texts (two padded with control blanks), 2 other texts, 5 date(-time)s '
             '>= 1 Mar 1900, 1 ISO date text): all 676 ordered pairs x {+,-,*,/} x routes {variable, cell, '
             'literal}, + and * also reversed; & on all ordered pairs of 29 scalars x 3 routes; flat arrays of '
             'length 1..3 over 7 element values x 9 scalars x 4 ops x both sides; array x array: all pairs of '
             'length 1-2 over 7 values and of length 3 over 4 values; length mismatches {2,3} over 3 values and '
             '{2,4},{3,4} over 2 values; 2x2 nested arrays over 3 values vs scalars / same-shape nested / flat '
             'of length 3; literal arrays ({..} with , or ;) of length 1..3 over 5 values',
    'thorough': 'as quick, plus flat arrays of length 4 (2 401) vs scalars, all 117 649 pairs of length-3 arrays '
                'over 7 values, all pairs of length-4 arrays over 3 values, mismatches of lengths {2,3,4} over 4 '
                'values, 2x2 nested arrays over 4 values',
}
ASSUMPTIONS = [
    'result kind (date / number) per (operator, left class, right class) is the table pinned by '
    'tests/test_operators.py test_implicit_conversions_*: a date iff exactly one operand is date-typed, '
    'except blank/date (number)',
    'date results with serial in [0, 61) (before 1 Mar 1900) only have to be some date-time in '
    '[1900-01-01, 1900-03-01] or #NUM!; serial < 0 must be #NUM!; results beyond year 9999 are not demanded',
    'when a date-typed operand is *text* spelling a date the value is demanded but either result kind is '
    'accepted (the tests pin only date + date-text)',
    'non-numeric text against a zero divisor may give #VALUE! or #DIV/0!',
    'error operands are not part of C06 (C08); arrays of length 1 against longer arrays are not demanded; a '
    'length-1 array result may be a one-element list or the bare element; nested vs flat arrays of equal '
    'outer length and nested arrays with unequal inner lengths are not demanded',
    'dates are supplied as datetime.datetime values (datetime.date host values are not demanded)',
    '& : exact result demanded for text / int / blank operands; for float, logical and date operands only '
    'that the result is text, carries the demanded operand verbatim at its end of the result and that '
    'blank & x equals "" & x',
    'numbers compare with rel 1e-9 / abs 1e-12, dates within 0.5 ms',
]


# ---------------------------------------------------------------------------- reference model
def classify(v):
    """-> (class, value, is_text)"""
    if isinstance(v, bool):
        return ('N', Fraction(1 if v else 0), False)
    if isinstance(v, (int, float)):
        return ('N', Fraction(v), False)
    if v is None:
        return ('B', Fraction(0), False)
    if isinstance(v, datetime.datetime):
        return ('D', serial(v), False)
    if isinstance(v, str):
        if NUM_RE.match(v.strip()):      # blanks around it (what str.strip takes off, separator control characters included) do not count
            return ('N', Fraction(v.strip()), True)
        m = ISO_RE.match(v)
        if m:
            return ('D', serial(datetime.datetime(int(m.group(1)), int(m.group(2)), int(m.group(3)))), True)
        return ('T', None, True)
    raise ValueError('no class for %r' % (v,))


def ref_scalar(op, a, b):
    ka, va, ta = classify(a)
    kb, vb, tb = classify(b)
    if ka == 'T' or kb == 'T':
        if op == '/' and kb != 'T' and vb == 0:
            return ('errs', ('#VALUE!', '#DIV/0!'))
        return ('errs', ('#VALUE!',))
    if op == '+':
        r = va + vb
    elif op == '-':
        r = va - vb
    elif op == '*':
        r = va * vb
    else:
        if vb == 0:
            return ('errs', ('#DIV/0!',))
        r = va / vb
    kind = KIND[op][(ka, kb)]
    if (ka == 'D' and ta) or (kb == 'D' and tb):
        return ('either', r)
    return ('date' if kind == 'd' else 'num', r)


def ref_any(op, a, b):
    la, lb = isinstance(a, list), isinstance(b, list)
    if not la and not lb:
        return ref_scalar(op, a, b)
    if la and not lb:
        return [ref_any(op, x, b) for x in a]
    if lb and not la:
        return [ref_any(op, a, y) for y in b]
    if len(a) == len(b):
        return [ref_any(op, x, y) for x, y in zip(a, b)]
    if len(a) == 1 or len(b) == 1:
        return ('any',)
    return ('errs', ('#VALUE!',))


def dt_of(x):
    if isinstance(x, dict) and '$dt' in x:
        return datetime.datetime.fromisoformat(x['$dt'])
    if isinstance(x, dict) and '$d' in x:
        d = datetime.date.fromisoformat(x['$d'])
        return datetime.datetime(d.year, d.month, d.day)
    return None


def is_err(x, codes):
    return isinstance(x, dict) and x.get('$err') in codes


def num_ok(r, x):
    return isnum(x) and close(x, r)


def date_ok(r, x):
    if r > MAX_SERIAL:
        return True                     # beyond year 9999: not demanded
    if r < -EPS:
        return is_err(x, ('#NUM!',))
    dt = dt_of(x)
    if dt is not None and dt.tzinfo is not None:
        return False
    if r < FIRST_EXACT:
        if is_err(x, ('#NUM!',)):
            return True
        return dt is not None and LOOSE_LO <= dt <= LOOSE_HI
    if dt is None:
        return False
    td = dt - BASE
    us = td.days * US_DAY + td.seconds * 10 ** 6 + td.microseconds
    return abs(Fraction(us) - r * US_DAY) <= 500


def match(spec, x):
    if isinstance(spec, list):
        if isinstance(x, list):
            return len(x) == len(spec) and all(match(s, y) for s, y in zip(spec, x))
        return len(spec) == 1 and match(spec[0], x)
    tag = spec[0]
    if tag == 'any':
        return True
    if isinstance(x, list):
        return False
    if tag == 'errs':
        return is_err(x, spec[1])
    if tag == 'num':
        return num_ok(spec[1], x)
    if tag == 'date':
        return date_ok(spec[1], x)
    if tag == 'either':
        return num_ok(spec[1], x) or date_ok(spec[1], x)
    raise ValueError(spec)


def show(spec):
    if isinstance(spec, list):
        return [show(s) for s in spec]
    tag = spec[0]
    if tag == 'any':
        return 'not demanded'
    if tag == 'errs':
        return ' or '.join(spec[1])
    r = spec[1]
    if tag == 'num':
        return 'number %s' % (r if r.denominator == 1 else float(r))
    if r < -EPS:
        what = '#NUM! (date serial %s < 0)' % float(r)
    elif r < FIRST_EXACT:
        what = 'a date-time in [1900-01-01, 1900-03-01] or #NUM! (serial %s)' % float(r)
    elif r > MAX_SERIAL:
        what = 'not demanded (beyond year 9999)'
    else:
        what = 'date %s' % (BASE + datetime.timedelta(microseconds=round(r * US_DAY))).isoformat()
    if tag == 'either':
        return 'number %s or %s' % (float(r), what)
    return what


def leaf_classes(spec, acc):
    if isinstance(spec, list):
        for s in spec:
            leaf_classes(s, acc)
    else:
        acc.add(spec_class(spec))
    return acc


def spec_class(spec):
    if spec[0] == 'errs':
        return spec[1][0]
    if spec[0] in ('date', 'either'):
        r = spec[1]
        return spec[0] + ('<0' if r < -EPS else '<61' if r < FIRST_EXACT else '>9999' if r > MAX_SERIAL else '')
    return spec[0]


def top(out):
    """normalised parse outcome -> element-level JSON (an error at the top = an error value)"""
    if out[0] == 'v':
        return out[1]
    if out[0] == 'e':
        return {'$err': out[1]}
    return {'$escaped': out}


def same_outcome(x, y):
    """two observed element-level values are the same value (commutativity)"""
    if isinstance(x, list) or isinstance(y, list):
        return isinstance(x, list) and isinstance(y, list) and len(x) == len(y) and \
            all(same_outcome(p, q) for p, q in zip(x, y))
    dx, dy = dt_of(x), dt_of(y)
    if dx is not None or dy is not None:
        return dx is not None and dy is not None and abs((dx - dy).total_seconds()) <= 0.001
    if isnum(x) and isnum(y):
        return close(x, y)
    return x == y


# ---------------------------------------------------------------------------- supply routes
class NoRoute(Exception):
    pass


def literal(v, sep=',', blank='B3'):
    if v is None:
        return blank
    if isinstance(v, datetime.datetime):
        raise NoRoute()
    if isinstance(v, list):
        if v and all(isinstance(x, list) for x in v):
            if len(v) != 2:
                raise NoRoute()
            return '{' + ';'.join(','.join(literal_elem(y) for y in row) for row in v) + '}'
        return '{' + sep.join(literal_elem(x) for x in v) + '}'
    return lit(v)


def literal_elem(v):
    if v is None or isinstance(v, (list, datetime.datetime)):
        raise NoRoute()
    return lit(v)


def evaluate(env, route, op, a, b):
    """-> element-level JSON of `a op b` with the operands supplied by `route`"""
    if route == 'var':
        return top(env.evo('xa%sxb' % op, vars={'xa': a, 'xb': b}))
    if route == 'cell':
        if isinstance(a, list) or isinstance(b, list):
            raise NoRoute()
        cells = {}
        if a is not None:
            cells['A1'] = a
        if b is not None:
            cells['B1'] = b
        return top(env.evo('A1%sB1' % op, cells=cells))
    if route in ('lit', 'lit;'):
        sep = ';' if route == 'lit;' else ','
        return top(env.evo(literal(a, sep, 'B3') + op + literal(b, sep, 'C4')))
    raise ValueError(route)


def has_route(route, a, b):
    if route == 'var':
        return True
    try:
        if route == 'cell':
            if isinstance(a, list) or isinstance(b, list):
                return False
            return True
        literal(a, ',')
        literal(b, ',')
        return True
    except (NoRoute, ValueError):
        return False


def describe(route, op, a, b):
    if route == 'var':
        return 'xa%sxb with xa=%r, xb=%r' % (op, a, b)
    if route == 'cell':
        return 'A1%sB1 with A1=%r, B1=%r' % (op, a, b)
    sep = ';' if route == 'lit;' else ','
    return literal(a, sep, 'B3') + op + literal(b, sep, 'C4') + ('  (B3, C4 unset)' if a is None or b is None else '')


def check_one(env, route, op, a, b):
    """a, b: decoded python values.  -> None | fail"""
    commute = not isinstance(a, list) and not isinstance(b, list)
    spec = ref_any(op, a, b)
    got = evaluate(env, route, op, a, b)
    if isinstance(spec, list):
        for c in leaf_classes(spec, set()):
            env.note('%s:[%s]' % (op, c))
    else:
        env.note('%s:%s' % (op, spec_class(spec)))
    narrow = ['one', route, op, enc(a), enc(b)]
    if not match(spec, got):
        return fail('%s = %s; expected %s' % (describe(route, op, a, b), short(got), short(show(spec))),
                    show(spec), got, case=narrow)
    if commute and op in '+*':
        rev = evaluate(env, route, op, b, a)
        if not same_outcome(got, rev):
            return fail('%s is not commutative: %s = %s but reversed = %s' % (
                op, describe(route, op, a, b), short(got), short(rev)), got, rev, case=narrow)
    return None


def short(x):
    s = repr(x)
    return s if len(s) <= 160 else s[:157] + '...'


def arrays(pool, length):
    return itertools.product(pool, repeat=length)


class Base(Sub):
    def check(self, env, case):
        if case[0] == 'one':
            _, route, op, a, b = case
            return check_one(env, route, op, env.dec(a), env.dec(b))
        out = []
        for f in self.block(env, case):
            if f:
                out.append(f)
                if len(out) >= 12:
                    break
        return out


# ---------------------------------------------------------------------------- sub-checks
class ScalarPairs(Base):
    name = 'c06.scalar_pairs'
    rule = ('every ordered pair of the 26-value scalar pool x {+,-,*,/} x routes {variable, cell, literal '
            '(no dates; blank = unset cell)}; value, result kind and (for + *) equality with the reversed '
            'evaluation; non-trivial = at least one operand is not a plain int/float')
    min_cases = 200
    min_nontrivial = 1000
    min_classes = 12
    ROUTES = ('var', 'cell', 'lit')

    def cases(self, tier, unit):
        for route in self.ROUTES:
            for op in OPS:
                for ia in range(len(SCALARS)):
                    yield ['blk', route, op, ia]

    def block(self, env, case):
        _, route, op, ia = case
        a = env.dec(SCALARS[ia])
        for jb in SCALARS:
            b = env.dec(jb)
            if not has_route(route, a, b):
                continue
            if not (isnum(a) and isnum(b)):
                env.nt()
            yield check_one(env, route, op, a, b)


class ArrayScalar(Base):
    name = 'c06.array_scalar'
    rule = ('every flat array of length 1..L over 7 element values (int, decimal, logical, blank, text, date, 0) '
            'x 9 scalars x {+,-,*,/} x array on the left / on the right, as variables: element-wise reference; '
            'non-trivial = array of length >= 2')
    min_cases = 50
    min_nontrivial = 5000
    min_classes = 12

    def cases(self, tier, unit):
        maxlen = 3 if tier == 'quick' else 4
        for op in OPS:
            yield ['blk', op, 1, -1]
            for length in range(2, maxlen + 1):
                for first in range(len(E7)):
                    yield ['blk', op, length, first]

    def block(self, env, case):
        _, op, length, first = case
        scal = [env.dec(s) for s in S9]
        pool = [env.dec(e) for e in E7]
        if length == 1:
            arrs = [[e] for e in pool]
        else:
            arrs = ([pool[first]] + list(t) for t in arrays(pool, length - 1))
        for arr in arrs:
            for s in scal:
                if length >= 2:
                    env.nt(2)
                yield check_one(env, 'var', op, list(arr), s)
                yield check_one(env, 'var', op, s, list(arr))


class ArrayArray(Base):
    name = 'c06.array_array'
    rule = ('every ordered pair of flat arrays of equal length (1-2 over 7 values, 3 over 4 [quick] / 7 '
            '[thorough] values, 4 over 3 values [thorough]) x {+,-,*,/}: element-wise reference; '
            'non-trivial = length >= 2')
    min_cases = 100
    min_nontrivial = 5000
    min_classes = 4

    def plan(self, tier):
        if tier == 'quick':
            return [(1, 'E7'), (2, 'E7'), (3, 'E4')]
        return [(1, 'E7'), (2, 'E7'), (3, 'E7'), (4, 'E3')]

    def cases(self, tier, unit):
        for length, pid in self.plan(tier):
            n = len(APOOLS[pid])
            for op in OPS:
                for left in arrays(range(n), length):
                    yield ['blk', op, pid, list(left)]

    def block(self, env, case):
        _, op, pid, left = case
        pool = [env.dec(e) for e in APOOLS[pid]]
        a = [pool[i] for i in left]
        for right in arrays(pool, len(left)):
            if len(left) >= 2:
                env.nt()
            yield check_one(env, 'var', op, list(a), list(right))


class Mismatch(Base):
    name = 'c06.array_mismatch'
    rule = ('every ordered pair of flat arrays of different lengths, both >= 2 (lengths {2,3} over 3 values and '
            '{2,4},{3,4} over 2 values [quick]; {2,3,4} over 4 values [thorough]) x {+,-,*,/}: #VALUE!; '
            'non-trivial = all')
    min_cases = 50
    min_nontrivial = 1000

    def plan(self, tier):
        if tier == 'quick':
            return [(2, 3, 'E3'), (3, 2, 'E3'), (2, 4, 'E2'), (4, 2, 'E2'), (3, 4, 'E2'), (4, 3, 'E2')]
        return [(p, q, 'E4') for p in (2, 3, 4) for q in (2, 3, 4) if p != q]

    def cases(self, tier, unit):
        for la, lb, pid in self.plan(tier):
            n = len(APOOLS[pid])
            for op in OPS:
                for left in arrays(range(n), la):
                    yield ['blk', op, pid, lb, list(left)]

    def block(self, env, case):
        _, op, pid, lb, left = case
        pool = [env.dec(e) for e in APOOLS[pid]]
        a = [pool[i] for i in left]
        for right in arrays(pool, lb):
            env.nt()
            yield check_one(env, 'var', op, list(a), list(right))


class OneItem(Sub):
    name = 'c06.one_item'
    rule = ('a one-item array {a} against every array of 2..3 items over a 5-value pool, + and * in both orders (host lists and '
            'literals): x+y and y+x, x*y and y*x give the same outcome (commutativity; whether a one-item array broadcasts or is a '
            'length mismatch is not fixed, but it cannot depend on the side); the empty list against lists of 0..3 items and scalars; '
            'non-trivial = all')
    min_cases = 10
    min_nontrivial = 100
    POOL = [2, 0.5, -3, 'abc', None]

    def cases(self, tier, unit):
        for a in range(len(self.POOL)):
            for n in (2, 3):
                yield [a, n]
        yield ['empty', 0]

    def check(self, env, case):
        ai, n = case
        out = []
        if ai == 'empty':
            # a list without items (a range without cells) on either side of lists of 0..3 items and of scalars
            others = [[], [2], [[2]], [2, 0.5], ['abc', 2, -3], 2, 'abc', None]
            for other in others:
                for op in ('+', '*', '-', '/'):
                    env.nt()
                    vars_ = {'xa': [], 'xb': other}
                    o1, o2 = env.evo('xa%sxb' % op, vars_), env.evo('xb%sxa' % op, vars_)
                    if op in '+*' and o1 != o2:
                        out.append(fail('xa%sxb = %r but xb%sxa = %r with xa = [], xb = %r (%s is commutative)' % (op, o1, op, o2, other, op),
                                        o2, o1))
                    if isinstance(other, list) and len(other) > 1 and not (o1 == ['e', '#VALUE!'] and o2 == ['e', '#VALUE!']):
                        out.append(fail('[] %s %r gives %r and the other way round %r: arrays of unequal length (0 and %d), #VALUE! expected' % (
                            op, other, o1, o2, len(other)), ['e', '#VALUE!'], o1))
            return out[:4]
        a = self.POOL[ai]
        for items in itertools.product(self.POOL[:4], repeat=n):
            for op in ('+', '*'):
                env.nt()
                forms = [({'xa': [a], 'xb': list(items)}, 'xa%sxb' % op, 'xb%sxa' % op)]
                if a is not None:
                    la, lb = '{%s}' % lit(a), '{%s}' % ','.join(lit(v) for v in items)
                    forms.append((None, la + op + lb, lb + op + la))
                for vars_, f1, f2 in forms:
                    o1, o2 = env.evo(f1, vars_), env.evo(f2, vars_)
                    if o1 != o2:
                        out.append(fail('%s = %r but %s = %r%s (%s is commutative)' % (
                            f1, o1, f2, o2, (' with xa = %r, xb = %r' % ([a], list(items))) if vars_ else '', op), o2, o1))
                        if len(out) >= 4:
                            return out
        return out


class Extremes(Sub):
    name = 'c06.extremes'
    rule = ('every ordered pair over {+-1e308, +-1.7976931348623157e308, 1e-320, 5e-324, 1e200, 1e-200, 2, 0.5, 10, 0} x + - * / '
            '(variables): the exact result rounded to a double where it is one (subnormals and 0 included); where the exact '
            'result lies beyond the largest double an error value - an infinity or a NaN is not a number; non-trivial = all')
    min_cases = 10
    min_nontrivial = 500
    POOL = [1e308, -1e308, 1.7976931348623157e308, -1.7976931348623157e308, 1e-320, 5e-324, 1e200, 1e-200, 2, 0.5, 10, 0]

    def cases(self, tier, unit):
        for i in range(len(self.POOL)):
            yield [i]

    def check(self, env, case):
        from fractions import Fraction as Fr
        a = self.POOL[case[0]]
        out = []
        MAXD = Fr(1.7976931348623157e308)
        for b in self.POOL:
            for op in OPS:
                env.nt()
                o = env.evo('xa%sxb' % op, {'xa': a, 'xb': b})
                if op == '/' and b == 0:
                    want = 'div0'
                else:
                    exact = {'+': Fr(a) + Fr(b), '-': Fr(a) - Fr(b), '*': Fr(a) * Fr(b), '/': (Fr(a) / Fr(b)) if b else None}[op]
                    want = 'err' if abs(exact) > MAXD * (1 + Fr(1, 2 ** 54)) else exact
                if want == 'div0':
                    ok = o == ['e', '#DIV/0!']
                elif want == 'err':
                    ok = o[0] == 'e'
                else:
                    ok = o[0] == 'v' and isinstance(o[1], (int, float)) and not isinstance(o[1], bool) and (
                        abs(Fr(o[1]) - want) <= max(abs(want) / 2 ** 52, Fr(5e-324)))
                if not ok:
                    out.append(fail('xa%sxb with xa = %r, xb = %r gives %r, expected %s' % (
                        op, a, b, o, '#DIV/0!' if want == 'div0' else ('an error (the exact result is beyond the largest double)'
                                                                      if want == 'err' else repr(float(want)))),
                        None if isinstance(want, str) else float(want), o))
                    if len(out) >= 4:
                        return out
        return out


class RangeShapes(Sub):
    name = 'c06.range_shapes'
    rule = ('arrays as a host delivers ranges - one row [[a,b,c]], one column [[a],[b],[c]], one cell [[a]] - x + - * / against '
            'a range of the same shape (element-wise, same shape back), against a scalar, and a one-cell range against a row or '
            'column (acts as its item) over a 4-value pool; non-trivial = all')
    min_cases = 4
    min_nontrivial = 500
    POOL = [2, -0.5, 10, 3]

    def cases(self, tier, unit):
        for op in OPS:
            yield [op]

    def check(self, env, case):
        from fractions import Fraction as Fr
        op = case[0]
        out = []

        def ar(a, b):
            if op == '/' and b == 0:
                return None
            return float({'+': Fr(a) + Fr(b), '-': Fr(a) - Fr(b), '*': Fr(a) * Fr(b), '/': Fr(a) / Fr(b)}[op])
        P = self.POOL
        for xs in itertools.product(P, repeat=3):
            for ys in ((P[1], P[0], P[3]), (P[2], P[2], P[1])):
                env.nt()
                probes = [([list(xs)], [list(ys)], [[ar(a, b) for a, b in zip(xs, ys)]]),
                          ([[a] for a in xs], [[b] for b in ys], [[ar(a, b)] for a, b in zip(xs, ys)]),
                          ([list(xs)], ys[0], [[ar(a, ys[0]) for a in xs]]), (ys[0], [[a] for a in xs], [[ar(ys[0], a)] for a in xs]),
                          ([[ys[1]]], [list(xs)], [[ar(ys[1], a) for a in xs]]), ([[a] for a in xs], [[ys[1]]], [[ar(a, ys[1])] for a in xs]),
                          ([[xs[0]]], [[ys[0]]], [[ar(xs[0], ys[0])]])]
                for a, b, want in probes:
                    o = env.evo('xa%sxb' % op, {'xa': a, 'xb': b})

                    def same(x, y):
                        if isinstance(y, list):
                            return isinstance(x, list) and len(x) == len(y) and all(same(p, q) for p, q in zip(x, y))
                        return isinstance(x, (int, float)) and not isinstance(x, bool) and close(x, y)
                    flat = lambda v: [t for r in v for t in r] if v and isinstance(v[0], list) else v
                    ok = o[0] == 'v' and (same(o[1], want) or same(o[1], flat(want)) or (len(flat(want)) == 1 and same(o[1], flat(want)[0])))
                    if not ok:
                        out.append(fail('xa%sxb with xa = %r, xb = %r (ranges as the host delivers them) gives %r, expected %r element-wise' % (
                            op, a, b, o, want), want, o))
                        if len(out) >= 4:
                            return out
        return out


class JoinRoundTrip(Sub):
    name = 'c06.join_round_trip'
    rule = ('a number or a date-time joined into text with & spells that value: ("" & x) used as a number again is x EXACTLY for 60 '
            'floats of 1..17 significant digits (sums of decimals, thirds, large and tiny magnitudes, adjacent doubles) and integers '
            'to 2^63 and of 4300 / 4301 / 5001 digits, so that "=" & MAX(xs) is a criterion that selects MAX(xs); DATEVALUE(d & "") = DATEVALUE(d) to half a '
            'millisecond for date-times with and without milliseconds; non-trivial = all')
    min_cases = 50
    min_nontrivial = 50

    def values(self):
        import math
        v = [0.1 + 0.2, 1 / 3, 2 / 3, 0.1, 1e-7, 1.5e-10, 123456789.123456789, 9007199254740991.0, 0.30000000000000004, 5e-324,
             1.7976931348623157e308, 1e22, 1e21, 123456.7, -2.675, 2.5, 1e15 + 0.5, 0.999999999999999, 1.0000000000000002,
             math.pi, math.e, 1 / 7, 100 / 3, 1e-5, 0.000123456789012345, 7.1, 6.02e23]
        v += [math.nextafter(x, math.inf) for x in (0.3, 1.0, 1e6, 1e-6, 123.456)]
        v += [x * 1.0000000000000004 for x in (3.3, 77.7, 1e9 + 0.1)]
        v += [-x for x in v[:12]]
        v += [0, 1, -1, 2 ** 53, 2 ** 53 + 1, 2 ** 63 - 1, -2 ** 62, 10 ** 15, 10 ** 20 + 1, 123456789012345678]
        v += [10 ** 4299 + 7, 10 ** 4300 + 7, -(10 ** 5000 + 1)]      # whole numbers of 4300, 4301 and 5001 digits join as their digits too
        return v

    def cases(self, tier, unit):
        for i in range(len(self.values())):
            yield ['n', i]
        for iso in ('2021-06-15T13:45:30.250000', '2021-06-15T13:45:30', '2021-06-15T00:00:00', '1999-12-31T23:59:59.999000',
                    '2000-02-29T12:00:00.001000', '9999-12-31T23:59:59.999000', '1900-03-01T00:00:00.500000'):
            yield ['d', iso]

    def check(self, env, case):
        env.nt()
        if case[0] == 'n':
            x = self.values()[case[1]]
            out = []
            for f in ('(""&xa)*1', '(xa&"")+0', 'COUNTIF(xl,"="&xa)', 'SUMIF(xl,"<="&xa)-xa', 'MATCH(xa,xl,0)&"|"&COUNTIF(xl,"="&MAX(xl))'):
                o = env.evo(f, {'xa': x, 'xl': [x]})
                want = {0: x, 1: x, 2: 1, 3: 0, 4: '1|1'}[('(""&xa)*1', '(xa&"")+0', 'COUNTIF(xl,"="&xa)', 'SUMIF(xl,"<="&xa)-xa',
                                                           'MATCH(xa,xl,0)&"|"&COUNTIF(xl,"="&MAX(xl))').index(f)]
                got = env.dec(o[1]) if o[0] == 'v' else None
                if o[0] != 'v' or got != want or (isinstance(want, (int, float)) and isinstance(got, bool)):
                    big = isinstance(x, int) and abs(x) >= 10 ** 400
                    out.append(fail('%s with xa = %s, xl = [xa] gives %s, expected %s: the text & makes of a number must spell that number' % (
                        f, ('a whole number of %d bits' % x.bit_length()) if big else repr(x), repr(o)[:200],
                        'xa' if big and want is x else repr(want) if not big else want), enc(want), o if not big else [o[0], repr(o[1])[:100]]))
                    break
            return out
        t = datetime.datetime.fromisoformat(case[1])
        a = env.evo('DATEVALUE(xd&"")-DATEVALUE(xd)', {'xd': t})
        b = env.evo('(xd&"")-xd', {'xd': t})
        bad = [o for o in (a, b) if o[0] != 'v' or not isinstance(o[1], (int, float)) or abs(o[1]) > 0.5 / 86400000]
        if bad:
            return fail('a date-time joined into text and read back: DATEVALUE(xd&"")-DATEVALUE(xd) = %r, (xd&"")-xd = %r with xd = %s; '
                        'expected 0 to half a millisecond' % (a, b, t.isoformat()), 0, bad[0])
        return None


class Nested(Base):
    name = 'c06.nested'
    rule = ('every 2x2 nested array over 3 [quick] / 4 [thorough] element values x {+,-,*,/} against: 9 scalars '
            '(both sides), every same-shape nested array (element-wise), every flat array of length 3 over 3 '
            'values (both sides, #VALUE!); non-trivial = all')
    min_cases = 50
    min_nontrivial = 5000
    min_classes = 4

    def cases(self, tier, unit):
        pid = 'E3' if tier == 'quick' else 'E4'
        n = len(APOOLS[pid])
        for op in OPS:
            for idx in arrays(range(n), 4):
                for mode in ('ns', 'nn', 'nm'):
                    yield [mode, op, pid, list(idx)]

    def block(self, env, case):
        mode, op, pid, idx = case
        pool = [env.dec(e) for e in APOOLS[pid]]

        def nest(t):
            return [[t[0], t[1]], [t[2], t[3]]]
        a = [pool[i] for i in idx]
        if mode == 'ns':
            for s in S9:
                s = env.dec(s)
                env.nt(2)
                yield check_one(env, 'var', op, nest(a), s)
                yield check_one(env, 'var', op, s, nest(a))
        elif mode == 'nn':
            for right in arrays(pool, 4):
                env.nt()
                yield check_one(env, 'var', op, nest(a), nest(right))
        else:
            flat_pool = [env.dec(e) for e in E3]
            for flat in arrays(flat_pool, 3):
                env.nt(2)
                yield check_one(env, 'var', op, nest(a), list(flat))
                yield check_one(env, 'var', op, list(flat), nest(a))


class LiteralArrays(Base):
    name = 'c06.array_literal'
    rule = ('literal arrays {..} written with , and with ; of length 1..3 over {2, 0.5, TRUE, "abc", -3} x '
            '{+,-,*,/}: against 6 literal scalars (both sides; blank = unset cell), against every literal array '
            'of length 2 (equal length / mismatch), and 2x2 literal arrays {a,b;c,d} against the scalars; '
            'non-trivial = all')
    min_cases = 50
    min_nontrivial = 2000
    min_classes = 4

    def cases(self, tier, unit):
        for op in OPS:
            for route in ('lit', 'lit;'):
                for length in (1, 2, 3):
                    for left in arrays(range(len(EL)), length):
                        yield ['la', route, op, list(left)]
            for left in arrays(range(len(EL)), 2):
                yield ['l2', 'lit', op, list(left)]

    def block(self, env, case):
        mode, route, op, left = case
        a = [EL[i] for i in left]
        if mode == 'la':
            for s in SL:
                env.nt(2)
                yield check_one(env, route, op, list(a), s)
                yield check_one(env, route, op, s, list(a))
            for right in arrays(EL, 2):
                if len(a) == 1:
                    continue
                env.nt()
                yield check_one(env, route, op, list(a), list(right))
                if len(a) != 2:
                    yield check_one(env, route, op, list(right), list(a))
        else:
            for tail in arrays(EL, 2):
                nested = [list(a), list(tail)]
                for s in SL:
                    if s is None:
                        continue
                    env.nt(2)
                    yield check_one(env, 'lit', op, nested, s)
                    yield check_one(env, 'lit', op, s, nested)


def text_of(v):
    """the demanded rendering under & (None = not demanded for this operand)"""
    if v is None:
        return ''
    if isinstance(v, bool):
        return None
    if isinstance(v, int):
        return str(v)
    if isinstance(v, float) and v.is_integer() and abs(v) <= 2 ** 53:
        return str(int(v))       # an integer is an integer however it arrives (4/2, a float-typed cell): its digits
    if isinstance(v, str):
        return v
    return None


class Concat(Sub):
    name = 'c06.concat'
    rule = ('every ordered pair of 38 scalars (the scalar pool + "a b", "None", 200000000 and numeric-looking texts "2.0", "10.00", "1e3", "007", "+3", " 3", "3 ", "TRUE", "1E2", which join verbatim) under & x routes '
            '{variable, cell, literal}: exact string for text / int / blank operands; for float / logical / date '
            'operands: text result, demanded side verbatim, blank & x = "" & x; non-trivial = both operands '
            'demanded and not both text')
    min_cases = 60
    min_nontrivial = 500
    min_classes = 3
    ROUTES = ('var', 'cell', 'lit')

    def cases(self, tier, unit):
        for route in self.ROUTES:
            for ia in range(len(CONCAT)):
                yield ['blk', route, ia]

    def check(self, env, case):
        if case[0] == 'one':
            return self.one(env, case[1], env.dec(case[2]), env.dec(case[3]))
        _, route, ia = case
        a = env.dec(CONCAT[ia])
        out = []
        for jb in CONCAT:
            b = env.dec(jb)
            if not has_route(route, a, b):
                continue
            f = self.one(env, route, a, b)
            if f:
                out.append(f)
                if len(out) >= 12:
                    break
        return out

    def one(self, env, route, a, b):
        got = evaluate(env, route, '&', a, b)
        sa, sb = text_of(a), text_of(b)
        narrow = ['one', route, enc(a), enc(b)]
        where = describe(route, '&', a, b)
        if sa is not None and sb is not None:
            if not (isinstance(a, str) and isinstance(b, str)):
                env.nt()
            env.note('exact')
            if got != sa + sb or not isinstance(got, str):
                return fail('%s = %r; expected %r' % (where, got, sa + sb), sa + sb, got, case=narrow)
            return None
        env.note('partly demanded' if (sa is not None or sb is not None) else 'rendering not demanded')
        if not isinstance(got, str):
            return fail('%s = %r; expected a text result' % (where, got), 'text', got, case=narrow)
        if sa is not None:
            other = evaluate(env, route, '&', '', b)
            if not isinstance(other, str) or got != sa + other:
                return fail('%s = %r; expected %r followed by the text of the right operand ("" & right = %r)'
                            % (where, got, sa, other), [sa, other], got, case=narrow)
        if sb is not None:
            other = evaluate(env, route, '&', a, '')
            if not isinstance(other, str) or got != other + sb:
                return fail('%s = %r; expected the text of the left operand (left & "" = %r) followed by %r'
                            % (where, got, other, sb), [other, sb], got, case=narrow)
        return None


class ConcatArrays(Sub):
    name = 'c06.concat_arrays'
    rule = ('& over arrays, like the arithmetic operators: every flat array of length 1..3 over {text, integer, blank, 0} joined with '
            'each of 5 scalars on either side and with every array of the same length is the list of the joined items; lengths 2 '
            'against 3 give #VALUE!; host lists and (without blanks) literal arrays; non-trivial = all')
    min_cases = 20
    min_nontrivial = 500
    POOL = ['ab', 7, None, 0]
    SCAL = ['x', 12, None, '', -3]

    @staticmethod
    def t(v):
        return '' if v is None else str(v)

    def cases(self, tier, unit):
        for n in (1, 2, 3):
            for items in itertools.product(range(len(self.POOL)), repeat=n):
                yield [list(items)]

    def check(self, env, case):
        a = [self.POOL[i] for i in case[0]]
        out = []

        def demand(f, vars_, want):
            env.nt()
            o = env.evo(f, vars_)
            if o != (['e', want[1]] if isinstance(want, tuple) else ['v', want]):
                out.append(fail('%s%s = %r, expected %r (& combines arrays item by item, as + does)' % (
                    f, (' with %r' % vars_) if vars_ else '', o, want), want, o))
        for sc in self.SCAL:
            if len(a) > 1:
                demand('xa&xs', {'xa': a, 'xs': sc}, [self.t(x) + self.t(sc) for x in a])
                demand('xs&xa', {'xa': a, 'xs': sc}, [self.t(sc) + self.t(x) for x in a])
        if len(a) > 1:
            for other in itertools.product(self.POOL, repeat=len(a)):
                demand('xa&xb', {'xa': a, 'xb': list(other)}, [self.t(x) + self.t(y) for x, y in zip(a, other)])
                if len(out) > 3:
                    break
            longer = a + ['z'] if len(a) == 2 else a[:2]
            demand('xa&xb', {'xa': a, 'xb': longer}, ('e', '#VALUE!'))
            demand('xb&xa', {'xa': a, 'xb': longer}, ('e', '#VALUE!'))
            if None not in a:
                la = '{%s}' % ','.join(lit(x) for x in a)
                demand(la + '&"x"', None, [self.t(x) + 'x' for x in a])
                demand('12&' + la, None, ['12' + self.t(x) for x in a])
        return out[:4]


EARLY = [D(1900, 1, 1), D(1900, 1, 2), D(1900, 2, 28), D(1900, 1, 1, 12, 0)]
EARLY_NUMS = [0, 1, 2, -1, 0.5, True, None, '0', '2']


class EarlyDates(Sub):
    name = 'c06.early_dates'
    rule = ('dates before 1 March 1900 (whose serial C13 leaves to the implementation) against numbers under + - * / on '
            'either side, as variables and as DATE() calls: the operation must agree with the implementation\'s OWN serial '
            'of that date (DATEVALUE): a zero divisor - including a date whose serial is 0 - gives exactly #DIV/0!, and no '
            'other combination may give #ERROR! or #DIV/0!; non-trivial = divisor is a date')
    min_cases = 100
    min_nontrivial = 20

    def cases(self, tier, unit):
        for di in range(len(EARLY)):
            for ni in range(len(EARLY_NUMS)):
                for op in ('+', '-', '*', '/'):
                    for side in (0, 1):
                        for route in ('var', 'call'):
                            yield [di, ni, op, side, route]

    def check(self, env, case):
        di, ni, op, side, route = case
        d = env.dec(EARLY[di])
        n = EARLY_NUMS[ni]
        if route == 'call' and (d.hour or d.minute):
            return None
        dtext = 'xd' if route == 'var' else 'DATE(%d,%d,%d)' % (d.year, d.month, d.day)
        s = env.evo('DATEVALUE(%s)' % dtext, vars={'xd': d})
        if s[0] != 'v' or isinstance(s[1], bool) or not isinstance(s[1], (int, float)):
            return fail('DATEVALUE(%s) with xd = %s is not a number: %r' % (dtext, d, s))
        sv = s[1]
        nv = {None: 0, True: 1, '0': 0, '2': 2}.get(n, n) if not isinstance(n, float) else n
        formula = ('%s%sxn' % (dtext, op)) if side == 0 else ('xn%s%s' % (op, dtext))
        got = env.evo(formula, vars={'xd': d, 'xn': n})
        divisor = nv if side == 0 else sv
        if op == '/' and side == 1:
            env.nt()
        where = '%s with xd = %s (own serial %r), xn = %r' % (formula, d.isoformat(), sv, n)
        if op == '/' and divisor == 0:
            if got != ['e', '#DIV/0!']:
                return fail('%s: the divisor is zero, expected #DIV/0!, got %r' % (where, got), ['e', '#DIV/0!'], got)
            return None
        if got[0] in ('x', 'bad') or got in (['e', '#ERROR!'], ['e', '#DIV/0!'], ['e', '#VALUE!'], ['e', '#NAME?']):
            return fail('%s: both operands have numeric values and the divisor is not zero, got %r' % (where, got),
                        'a number, a date or #NUM!', got)
        return None


EXACT_POOL = [1.0, 0, 1, 2.0, -1, 2, 3, 7, 0.0, True, False, None, '3', '-12', '+5', '0', '007',
              2 ** 53, 2 ** 53 + 1, 10 ** 17 + 1, -(2 ** 53 + 1), '9007199254740993',
              '-' + '0' * 40000 + '5']      # the last: forty thousand leading zeros spell no larger a number


def exact_int(v):
    """the integer a value stands for under + - *, or None when it is not integer-typed"""
    if v is None:
        return 0
    if isinstance(v, bool):
        return 1 if v else 0
    if isinstance(v, int):
        return v
    if isinstance(v, str):
        sign = -1 if v.startswith('-') else 1
        return sign * int(v.lstrip('+-').lstrip('0') or '0')
    return None


def _brief(v):
    r = repr(v)
    return r if len(r) < 60 else '%s...%s (%d characters)' % (r[:12], r[-6:], len(v))


class WholeWithFloat(Sub):
    name = 'c06.whole_with_float'
    rule = ('every pair of a whole number beyond 2^53 (2^53+1, 10^17+1, 10^20+1, 10^308, 10^310, 2^1024, 3*10^400, both signs; as '
            'a variable and written as a literal) with a float (0.0, 0.001, 0.5, 1.0, -2.5, 1e-300, 1e10, 2^53, 1e17, 1e20, 1e308, '
            '5e-324; a variable) under + - * / in both orders: "the exact arithmetic on those values" - the exact rational '
            'result rounded ONCE to a double where it is one (the interpreter\'s own mixed arithmetic rounds the whole number '
            'first, or refuses it: 10^310*0.001 is 1e307, (2^53+1)-2^53 as a float is 1), #DIV/0! for a zero divisor, an '
            'error where the exact result is beyond the largest double; non-trivial = all')
    min_cases = 10
    min_nontrivial = 800
    WHOLES = [2 ** 53 + 1, -(2 ** 53 + 1), 10 ** 17 + 1, 10 ** 20 + 1, 10 ** 308, 10 ** 310, -(10 ** 310), 2 ** 1024, 3 * 10 ** 400]
    FLOATS = [0.0, 0.001, 0.5, 1.0, -2.5, 1e-300, 1e10, 9007199254740992.0, 1e17, 1e20, 1e308, 5e-324]

    def cases(self, tier, unit):
        for i in range(len(self.WHOLES)):
            for literal in (0, 1):
                yield [i, literal]

    def check(self, env, case):
        from fractions import Fraction as Fr
        w = self.WHOLES[case[0]]
        out = []
        MAXD = Fr(1.7976931348623157e308)
        wtext = ('(0-%d)' % -w) if w < 0 else str(w)
        for f in self.FLOATS:
            for op in OPS:
                for whole_left in (True, False):
                    env.nt()
                    if case[1]:
                        text = ('%s%sxf' % (wtext, op)) if whole_left else ('xf%s%s' % (op, wtext))
                        o = env.evo(text, {'xf': f})
                    else:
                        text = ('xw%sxf' % op) if whole_left else ('xf%sxw' % op)
                        o = env.evo(text, {'xw': w, 'xf': f})
                    a, b = (w, f) if whole_left else (f, w)
                    if op == '/' and b == 0:
                        want = 'div0'
                    else:
                        exact = {'+': lambda: Fr(a) + Fr(b), '-': lambda: Fr(a) - Fr(b), '*': lambda: Fr(a) * Fr(b),
                                 '/': lambda: Fr(a) / Fr(b)}[op]()
                        want = 'err' if abs(exact) > MAXD * (1 + Fr(1, 2 ** 54)) else exact
                    if want == 'div0':
                        ok = o == ['e', '#DIV/0!']
                    elif want == 'err':
                        ok = o[0] == 'e'
                    else:
                        # rounded ONCE: the double nearest to the exact result (a detour through a rounded intermediate - the
                        # whole number as a double, the whole parts first - lands on a neighbour: 9007199254740993+0.5)
                        ok = o[0] == 'v' and isinstance(o[1], (int, float)) and not isinstance(o[1], bool) and o[1] == float(want)
                    if not ok:
                        out.append(fail('%s with the whole number %s and xf = %r gives %r, expected %s' % (
                            text[:80], _brief(str(w)), f, o, '#DIV/0!' if want == 'div0' else (
                                'an error (the exact result is beyond the largest double)' if want == 'err' else repr(float(want)))),
                            None if isinstance(want, str) else float(want), o))
                        if len(out) >= 4:
                            return out
        return out


class ExactIntegers(Sub):
    name = 'c06.exact_integers'
    rule = ('all ordered pairs over 23 operands (integers incl. adjacent ones above 2^53, logicals, blank, text spelling an '
            'integer with sign / leading zeros (up to 40 000 of them), and the floats 1.0, 2.0, 0.0) under + - *: when both operands are integer-'
            'typed the result is the EXACT integer (no detour through a double) and (a op b)&"" is its digit string; with a '
            'float operand the numeric value is checked; non-trivial = both operands integer-typed')
    min_cases = 400
    min_nontrivial = 300

    def cases(self, tier, unit):
        for i in range(len(EXACT_POOL)):
            for j in range(len(EXACT_POOL)):
                yield [i, j]

    def check(self, env, case):
        a, b = EXACT_POOL[case[0]], EXACT_POOL[case[1]]
        ia, ib = exact_int(a), exact_int(b)
        for op, fn in (('+', lambda x, y: x + y), ('-', lambda x, y: x - y), ('*', lambda x, y: x * y)):
            raw = env.ev('xa%sxb' % op, vars={'xa': a, 'xb': b})
            got = env.out(raw)
            where = 'xa%sxb with xa=%s, xb=%s' % (op, _brief(a), _brief(b))
            if ia is not None and ib is not None:
                env.nt()
                want = fn(ia, ib)
                val = raw.get('result') if isinstance(raw, dict) else None
                if isinstance(val, bool) or not isinstance(val, (int, float)) or Fraction(val) != want:
                    return fail('%s = %r; expected exactly %d' % (where, got, want), want, got)
                txt = env.evo('(xa%sxb)&""' % op, vars={'xa': a, 'xb': b})
                if txt != ['v', str(want)]:
                    return fail('(%s)&"" = %r; the result is the integer %d, expected its digits' % (where, txt, want),
                                str(want), txt)
            else:
                fa = float(a) if ia is None else ia
                fb = float(b) if ib is None else ib
                want = fn(fa, fb)
                if got[0] != 'v' or not isnum(got[1]) or not close(got[1], want):
                    return fail('%s = %r; expected %r' % (where, got, want), want, got)
        return None


REUSE_ELEMS = [2, 0.5, 3, -1]
REUSE_FORMS = [('(xa+xb)-xb', 'a'), ('(xa*xb)/xb', 'a'), ('xb+(xa-xb)', 'a'), ('(xb+xa)-xa', 'b'), ('xa+xb-xb+xb-xb', 'a'),
               ('(xa-xb)+(xb-xa)', 'z'), ('xb/xb*xa', 'a')]


class ArrayReuse(Sub):
    name = 'c06.array_reuse'
    rule = ('formulas that use the same host array twice - (xa+xb)-xb, (xa*xb)/xb, ... - over all equal-length numeric '
            'arrays of length 1..3 (4 element values), as host lists and nested 2x2: element-wise the result is the other '
            'operand again (an operation that writes into an operand changes the second use); non-trivial = all')
    min_cases = 50
    min_nontrivial = 50

    def cases(self, tier, unit):
        for n in (1, 2, 3):
            for a in itertools.product(range(len(REUSE_ELEMS)), repeat=n):
                yield [list(a)]

    def check(self, env, case):
        env.nt()
        n = len(case[0])
        a = [REUSE_ELEMS[i] for i in case[0]]
        for b_idx in itertools.product(range(len(REUSE_ELEMS)), repeat=n):
            b = [REUSE_ELEMS[i] for i in b_idx]
            for nested in (False, True):
                if nested and n != 2:
                    continue
                for form, which in REUSE_FORMS:
                    xa = [list(a), list(reversed(a))] if nested else list(a)
                    xb = [list(b), list(b)] if nested else list(b)
                    want = {'a': xa, 'b': xb, 'z': None}[which]
                    keep_a, keep_b = enc(xa), enc(xb)
                    out = env.evo(form, vars={'xa': xa, 'xb': xb})
                    flat_w = flatten_json(keep_a if which == 'a' else keep_b if which == 'b' else None, n, nested)
                    got = flatten_json(out[1], n, nested) if out[0] == 'v' else None
                    ok = got is not None and len(got) == len(flat_w) and all(isnum(g) and close(g, w) for g, w in zip(got, flat_w))
                    if not ok:
                        return fail('%s with xa=%r, xb=%r = %r; element-wise it should be %r' % (
                            form, keep_a, keep_b, out, flat_w), flat_w, out)
        return None


def flatten_json(v, n, nested):
    if v is None:
        return [0] * (n * 2 if nested else n)
    out = []

    def rec(x):
        if isinstance(x, list):
            for y in x:
                rec(y)
        else:
            out.append(x)
    rec(v)
    return out



class ArrayScale(Sub):
    name = 'c06.scale'
    rule = ('size ladder of the array length n: [1..n] op scalar, scalar op [1..n], [1..n] op [n..1] for + - * /, as host lists '
            'and (n <= 257) literals: element-wise results of length n; lengths n against n+1 give #VALUE!; a text of n '
            'characters joins verbatim under &; non-trivial = all')
    min_cases = 40
    min_nontrivial = 40

    def cases(self, tier, unit):
        for n in scale(tier):
            yield [n]

    def check(self, env, case):
        n = case[0]
        env.nt()
        xs = list(range(1, n + 1))
        ys = list(range(n, 0, -1))
        txt = ''.join('xyz'[i % 3] for i in range(n))
        probes = [('xa+1', [x + 1 for x in xs]), ('2*xa', [2 * x for x in xs]), ('xa-xb', [x - y for x, y in zip(xs, ys)]),
                  ('xa*xb', [x * y for x, y in zip(xs, ys)]), ('xa/xa', [1.0] * n), ('10-xa', [10 - x for x in xs]),
                  ('xt&xt', txt + txt), ('xt&1', txt + '1'), ('SUM(xa*2)', n * (n + 1))]
        # text operands padded with blanks to a total length of n: the number / the date they spell, whatever the length
        probes += [('xnp+1', 4), ('2*xnl', 7.0)]
        if n >= 10:
            probes += [('xdp-xdq', 0), ('(xdp+1)-xdq', 1), ('(xdl+0)=xdq', True)]
        if n >= 2:      # a one-item array against two items is not demanded (it may broadcast like a scalar)
            probes += [('xa+xc', '#VALUE!'), ('xc*xa', '#VALUE!')]
        if n <= 257:
            L = '{' + ','.join(str(x) for x in xs) + '}'
            probes += [('%s+1' % L, [x + 1 for x in xs]), ('%s*%s' % (L, L), [x * x for x in xs])]
        out = []
        vars_ = {'xa': xs, 'xb': ys, 'xc': xs + [0], 'xt': txt, 'xnp': '3' + ' ' * (n - 1), 'xnl': ' ' * max(0, n - 3) + '3.5'[:n] if n >= 3 else '3.5',
                 'xdp': '2020-01-31' + ' ' * max(0, n - 10), 'xdl': ' ' * max(0, n - 10) + '2020-01-31', 'xdq': datetime.datetime(2020, 1, 31)}
        for f, want in probes:
            o = env.evo(f, dict(vars_))
            ok = (o == ['e', want]) if isinstance(want, str) and want.startswith('#') else (
                o[0] == 'v' and o[1] == want and (not isinstance(want, list) or len(o[1]) == n))
            if not ok:
                out.append(fail('%s with xa = [1..%d], xb = [%d..1], xc = %d items, xt = %d characters gives %s, expected %s' % (
                    f if len(f) < 80 else f[:40] + ' ... ' + f[-20:], n, n, n + 1, n, repr(o)[:120], repr(want)[:120]),
                    repr(want)[:300], repr(o)[:300]))
                if len(out) >= 3:
                    break
        if vars_['xa'] != xs or vars_['xb'] != ys:
            out.append(fail('a host list of %d items was modified by an array operation' % n))
        return out


SUBS = [ScalarPairs(), ArrayScalar(), ArrayArray(), Mismatch(), OneItem(), RangeShapes(), Extremes(), JoinRoundTrip(), ConcatArrays(), Nested(), LiteralArrays(), Concat(), EarlyDates(),
        ExactIntegers(), WholeWithFloat(), ArrayReuse(), ArrayScale()]
