# -*- coding: utf-8 -*-
"""C14 - date and time functions against the proleptic Gregorian calendar (K3, full calendar sweep).

Reference model: datetime.date ordinals only (weekday = (ordinal + 6) mod 7 with Monday = 0, month
length = difference of the ordinals of two first-of-months, serial = ordinal - ordinal(1899-12-30)).
No hotxlfp helper is used to compute an expected value.

Everything is observed through Parser.parse.  Dates reach formulas as datetime values bound to
variables and, for a subset, as DATE(y,m,d) literals / ISO text.  A case is a block (one year, one
start date against a window of end dates, 1000 month offsets ...); failures carry a narrow
['one', ...] case accepted by check()."""
import datetime

from ..core import Siblings, WholeFloats, Sub, fail, isnum, enc, lit, local_timezone, ZONES

D = datetime.date
DT = datetime.datetime

EPOCH_ORD = D(1899, 12, 30).toordinal()
MAR1_ORD = D(1900, 3, 1).toordinal()
HALF_MS_S = 0.0005
HALF_MS_D = 0.5 / 86400000.0

BOUNDARY_YEARS = (1900, 1901, 1904, 1970, 1999, 2000, 2001, 2038, 2100, 2400, 9998, 9999)
LOW_FULL_YEARS = (0, 1, 4, 99, 100, 1000, 1899)       # DATE(y,..) with y < 1900: all days of these in quick
BAD_WEEKDAY_TYPES = (0, 4, 11)
MORE_BAD_WEEKDAY_TYPES = (5, 10, 17, 21, -1, 100)

WINDOWS = {
    'thorough': (('1900-01-01', '1901-12-31'), ('1999-07-01', '2001-06-30'), ('2099-07-01', '2101-06-30')),
    'quick': (('1900-01-01', '1900-08-31'), ('1999-11-01', '2000-06-30'), ('2099-11-01', '2100-06-30')),
}
LEAP_STARTS = {'quick': (2000, 2021), 'thorough': (1900, 1904, 2000, 2021, 2096, 2100)}
DELTA_YEARS = {'thorough': BOUNDARY_YEARS, 'quick': (1900, 2000, 2100)}
DELTAS = {'thorough': tuple(range(0, 401)) + tuple(range(725, 736)),
          'quick': tuple(range(0, 63)) + tuple(range(360, 371)) + tuple(range(725, 736))}

EDATE_STARTS = ('1900-01-31', '1999-12-31', '2000-02-29', '2019-05-31', '5000-10-30', '9999-12-31')
EDATE_RANGE = {'quick': 2400, 'thorough': 120000}
EDATE_NEAR = tuple(range(-25, 26))
EDATE_ALLYEARS = {'quick': (1, -12), 'thorough': (-13, -12, -1, 1, 11, 12, 13, 48)}

TEXT_TIME_DAYS = {'quick': ('2000-02-29',), 'thorough': ('2000-02-29', '1900-03-01')}
QUICK_SECONDS = (0, 1, 30, 59)

# delivery-channel and host-type differential (core.Env): of every 9 evaluations that bind variables, one is repeated with the
# values handed in by the cell/range listeners, one with the values returned by custom functions and one with every value an
# instance of a trivial subclass of its type (numpy.float64, IntEnum, rich-text str ... are such); outcomes must agree
CHANNELS = 9

BOUNDS = {
    'quick': 'YEAR/MONTH/DAY of DATE(..) and of the whole-day serial, WEEKDAY types 1..3: every day of 12 boundary '
             'years + first/last day of every month 1900..9999 (198 495 days); TIME: all 86 400 (h,m,s); ISO text: every '
             'day of the boundary years, every (h,m) x s in {0,1,30,59} of one day; DATE(y<1900): first/last of every '
             'month of every y in 0..1899 + all days of 7 years; DAYS/DATEDIF: every ordered pair inside 3 windows of '
             '8 months at 1900, 2000, 2100 (176 k pairs) + (d, d+delta) for every day of 1900, 2000, 2100 x 85 deltas; '
             'EDATE: offsets -2400..2400 from 6 starts, -25..25 from every boundary-year day, {1,-12} from the last day of '
             'every month of every year',
    'thorough': 'YEAR/MONTH/DAY(DATE())/WEEKDAY: every valid (y,m,d) 1900..9999 (2 958 464 days), YEAR/MONTH/DAY of '
                'the serial on boundary years + first/last of every month (every serial is swept by C13); TIME: all 86 400; ISO text: '
                'boundary years + first/last of every month of every year, every second of 2 days; DATE(y<1900): every '
                'valid day of every y in 0..1899; DAYS/DATEDIF: every ordered pair inside three 2-year windows at 1900, '
                '2000, 2100 (1.6 M pairs) + (d, d+delta) for every day of 12 boundary years x delta 0..400, 725..735; EDATE: '
                'every offset -120 000..120 000 from 6 starts, -25..25 from every boundary-year day, 8 offsets from '
                'the last day of every month of every year',
}
ASSUMPTIONS = [
    'DAYS / DATEDIF "d": the calendar difference is demanded when both dates are on the same side of 1 Mar 1900; for a '
    'pair that straddles 1 Mar 1900 the calendar difference and the calendar difference + 1 (Excel counts its phantom '
    '29 Feb 1900) are both accepted, because C13 leaves serials before 1 Mar 1900 implementation-defined',
    'DAYS(end, start) with start later than end: the negative calendar difference (Excel) and #NUM! are both accepted; '
    'DATEDIF must be #NUM!',
    'whole months / years: months = 12*dy + dm - [day2 < day1]; where day2 < day1 but day2 is the last day of its month '
    '(e.g. 31 Jan -> 28 Feb, 29 Feb 2000 -> 28 Feb 2001) the clamped reading (one more) is accepted too; "ym" = either '
    'accepted month count mod 12',
    'DATEDIF units md / yd, text or fractional arguments to TIME / WEEKDAY type, an omitted WEEKDAY type, the time of day '
    'of an EDATE result, and which error an invalid date gives are not demanded',
    'ISO text = "YYYY-MM-DD" and "YYYY-MM-DDTHH:MM:SS" only',
    'YEAR/MONTH/DAY of a whole-day serial: the reference serial from 1 Mar 1900 on; before that the serial the library '
    'itself reports for the date (DATEVALUE), if it is a whole number',
    'whole-day differences returned as floats must be within 0.5 ms (5.8e-9 day) of the integer',
]


# --------------------------------------------------------------------------- helpers

def val(env, formula, vars=None):
    r = env.ev(formula, vars)
    if isinstance(r, dict) and len(r) == 2 and r.get('error', 0) is None and 'result' in r:
        return r['result'], None
    return None, env.out(r)


def show(v, b):
    return b if b is not None else enc(v)


def eqnum(v, want):
    return isnum(v) and v == want


def near_num(v, want, tol=HALF_MS_D):
    return isnum(v) and abs(v - want) <= tol


def near_dt(v, want):
    if not isinstance(v, DT):
        return False
    try:
        return abs((v - want).total_seconds()) <= HALF_MS_S
    except TypeError:
        return False


def is_num_error(b):
    return b == ['e', '#NUM!']


def month_len(y, m):
    a = D(y, m, 1).toordinal()
    b = (D(y + 1, 1, 1) if m == 12 else D(y, m + 1, 1)).toordinal() if y < 9999 or m < 12 else a + 31
    return b - a


def month_ends(y):
    out = []
    for m in range(1, 13):
        a = D(y, m, 1).toordinal()
        out.append(a)
        out.append(a + month_len(y, m) - 1)
    return out


def quick_days(y):
    """quick tier: first/last day of every month for leap years and the years around a century,
    else the four days that carry the year / February / March boundaries"""
    if y % 4 == 0 or y % 100 in (1, 99):
        return month_ends(y)
    me = month_ends(y)
    return [me[0], me[3], me[4], me[-1]]


def day_ordinals(tier, y, full_years=BOUNDARY_YEARS):
    if tier == 'thorough' or y in full_years:
        a = D(y, 1, 1).toordinal()
        return range(a, a + (366 if month_len(y, 2) == 29 else 365))
    return quick_days(y)


def weekday_mon0(o):
    """Day of the week from the ordinal alone (0001-01-01, ordinal 1, was a Monday)."""
    return (o + 6) % 7


assert weekday_mon0(D(2019, 11, 20).toordinal()) == 2      # a Wednesday
assert weekday_mon0(D(1900, 1, 1).toordinal()) == 0        # a Monday (true calendar)


def dlit(d):
    return 'DATE(%d,%d,%d)' % (d.year, d.month, d.day)


class YearBlocks(Sub):
    min_cases = 8100

    def units(self, tier):
        # several year ranges per sub in the thorough tier: smaller work items, shorter tail
        if tier == 'quick':
            return [[1900, 9999]]
        return [[1900, 3999], [4000, 5999], [6000, 7999], [8000, 9999]]

    def cases(self, tier, unit):
        for y in range(unit[0], unit[1] + 1):
            yield ['year', tier, y]


# --------------------------------------------------------------------------- YEAR / MONTH / DAY

class Ymd(YearBlocks):
    name = 'c14.ymd'
    rule = ('every valid (y,m,d) of the tier: YEAR/MONTH/DAY(DATE(y,m,d)) = y,m,d (literal route; variable route on '
            'boundary years) and, on boundary years and first/last day of every month, YEAR/MONTH/DAY(whole-day '
            'serial) = y,m,d; non-trivial = first/last day of a month or '
            '29 Feb')
    min_nontrivial = 60000
    min_classes = 12

    def check(self, env, case):
        out = []
        if case[0] == 'one':
            self.one(env, D.fromisoformat(case[1]), out)
            return out
        _, tier, y = case
        for o in day_ordinals(tier, y):
            self.one(env, D.fromordinal(o), out)
            if len(out) > 40:
                break
        return out

    def one(self, env, d, out):
        narrow = ['one', d.isoformat()]
        o = d.toordinal()
        full = d.year in BOUNDARY_YEARS
        env.note('month-%d' % d.month)
        if d.day == 1 or d.day >= 28 and d.day == month_len(d.year, d.month):
            env.nt()
        wants = (('YEAR', d.year), ('MONTH', d.month), ('DAY', d.day))

        def bad(msg, expected, v, b):
            out.append(fail(msg, expected, show(v, b), case=narrow))

        L = dlit(d)
        for fn, want in wants:
            f = '%s(%s)' % (fn, L)
            v, b = val(env, f)
            if not eqnum(v, want):
                bad('%s is not %d' % (f, want), want, v, b)
        if o >= MAR1_ORD:
            n = o - EPOCH_ORD
        else:
            n, b = val(env, 'DATEVALUE(xd)', {'xd': DT(d.year, d.month, d.day)})
            if not (isnum(n) and n == int(n)):
                n = None              # serial before 1 Mar 1900 is implementation-defined (C13)
            else:
                n = int(n)
        if n is not None and (full or d.day == 1 or d.day == month_len(d.year, d.month)):
            # (every whole-day serial 61..2958465 is swept by c13.serials)
            for fn, want in wants:
                v, b = val(env, fn + '(xs)', {'xs': n})
                if not eqnum(v, want):
                    bad('%s(xs) with xs = %d, the whole-day serial of %s, is not %d' % (fn, n, d, want), want, v, b)
        if full:
            bind = {'xy': d.year, 'xm': d.month, 'xd': d.day}
            for fn, want in wants:
                v, b = val(env, fn + '(DATE(xy,xm,xd))', bind)
                if not eqnum(v, want):
                    bad('%s(DATE(xy,xm,xd)) with %d,%d,%d is not %d' % (fn, d.year, d.month, d.day, want), want, v, b)
                v, b = val(env, fn + '(xt)', {'xt': DT(d.year, d.month, d.day)})
                if not eqnum(v, want):
                    bad('%s(xt) with xt = datetime %s is not %d' % (fn, d, want), want, v, b)
            if n is not None:
                for fn, want in wants:
                    v, b = val(env, '%s(%d)' % (fn, n))
                    if not eqnum(v, want):
                        bad('%s(%d) (whole-day serial of %s) is not %d' % (fn, n, d, want), want, v, b)
            v, b = val(env, L)
            if not near_dt(v, DT(d.year, d.month, d.day)):
                bad('%s is not the date %s at midnight' % (L, d), enc(DT(d.year, d.month, d.day)), v, b)


# --------------------------------------------------------------------------- WEEKDAY

class Weekday(YearBlocks):
    name = 'c14.weekday'
    rule = ('every valid (y,m,d) of the tier x numbering types 1,2,3: WEEKDAY = true day of the week ((ordinal+6) mod 7); '
            'on boundary years also DATE() / literal-type routes and types {0,4,11,5,10,17,21,-1,100} -> #NUM!; '
            'non-trivial = a Sunday or Monday (where the three numberings wrap)')
    min_nontrivial = 15000
    min_classes = 7

    def check(self, env, case):
        out = []
        if case[0] == 'one':
            self.one(env, D.fromisoformat(case[1]), out)
            return out
        _, tier, y = case
        for o in day_ordinals(tier, y):
            self.one(env, D.fromordinal(o), out)
            if len(out) > 40:
                break
        return out

    def one(self, env, d, out):
        narrow = ['one', d.isoformat()]
        wd = weekday_mon0(d.toordinal())           # Monday = 0
        want = {1: (wd + 1) % 7 + 1, 2: wd + 1, 3: wd}
        dt = DT(d.year, d.month, d.day)
        env.note('weekday-%d' % wd)
        if wd in (0, 6):
            env.nt()

        def bad(msg, expected, v, b):
            out.append(fail(msg, expected, show(v, b), case=narrow))

        for t in (1, 2, 3):
            v, b = val(env, 'WEEKDAY(xd,%d)' % t, {'xd': dt})
            if not eqnum(v, want[t]):
                bad('WEEKDAY(xd,%d) with xd = %s (a %s) is not %d' % (
                    t, d, 'Mon Tue Wed Thu Fri Sat Sun'.split()[wd], want[t]), want[t], v, b)
        if d.year not in BOUNDARY_YEARS:
            return
        L = dlit(d)
        for t in (1, 2, 3):
            v, b = val(env, 'WEEKDAY(%s,%d)' % (L, t))
            if not eqnum(v, want[t]):
                bad('WEEKDAY(%s,%d) is not %d' % (L, t, want[t]), want[t], v, b)
            v, b = val(env, 'WEEKDAY(xd,xt)', {'xd': dt, 'xt': t})
            if not eqnum(v, want[t]):
                bad('WEEKDAY(xd,xt) with xd = %s, xt = %d is not %d' % (d, t, want[t]), want[t], v, b)
        for t in BAD_WEEKDAY_TYPES + (MORE_BAD_WEEKDAY_TYPES if d.day == 1 else ()):
            v, b = val(env, 'WEEKDAY(xd,%s)' % lit(t), {'xd': dt})
            if not is_num_error(b):
                bad('WEEKDAY(xd,%s) with xd = %s should be #NUM! (numbering type is not 1, 2 or 3)' % (lit(t), d),
                    ['e', '#NUM!'], v, b)
            v, b = val(env, 'WEEKDAY(xd,xt)', {'xd': dt, 'xt': t})
            if not is_num_error(b):
                bad('WEEKDAY(xd,xt) with xd = %s, xt = %d should be #NUM!' % (d, t), ['e', '#NUM!'], v, b)


# --------------------------------------------------------------------------- TIME

class Time(Sub):
    name = 'c14.time'
    rule = ('all 86 400 (h,m,s), one case per (h,m): HOUR/MINUTE/SECOND(TIME(h,m,s)) = h,m,s with literal arguments and '
            '(quick: for s in {0,1,30,59}; thorough: always) with variable arguments; non-trivial = all three components non-zero')
    min_cases = 1440
    min_nontrivial = 80000
    min_classes = 24

    def cases(self, tier, unit):
        for h in range(24):
            for m in range(60):
                yield [tier, h, m]

    def check(self, env, case):
        out = []
        if case[0] == 'one':
            self.one(env, case[1], case[2], case[3], out)
            return out
        tier, h, m = case
        for s in range(60):
            self.one(env, h, m, s, out, both=(tier == 'thorough' or s in QUICK_SECONDS))
            if len(out) > 40:
                break
        return out

    def one(self, env, h, m, s, out, both=True):
        narrow = ['one', h, m, s]
        env.note('hour-%d' % h)
        if h and m and s:
            env.nt()
        for fn, want in (('HOUR', h), ('MINUTE', m), ('SECOND', s)):
            f = '%s(TIME(%d,%d,%d))' % (fn, h, m, s)
            v, b = val(env, f)
            if not eqnum(v, want):
                out.append(fail('%s is not %d' % (f, want), want, show(v, b), case=narrow))
            if not both:
                continue
            v, b = val(env, fn + '(TIME(xh,xm,xs))', {'xh': h, 'xm': m, 'xs': s})
            if not eqnum(v, want):
                out.append(fail('%s(TIME(xh,xm,xs)) with %d,%d,%d is not %d' % (fn, h, m, s, want), want,
                                show(v, b), case=narrow))


# --------------------------------------------------------------------------- ISO text

class HostInstants(Sub):
    name = 'c14.host_instants'
    rule = ('date-time OBJECTS handed in by the host (variable; through the delivery-channel differential also cell listener and '
            'function result) for every hour x minute x s in {0,1,30,59} (thorough: every second) of 3 (5) days, plus the same '
            'instants with 250 ms: YEAR, MONTH, DAY, HOUR, MINUTE, SECOND and WEEKDAY read the components of the instant; '
            'non-trivial = all')
    min_cases = 60
    min_nontrivial = 5000
    min_classes = 1
    DAYS = {'quick': ('2000-02-29', '1900-03-01', '2021-06-15'),
            'thorough': ('2000-02-29', '1900-03-01', '2021-06-15', '2021-12-31', '9999-12-31')}

    def cases(self, tier, unit):
        for day in self.DAYS[tier]:
            for h in range(24):
                yield [tier, day, h]

    def check(self, env, case):
        tier, day, h = case
        d = D.fromisoformat(day)
        secs = QUICK_SECONDS if tier == 'quick' else range(60)
        out = []
        for m in range(60):
            for s in secs:
                for us in ((0, 250000) if s in (0, 59) else (0,)):
                    t = DT(d.year, d.month, d.day, h, m, s, us)
                    env.nt()
                    env.note('instant')
                    wants = [('HOUR', h), ('MINUTE', m), ('SECOND', s)]
                    if s in (0, 59):
                        wants += [('YEAR', d.year), ('MONTH', d.month), ('DAY', d.day), ('WEEKDAY', d.isoweekday() % 7 + 1)]
                    for fn, want in wants:
                        v, b = val(env, fn + '(xt)', {'xt': t})
                        if not eqnum(v, want):
                            out.append(fail('%s(xt) with the date-time xt = %s is not %d' % (fn, t.isoformat(), want), want,
                                            show(v, b)))
            if m % 15 == 0:
                # one instant spelled by the host in three zones: each spelling reads its own wall-clock fields
                base = DT(d.year, d.month, d.day, h, m, 0, tzinfo=datetime.timezone.utc)
                for off in (0, 330, -570, 840):
                    try:
                        t = base.astimezone(datetime.timezone(datetime.timedelta(minutes=off)))
                    except OverflowError:
                        continue
                    if (t.year, t.month) < (1900, 3):
                        continue
                    env.note('aware')
                    for fn, want in (('HOUR', t.hour), ('MINUTE', t.minute), ('DAY', t.day), ('MONTH', t.month)):
                        v, b = val(env, fn + '(xt)', {'xt': t})
                        if not eqnum(v, want):
                            out.append(fail('%s(xt) with the zone-aware date-time xt = %s is not %d (its own wall-clock reading)' % (
                                fn, t.isoformat(), want), want, show(v, b)))
            if len(out) > 20:
                break
        return out


TZ_DAYS = ['1900-03-01', '1969-12-31', '1970-01-01', '2021-01-15', '2021-03-14', '2021-03-28', '2021-06-15', '2021-10-31',
           '2021-11-07', '2038-01-19', '9999-11-30']


class Timezones(Sub):
    name = 'c14.timezones'
    rule = ('6 local time zones of the process (UTC, US Eastern and UK with daylight saving, India +5:30, New Zealand, Hawaii) x '
            '11 days (winter, summer, clock-change days, epoch / 2038 boundaries): YEAR/MONTH/DAY/WEEKDAY of the whole-day '
            'serial (int, float, numeric text), of DATE(y,m,d), of ISO text and of a host date-time; HOUR/MINUTE of serial+0.5, of '
            'TIME and of a host date-time; DAYS, DATEDIF "d" and EDATE across the day: all as in UTC - the zone of the host '
            'never matters; non-trivial = all')
    min_cases = 60
    min_nontrivial = 1000
    min_classes = 5

    def cases(self, tier, unit):
        for tz in ZONES:
            for day in TZ_DAYS:
                yield [tz, day]

    def check(self, env, case):
        tz, day = case
        d = D.fromisoformat(day)
        k = d.toordinal() - EPOCH_ORD
        wd = d.isoweekday() % 7 + 1
        out = []
        env.note(tz.split(',')[0])
        probes = []
        for arg, vars_ in (('xk', {'xk': k}), ('xk', {'xk': float(k)}), ('xk', {'xk': str(k)}), ('xk', {'xk': day}),
                           ('xk', {'xk': DT(d.year, d.month, d.day)}), ('DATE(%d,%d,%d)' % (d.year, d.month, d.day), {})):
            for fn, want in (('YEAR', d.year), ('MONTH', d.month), ('DAY', d.day), ('WEEKDAY', wd)):
                probes.append(('%s(%s)' % (fn, arg), vars_, want))
            probes.append(('DAY(EDATE(%s,0))' % arg, vars_, d.day))
            probes.append(('DAYS(%s,%s)' % (arg, arg), vars_, 0))
        probes += [('HOUR(xk)', {'xk': k + 0.5}, 12), ('MINUTE(xk)', {'xk': k + 0.5}, 0), ('HOUR(TIME(13,14,15))', {}, 13),
                   ('HOUR(xk)', {'xk': DT(d.year, d.month, d.day, 1, 30)}, 1), ('HOUR(xk)', {'xk': DT(d.year, d.month, d.day, 2, 30)}, 2),
                   ('HOUR(xk)', {'xk': DT(d.year, d.month, d.day, 23, 59, 59)}, 23),
                   ('DAY(xk)', {'xk': DT(d.year, d.month, d.day, 23, 59, 59)}, d.day),
                   ('HOUR(xk)', {'xk': day + 'T02:30:00'}, 2), ('DAY(xk)', {'xk': day + 'T23:30:00'}, d.day),
                   ('DAYS(xk+1,xk)', {'xk': k}, 1), ('DATEDIF(xk,xk+31,"d")', {'xk': k}, 31), ('DAYS(xb,xa)', {'xa': k, 'xb': k + 2}, 2)]
        with local_timezone(tz):
            for f, vars_, want in probes:
                env.nt()
                v, b = val(env, f, vars_)
                if not (isnum(v) and abs(v - want) < 1e-9):
                    out.append(fail('[process time zone %s] %s%s is %s, expected %d' % (
                        tz, f, (' with %s' % dict((a, enc(x)) for a, x in vars_.items())) if vars_ else '', show(v, b), want), want,
                        show(v, b)))
                    if len(out) > 10:
                        break
        return out


class IsoText(Sub):
    name = 'c14.iso_text'
    rule = ('"YYYY-MM-DD" for every day of the boundary years (thorough: + first/last of every month of every year): '
            'YEAR/MONTH/DAY(text) = y,m,d; "YYYY-MM-DDTHH:MM:SS" for every second of the chosen days (quick: s in '
            '{0,1,30,59}): HOUR/MINUTE/SECOND (and YEAR/MONTH/DAY at s = 0); non-trivial = text with a time part or a '
            'first/last day of a month')
    min_cases = 36
    min_nontrivial = 5000
    min_classes = 2

    def cases(self, tier, unit):
        for y in range(1900, 10000):
            if tier == 'thorough' or y in BOUNDARY_YEARS:
                yield ['dates', tier, y]
        for day in TEXT_TIME_DAYS[tier]:
            for h in range(24):
                yield ['times', tier, day, h]

    def check(self, env, case):
        out = []
        if case[0] == 'one':
            self.one(env, case[1], out)
        elif case[0] == 'dates':
            _, tier, y = case
            for o in day_ordinals('quick', y):
                self.one(env, D.fromordinal(o).isoformat(), out)
                if len(out) > 40:
                    break
        else:
            _, tier, day, h = case
            secs = QUICK_SECONDS if tier == 'quick' else range(60)
            for m in range(60):
                for s in secs:
                    self.one(env, '%sT%02d:%02d:%02d' % (day, h, m, s), out)
                if len(out) > 40:
                    break
        return out

    def one(self, env, text, out):
        narrow = ['one', text]
        d = D.fromisoformat(text[:10])
        wants = [('YEAR', d.year), ('MONTH', d.month), ('DAY', d.day)]
        full = False
        if len(text) > 10:
            h, m, s = int(text[11:13]), int(text[14:16]), int(text[17:19])
            tw = [('HOUR', h), ('MINUTE', m), ('SECOND', s)]
            wants = tw + wants if s == 0 else tw
            full = (m == 0 and s == 0)
            env.note('date-time')
            env.nt()
        else:
            env.note('date')
            full = d.day == 1
            if d.day == 1 or d.day == month_len(d.year, d.month):
                env.nt()
        for fn, want in wants:
            v, b = val(env, fn + '(xt)', {'xt': text})
            if not eqnum(v, want):
                out.append(fail('%s(xt) with xt = %r is not %d' % (fn, text, want), want, show(v, b), case=narrow))
            if full:
                f = '%s("%s")' % (fn, text)
                v, b = val(env, f)
                if not eqnum(v, want):
                    out.append(fail('%s is not %d' % (f, want), want, show(v, b), case=narrow))


# --------------------------------------------------------------------------- DATE(y < 1900)

class LowYears(Sub):
    name = 'c14.date_low_years'
    rule = ('every y in 0..1899 x every valid (m,d) of year 1900+y (quick: first/last of every month, all days of 7 '
            'years): YEAR/MONTH/DAY(DATE(y,m,d)) = 1900+y, m, d; non-trivial = 29 Feb or last day of a month')
    min_cases = 1900
    min_nontrivial = 20000
    min_classes = 12

    def cases(self, tier, unit):
        for y in range(0, 1900):
            yield ['low', tier, y]

    def check(self, env, case):
        out = []
        if case[0] == 'one':
            self.one(env, case[1], case[2], case[3], out)
            return out
        _, tier, y = case
        yy = 1900 + y
        if tier == 'thorough' or y in LOW_FULL_YEARS:
            ords = day_ordinals('thorough', yy)
        else:
            ords = month_ends(yy)
        for o in ords:
            d = D.fromordinal(o)
            self.one(env, y, d.month, d.day, out)
            if len(out) > 40:
                break
        return out

    def one(self, env, y, m, dd, out):
        narrow = ['one', y, m, dd]
        yy = 1900 + y
        env.note('month-%d' % m)
        if dd == month_len(yy, m):
            env.nt()
        for fn, want in (('YEAR', yy), ('MONTH', m), ('DAY', dd)):
            f = '%s(DATE(%d,%d,%d))' % (fn, y, m, dd)
            v, b = val(env, f)
            if not eqnum(v, want):
                out.append(fail('%s is not %d (a year below 1900 means 1900 + year)' % (f, want), want, show(v, b),
                                case=narrow))
            if y in LOW_FULL_YEARS:
                v, b = val(env, fn + '(DATE(xy,xm,xd))', {'xy': y, 'xm': m, 'xd': dd})
                if not eqnum(v, want):
                    out.append(fail('%s(DATE(xy,xm,xd)) with %d,%d,%d is not %d' % (fn, y, m, dd, want), want,
                                    show(v, b), case=narrow))


# --------------------------------------------------------------------------- DAYS / DATEDIF

def ref_diffs(a, b):
    """a <= b (dates).  -> dict unit -> set of accepted values."""
    oa, ob = a.toordinal(), b.toordinal()
    cal = ob - oa
    days = {cal}
    if oa < MAR1_ORD <= ob:
        days.add(cal + 1)                 # Excel's phantom 29 Feb 1900 (C13: implementation-defined)
    k = (b.year - a.year) * 12 + (b.month - a.month)
    if b.day < a.day:
        months = {k - 1}
        if b.day == month_len(b.year, b.month):
            months.add(k)                 # clamped reading: EDATE(a, k) = b
    else:
        months = {k}
    ky = b.year - a.year
    if (b.month, b.day) < (a.month, a.day):
        years = {ky - 1}
        if (a.month, a.day) == (2, 29) and (b.month, b.day) == (2, 28) and month_len(b.year, 2) == 28:
            years.add(ky)
    else:
        years = {ky}
    return {'d': days, 'm': months, 'y': years, 'ym': set(x % 12 for x in months)}


UNITS = ('d', 'm', 'y', 'ym')


def check_pair(env, a, b, out, literal=False):
    """a = start date, b = end date (any order)."""
    narrow = ['one', a.isoformat(), b.isoformat()]
    at, bt = DT(a.year, a.month, a.day), DT(b.year, b.month, b.day)

    def bad(msg, expected, v, bb):
        out.append(fail(msg, expected, show(v, bb), case=narrow))

    if a <= b:
        ref = ref_diffs(a, b)
        env.note('forward')
        if a.day > b.day or (a.month, a.day) > (b.month, b.day):
            env.nt()
        v, bb = val(env, 'DAYS(xe,xd)', {'xd': at, 'xe': bt})
        if not any(near_num(v, w) for w in ref['d']):
            bad('DAYS(xe,xd) with end xe = %s, start xd = %s is not the calendar difference %s'
                % (b, a, sorted(ref['d'])), sorted(ref['d']), v, bb)
        got = {}
        for u in UNITS:
            v, bb = val(env, 'DATEDIF(xd,xe,xu)', {'xd': at, 'xe': bt, 'xu': u})
            got[u] = v
            ok = any(near_num(v, w) for w in ref[u]) if u == 'd' else any(eqnum(v, w) for w in ref[u])
            if not ok:
                bad('DATEDIF(xd,xe,"%s") with start xd = %s, end xe = %s is not %s' % (u, a, b, sorted(ref[u])),
                    sorted(ref[u]), v, bb)
            if literal:
                f = 'DATEDIF(%s,%s,"%s")' % (dlit(a), dlit(b), u.upper() if a.day % 2 else u)
                v, bb = val(env, f)
                ok = any(near_num(v, w) for w in ref[u]) if u == 'd' else any(eqnum(v, w) for w in ref[u])
                if not ok:
                    bad('%s is not %s' % (f, sorted(ref[u])), sorted(ref[u]), v, bb)
        if all(isnum(got[u]) for u in ('m', 'y', 'ym')) and got['m'] != 12 * got['y'] + got['ym']:
            # whichever way a month that ends on a shorter month's last day is counted, the three units count it the same way
            bad('DATEDIF with start %s, end %s: "m" = %r but 12 * "y" + "ym" = 12 * %r + %r' % (a, b, got['m'], got['y'], got['ym']),
                12 * got['y'] + got['ym'], got['m'], None)
        if literal:
            f = 'DAYS(%s,%s)' % (dlit(b), dlit(a))
            v, bb = val(env, f)
            if not any(near_num(v, w) for w in ref['d']):
                bad('%s is not the calendar difference %s' % (f, sorted(ref['d'])), sorted(ref['d']), v, bb)
    else:
        env.note('reversed')
        for u in UNITS:
            v, bb = val(env, 'DATEDIF(xd,xe,xu)', {'xd': at, 'xe': bt, 'xu': u})
            if not is_num_error(bb):
                bad('DATEDIF(xd,xe,"%s") with start xd = %s later than end xe = %s should be #NUM!' % (u, a, b),
                    ['e', '#NUM!'], v, bb)
        neg = [-w for w in ref_diffs(b, a)['d']]
        v, bb = val(env, 'DAYS(xe,xd)', {'xd': at, 'xe': bt})
        if not (is_num_error(bb) or any(near_num(v, w) for w in neg)):
            bad('DAYS(xe,xd) with end xe = %s before start xd = %s is neither %s nor #NUM!' % (b, a, sorted(neg)),
                sorted(neg) + ['#NUM!'], v, bb)


class Pairs(Sub):
    name = 'c14.datedif_pairs'
    rule = ('every ordered pair (start, end) of days inside each window (one case per start day): start <= end: DAYS and '
            'DATEDIF d/m/y/ym = calendar difference in days / whole months / whole years / months mod 12; start > end: '
            'DATEDIF = #NUM!; non-trivial = forward pair whose end day-of-month (or month-day) is before the start\'s '
            '(a borrow)')
    min_cases = 700
    min_nontrivial = 30000
    min_classes = 2

    def units(self, tier):
        return [[wi, q] for wi in range(len(WINDOWS[tier])) for q in range(4)]

    def cases(self, tier, unit):
        wi, q = unit
        if wi == 0 and q == 0:
            # month ends against month ends over one to four years and over a century: start days 27..31 of every month of a leap and
            # of a common year against the last three days and the first day of every later month
            for ys in LEAP_STARTS[tier]:
                for ms in range(1, 13):
                    for ds in range(27, month_len(ys, ms) + 1):
                        yield ['ends', D(ys, ms, ds).isoformat()]
        lo, hi = WINDOWS[tier][wi]
        for i, o in enumerate(range(D.fromisoformat(lo).toordinal(), D.fromisoformat(hi).toordinal() + 1)):
            if i % 4 == q:
                yield ['win', tier, wi, D.fromordinal(o).isoformat()]

    def check(self, env, case):
        out = []
        if case[0] == 'one':
            a, b = D.fromisoformat(case[1]), D.fromisoformat(case[2])
            check_pair(env, a, b, out, literal=self.literal(a, b))
            return out
        if case[0] == 'ends':
            a = D.fromisoformat(case[1])
            for k in list(range(0, 50)) + [96, 97, 1200, 1201, 1202]:
                y, m = a.year + (a.month - 1 + k) // 12, (a.month - 1 + k) % 12 + 1
                if y > 9999:
                    continue
                n = month_len(y, m)
                for b in (D(y, m, n - 2), D(y, m, n - 1), D(y, m, n), D(y, m, 1)):
                    if a <= b:
                        check_pair(env, a, b, out)
                if len(out) > 40:
                    break
            return out
        _, tier, wi, start = case
        lo, hi = WINDOWS[tier][wi]
        a = D.fromisoformat(start)
        for o in range(D.fromisoformat(lo).toordinal(), D.fromisoformat(hi).toordinal() + 1):
            b = D.fromordinal(o)
            check_pair(env, a, b, out, literal=self.literal(a, b))
            if len(out) > 40:
                break
        return out

    @staticmethod
    def literal(a, b):
        return a.day == 1 and b.day in (1, 28)


class Deltas(Sub):
    name = 'c14.datedif_deltas'
    rule = ('(d, d+delta) for every day d of the chosen boundary years and every delta of the tier (end <= 9999-12-31): '
            'same oracle as c14.datedif_pairs; non-trivial = a borrow pair')
    min_cases = 1000
    min_nontrivial = 20000
    min_classes = 1

    def units(self, tier):
        return list(DELTA_YEARS[tier])

    def cases(self, tier, unit):
        for o in day_ordinals('thorough', unit):
            yield ['from', tier, D.fromordinal(o).isoformat()]

    def check(self, env, case):
        out = []
        if case[0] == 'one':
            check_pair(env, D.fromisoformat(case[1]), D.fromisoformat(case[2]), out, literal=False)
            return out
        _, tier, start = case
        a = D.fromisoformat(start)
        last = D(9999, 12, 31).toordinal()
        for delta in DELTAS[tier]:
            if a.toordinal() + delta > last:
                env.note('beyond-9999 (not demanded)')
                continue
            check_pair(env, a, D.fromordinal(a.toordinal() + delta), out, literal=False)
            if len(out) > 40:
                break
        return out


# --------------------------------------------------------------------------- EDATE

def ref_edate(d, k):
    idx = d.year * 12 + (d.month - 1) + k
    ty, tm = idx // 12, idx % 12 + 1
    if ty < 1900 or ty > 9999:
        return None
    return D(ty, tm, min(d.day, month_len(ty, tm)))


def check_edate(env, d, k, out, literal=False):
    narrow = ['one', d.isoformat(), k]
    want = ref_edate(d, k)
    dt = DT(d.year, d.month, d.day)
    if want is None:
        env.note('out-of-range')
    elif want.day != d.day:
        env.note('clamped')
        env.nt()
    else:
        env.note('kept')
        if k < 0 and (d.month - 1 + k) < 0:
            env.nt()
    forms = [('EDATE(xd,xn)', {'xd': dt, 'xn': k})]
    if literal:
        forms.append(('EDATE(%s,%s)' % (dlit(d), ('-%d' % -k) if k < 0 else '%d' % k), None))
    for f, bind in forms:
        v, b = val(env, f, bind)
        where = f if bind is None else '%s with xd = %s, xn = %d' % (f, d, k)
        if want is None:
            if not is_num_error(b):
                out.append(fail('%s leaves 1900..9999 and should be #NUM!' % where, ['e', '#NUM!'], show(v, b),
                                case=narrow))
        else:
            wt = DT(want.year, want.month, want.day)
            if not near_dt(v, wt):
                out.append(fail('%s is not %s (same day of month, clamped to the length of the target month)'
                                % (where, want), enc(wt), show(v, b), case=narrow))


class EdateLong(Sub):
    name = 'c14.edate_offsets'
    rule = ('6 start dates (31 Jan 1900, 31 Dec 1999, 29 Feb 2000, 31 May 2019, 30 Oct 5000, 31 Dec 9999) x every month '
            'offset of the tier (-120 000..120 000 thorough, -2 400..2 400 quick), one case per 1000 offsets; non-trivial = '
            'clamped day or negative offset crossing a year boundary')
    min_cases = 30
    min_nontrivial = 2000
    min_classes = 3

    def cases(self, tier, unit):
        r = EDATE_RANGE[tier]
        for s in EDATE_STARTS:
            for lo in range(-r, r + 1, 1000):
                yield ['range', s, lo, min(r, lo + 999)]

    def check(self, env, case):
        out = []
        if case[0] == 'one':
            check_edate(env, D.fromisoformat(case[1]), case[2], out, literal=abs(case[2]) <= 2400)
            return out
        _, s, lo, hi = case
        d = D.fromisoformat(s)
        for k in range(lo, hi + 1):
            check_edate(env, d, k, out, literal=abs(k) <= 2400)
            if len(out) > 40:
                break
        return out


class EdateDays(YearBlocks):
    name = 'c14.edate_days'
    rule = ('every day of the 12 boundary years x offsets -25..25, and the last day of every month of every year x '
            'the tier\'s short offset list: EDATE = same day of month clamped to the target month, #NUM! outside '
            '1900..9999; non-trivial = clamped day or negative offset crossing a year boundary')
    min_nontrivial = 20000
    min_classes = 3

    def check(self, env, case):
        out = []
        if case[0] == 'one':
            d = D.fromisoformat(case[1])
            check_edate(env, d, case[2], out, literal=d.year in BOUNDARY_YEARS and abs(case[2]) <= 1)
            return out
        _, tier, y = case
        if y in BOUNDARY_YEARS:
            for o in day_ordinals('thorough', y):
                d = D.fromordinal(o)
                for k in EDATE_NEAR:
                    check_edate(env, d, k, out, literal=abs(k) <= 1)
                if len(out) > 40:
                    break
        else:
            for o in month_ends(y)[1::2]:          # last day of every month
                d = D.fromordinal(o)
                for k in EDATE_ALLYEARS[tier]:
                    check_edate(env, d, k, out)
                if len(out) > 40:
                    break
        return out


class DateWholeFloats(WholeFloats):
    name = 'c14.whole_floats'
    TEMPLATES = [
        ('YEAR(DATE({0},{1},{2}))*10000+MONTH(DATE({0},{1},{2}))*100+DAY(DATE({0},{1},{2}))', [(2020, 2, 29), (1900, 3, 1), (99, 12, 31), (9999, 12, 31)]),
        ('HOUR(TIME({0},{1},{2}))*10000+MINUTE(TIME({0},{1},{2}))*100+SECOND(TIME({0},{1},{2}))', [(10, 4, 11), (0, 0, 0), (23, 59, 59)]),
        ('DATE(2020,1,31)+{0}', [(1,), (30,)]),
        ('EDATE(DATE(2020,1,31),{0})', [(1,), (-2,), (13,)]),
        ('WEEKDAY(DATE(2020,1,31),{0})', [(1,), (2,), (3,), (4,)]),
        ('DAYS({0},{1})', [(44000, 43000)]),
        ('DATEDIF({0},{1},"m")', [(43000, 44000)]),
        ('YEAR({0})', [(44000,), (61,)]),
    ]


NEEDS_ZYGOTE = True


class DateSiblings(Siblings):
    name = 'c14.siblings'
    GROUPS = [
        (['YEAR({0})', 'MONTH({0})', 'DAY({0})', 'WEEKDAY({0})', 'WEEKDAY({0},2)', 'WEEKDAY({0},3)', 'HOUR({0})', 'MINUTE({0})',
          'SECOND({0})', 'EDATE({0},1)', 'EDATE({0},-1)', 'DAYS({0},1)', 'DATEDIF(1,{0},"d")', 'DATEDIF(1,{0},"m")',
          'DATEDIF(1,{0},"y")', 'DATEDIF(1,{0},"ym")'],
         [(61,), (367,), (40000,), (45000.5,), ('2020-02-29',), ('2021-03-31T13:14:15',), (2,), (12,), (31,)]),
        (['TEXT(DATE({0},{1},{2}),"dd/mm/yyyy")', 'TEXT(DATE({0},{1},{2}),"yyyy-mm-dd")', 'TEXT(DATE({0},{1},{2}),"d mmm yy")',
          'TEXT(DATE({0},{1},{2}),"mmmm d, yyyy")', 'TEXT(TIME({2},{1},{1}),"hh:mm:ss")', 'TEXT(DATE({0},{1},{2}),"ddd")',
          'YEAR(DATE({0},{1},{2}))&"-"&MONTH(DATE({0},{1},{2}))&"-"&DAY(DATE({0},{1},{2}))'],
         [(2020, 3, 5), (2021, 7, 9), (1999, 12, 31), (2004, 4, 3), (2024, 2, 29)]),
        (['DATE({0},{1},{2})', 'TIME({0},{1},{2})', 'YEAR(DATE({0},{1},{2}))', 'MONTH(DATE({0},{1},{2}))',
          'DAY(DATE({0},{1},{2}))', 'HOUR(TIME({0},{1},{2}))', 'MINUTE(TIME({0},{1},{2}))', 'SECOND(TIME({0},{1},{2}))',
          'WEEKDAY(DATE({0},{1},{2}))', 'EDATE(DATE({0},{1},{2}),1)', 'DAYS(DATE({0},{1},{2}),DATE({0},1,1))',
          'DATEDIF(DATE({0},1,1),DATE({0},{1},{2}),"m")'],
         [(12, 5, 7), (1999, 12, 31), (23, 59, 59), (2000, 2, 29), (1900, 1, 1), (10, 10, 10), (2024, 1, 31)]),
    ]


SUBS = [Ymd(), Weekday(), Time(), HostInstants(), Timezones(), IsoText(), LowYears(), Pairs(), Deltas(), EdateLong(), EdateDays(), DateWholeFloats(), DateSiblings()]
