# -*- coding: utf-8 -*-
"""C10 - reference events: once each, evaluation order, canonical coordinates, setter protocol (K3 + K1)."""
import itertools

from ..core import Sub, fail, enc, scale

AZ = 'ABCDEFGHIJKLMNOPQRSTUVWXYZ'

BOUNDS = {
    'quick': 'all expression trees with <= 5 nodes over 6 leaf kinds (cells, range, variable, number, predefined name), + * '
             'unary minus and calls of a built-in and a custom function with 0..3 arguments nested to depth 3: event list '
             'vs reference post-order; every column of <= 3 letters x 5 rows x 4 $-patterns x 2 cases and boundary rows for '
             'cell events; ranges over a 6x6 grid of corner pairs x 4 corner orders x 16 $-patterns x 2 cases; all setter '
             'sequences of length <= 3 over 8 values split over 1..2 listeners for the 4 event kinds',
    'thorough': 'trees with <= 6 nodes; every column of <= 4 letters (475 254) x rows {1,1048576} x 4 patterns x 2 cases and '
                'every row 1..1048576 at columns {A,Z,AA,XFD}; ranges over an 8x8 grid',
}
ASSUMPTIONS = ['row 0 / leading-zero rows are not cell references (see C19): A0, A01 are ordinary names',
               'a range cell label must spell the cell\'s own coordinates; its $ markers must agree with the is_absolute '
               'flags of the row/column parts it carries',
               'bijective base-26 reference = enumeration order of itertools.product over A..Z']


def offset(length):
    return sum(26 ** i for i in range(1, length))


class Recorder(object):
    """a parser with recording listeners on the four events"""

    def __init__(self, env, cellval=None, rangeval=None):
        self.p = env.new_parser()
        self.events = []
        self.cellval = cellval
        self.rangeval = rangeval
        self.kept = []
        p = self.p
        p.on('callCellValue', self.on_cell)
        p.on('callRangeValue', self.on_range)
        p.on('callVariable', self.on_var)
        p.on('callFunction', self.on_fn)

    @staticmethod
    def cellinfo(c):
        return [c.label, c.row.index, c.col.index, c.row.is_absolute, c.col.is_absolute, c.row.label, c.col.label]

    def on_cell(self, cell, setter):
        self.events.append(['cell'] + self.cellinfo(cell))
        self.kept.append((cell, self.cellinfo(cell)))
        if self.cellval is not None:
            setter(self.cellval(cell))

    def on_range(self, start, end, setter):
        self.events.append(['range', self.cellinfo(start), self.cellinfo(end)])
        self.kept.append((start, self.cellinfo(start)))
        self.kept.append((end, self.cellinfo(end)))
        if self.rangeval is not None:
            setter(self.rangeval(start, end))

    def on_var(self, name, setter):
        self.events.append(['var', name])

    def on_fn(self, name, args, setter):
        self.events.append(['fn', name, enc(list(args))])

    def run(self, env, text):
        del self.events[:]
        self.kept = []
        env.evals += 1
        try:
            r = self.p.parse(text)
        except Exception as e:
            r = ('raised', e)
        # a host may hold on to the cell objects it was handed: they keep saying what they said during the event
        for cell, info in self.kept:
            now = self.cellinfo(cell)
            if now != info:
                self.events.append(['a cell object handed to the listener changed after the event', info, now])
        return list(self.events), env.out(r)


# --------------------------------------------------------------------------
# evaluation order

LEAVES = [['cell', 'A1'], ['cell', '$B$2'], ['cell', 'c$3'], ['range', 'A1', 'B2'], ['var', 'va'], ['num', 4], ['var', 'TRUE']]
CELLVALS = {'A1': 2, '$B$2': 3, 'C$3': 5}
RANGEVAL = [[2, 7], [11, 3]]
VARS = {'va': 13}


def gen(budget, depth, allow_range=False):
    """all trees with exactly `budget` nodes and call nesting <= depth"""
    if budget == 1:
        for lf in LEAVES:
            if lf[0] == 'range' and not allow_range:
                continue
            yield lf
        if depth > 0:
            for fn in ('SUM', 'REC'):
                yield ['call', fn, []]
        return
    # unary minus
    for t in gen(budget - 1, depth):
        yield ['neg', t]
    # binary
    for lb in range(1, budget - 1):
        for l in gen(lb, depth):
            for op in ('+', '*'):
                for r in gen(budget - 1 - lb, depth):
                    yield ['bin', op, l, r]
    # calls with 1..3 arguments
    if depth > 0:
        for k in (1, 2, 3):
            if budget - 1 < k:
                continue
            for split in compositions(budget - 1, k):
                for args in itertools.product(*[list(gen(b, depth - 1, allow_range=True)) for b in split]):
                    for fn in ('SUM', 'REC'):
                        yield ['call', fn, list(args)]


def compositions(n, k):
    if k == 1:
        yield (n,)
        return
    for first in range(1, n - k + 2):
        for rest in compositions(n - first, k - 1):
            yield (first,) + rest


def render(t):
    k = t[0]
    if k == 'cell':
        return t[1]
    if k == 'range':
        return '%s:%s' % (t[1], t[2])
    if k == 'var':
        return t[1]
    if k == 'num':
        return str(t[1])
    if k == 'neg':
        inner = render(t[1])
        return '-(%s)' % inner if t[1][0] in ('bin', 'neg') else '-' + inner
    if k == 'bin':
        l, r = render(t[2]), render(t[3])
        if t[2][0] == 'bin':
            l = '(%s)' % l
        if t[3][0] == 'bin':
            r = '(%s)' % r
        return l + t[1] + r
    return '%s(%s)' % (t[1], ','.join(render(a) for a in t[2]))


def flat(v):
    if isinstance(v, list):
        out = []
        for x in v:
            out.extend(flat(x))
        return out
    return [v]


def rec_value(args):
    return 100 + len(args)


def ref(t, events):
    """reference evaluation: returns the value, appends the expected events in post-order"""
    k = t[0]
    if k == 'cell':
        lab = t[1].upper()
        events.append(['cell', lab])
        return CELLVALS[lab]
    if k == 'range':
        events.append(['range', t[1].upper(), t[2].upper()])
        return RANGEVAL
    if k == 'var':
        events.append(['var', t[1]])
        return True if t[1] == 'TRUE' else VARS[t[1]]
    if k == 'num':
        return t[1]
    if k == 'neg':
        return -num(ref(t[1], events))
    if k == 'bin':
        a = ref(t[2], events)
        b = ref(t[3], events)
        return num(a) + num(b) if t[1] == '+' else num(a) * num(b)
    args = [ref(a, events) for a in t[2]]
    events.append(['fn', t[1], enc(args)])
    if t[1] == 'SUM':
        return sum(num(x) for x in flat(args) if not isinstance(x, bool)) + sum(1 for x in flat(args) if x is True)
    return rec_value(args)


def num(v):
    if v is True:
        return 1
    return v


class Order(Sub):
    name = 'c10.order'
    rule = ('all trees up to the node bound: listener event list (kind, name/label, evaluated arguments) equals the '
            'reference post-order list - one event per reference, left to right, arguments before their call; non-trivial = '
            'tree with >= 2 references')
    min_cases = 1000
    min_nontrivial = 500
    min_classes = 3

    def cases(self, tier, unit):
        maxb = 5 if tier == 'quick' else 6
        for b in range(1, maxb + 1):
            for t in gen(b, 3):
                yield t

    def check(self, env, case):
        t = case
        text = render(t)
        want = []
        try:
            val = ref(t, want)
        except TypeError:
            env.note('skipped: arithmetic on a range')
            return None
        rec = getattr(env, '_c10rec', None)
        if rec is None:
            rec = env._c10rec = Recorder(env, cellval=lambda c: CELLVALS.get(c.label), rangeval=lambda s, e: RANGEVAL)
            rec.p.set_variable('va', VARS['va'])
            rec.p.set_function('REC', lambda *a: rec_value(a))
        got, out = rec.run(env, text)
        slim = []
        for e in got:
            if e[0] == 'cell':
                slim.append(['cell', e[1]])
            elif e[0] == 'range':
                slim.append(['range', e[1][0], e[2][0]])
            else:
                slim.append(e)
        if len(want) >= 2:
            env.nt()
        env.note('events%d' % min(len(want), 6))
        if slim != want:
            return fail('%r raised events %r, expected (post-order, once each) %r' % (text, slim, want), want, slim)
        if out != ['v', enc(val)]:
            return fail('%r evaluates to %r, reference %r' % (text, out, val), enc(val), out)
        return None


# --------------------------------------------------------------------------
# labels

def label_variants(col, row, pattern, lower):
    c = col.lower() if lower else col
    return ('$' if pattern & 1 else '') + c + ('$' if pattern & 2 else '') + str(row)


class Labels(Sub):
    name = 'c10.cell_labels'
    rule = ('a formula consisting of one cell reference, for every column of the bound x rows x 4 absolute-marker patterns x '
            '2 letter cases: exactly one cell event with the upper-cased label, reference row/column index and flags; the '
            'listener-set value is the result; non-trivial = column of >= 2 letters or a $ marker')
    min_cases = 50
    min_nontrivial = 1000

    def cases(self, tier, unit):
        maxlen = 3 if tier == 'quick' else 4
        for length in range(1, maxlen + 1):
            if length == 1:
                yield ['cols', 1, '']
            elif length == 2:
                for a in AZ:
                    yield ['cols', 2, a]
            else:
                for a in AZ:
                    for b in (AZ if length == 4 else ['']):
                        yield ['cols', length, a + b]
        top = 1048576
        step = 65536
        rows_to = 131072 if tier == 'quick' else top
        for lo in range(1, rows_to + 1, step):
            yield ['rows', lo, min(rows_to, lo + step - 1)]
        yield ['rows', top - 5, top + 5]
        yield ['rows', 99999995, 100000002]

    def one(self, env, rec, col, colidx, row, pattern, lower):
        text = label_variants(col, row, pattern, lower)
        got, out = rec.run(env, text)
        want = [['cell', text.upper(), row - 1, colidx, bool(pattern & 2), bool(pattern & 1)]]
        slim = [e[:6] for e in got]
        if slim != want or out != ['v', 77]:
            return fail('%r: events %r -> %r; expected one cell event %r and the value set by the listener' % (
                text, got, out, want[0]), want, got, case=['one', col, colidx, row, pattern, lower])
        return None

    def check(self, env, case):
        rec = getattr(env, '_c10lab', None)
        if rec is None:
            rec = env._c10lab = Recorder(env, cellval=lambda c: 77)
        if case[0] == 'one':
            return self.one(env, rec, *case[1:])
        out = []
        if case[0] == 'cols':
            length, prefix = case[1], case[2]
            rows = (1, 9, 10, 1048576, 99999999) if length <= 3 else (1, 1048576)
            rest = length - len(prefix)
            base = offset(length)
            for p in prefix:
                pass
            idx0 = 0
            for ch in prefix:
                idx0 = idx0 * 26 + AZ.index(ch)
            idx0 *= 26 ** rest
            n = 0
            for pos, t in enumerate(itertools.product(AZ, repeat=rest)):
                col = prefix + ''.join(t)
                colidx = base + idx0 + pos
                for row in rows:
                    for pattern in range(4):
                        for lower in (False, True):
                            f = self.one(env, rec, col, colidx, row, pattern, lower)
                            n += 1
                            if f:
                                out.append(f)
                                if len(out) > 5:
                                    return out
            env.nt(n if length > 1 else n * 3 // 4)
        else:
            lo, hi = case[1], case[2]
            n = 0
            for row in range(lo, hi + 1):
                for col, colidx in (('A', 0), ('Z', 25), ('AA', 26), ('XFD', 16383)):
                    f = self.one(env, rec, col, colidx, row, row % 4, bool(row & 4))
                    n += 1
                    if f:
                        out.append(f)
                        if len(out) > 5:
                            return out
            env.nt(n)
        return out


def col_label(idx):
    """reference: enumerate until idx (small indices only)"""
    n = idx
    length = 1
    while n >= 26 ** length:
        n -= 26 ** length
        length += 1
    s = ''
    for _ in range(length):
        s = AZ[n % 26] + s
        n //= 26
    return s


class Ranges(Sub):
    name = 'c10.ranges'
    rule = ('A:B range references over a grid of corner pairs, written in all four corner orders, 16 absolute-marker '
            'patterns and 2 cases: one range event whose start is (min row, min col) and end (max row, max col), each '
            'corner cell\'s label spelling its own coordinates and flags, and the two cells of a one-row / one-column range '
            'being the written corners with their own markers; non-trivial = corners written in non-canonical '
            'order')
    min_cases = 100
    min_nontrivial = 100
    ROWS = (1, 2, 10, 11, 1048576, 7)
    # the last two: columns of four and five letters (beyond a sheet's XFD, but labels all the same)
    COLS = ((0, 'A'), (1, 'B'), (16383, 'XFD'), (26, 'AA'), (25, 'Z'), (27, 'AB'), (18278, 'AAAA'), (475254 + 7, 'AAAAH'))

    def cases(self, tier, unit):
        n = 6 if tier == 'thorough' else 4
        for (r1, r2) in itertools.product(range(n), repeat=2):
            for (c1, c2) in itertools.product(range(n), repeat=2):
                yield [r1, c1, r2, c2]
        for (r1, r2) in ((0, 1), (1, 0), (2, 2)):
            for (c1, c2) in itertools.product((0, 2, 6, 7), repeat=2):
                if c1 >= 6 or c2 >= 6:
                    yield [r1, c1, r2, c2]

    def check(self, env, case):
        rec = getattr(env, '_c10rng', None)
        if rec is None:
            rec = env._c10rng = Recorder(env, rangeval=lambda s, e: [[1]])
        r1, c1, r2, c2 = case
        rowa, rowb = self.ROWS[r1], self.ROWS[r2]
        (cia, cola), (cib, colb) = self.COLS[c1], self.COLS[c2]
        if rowa > rowb or cia > cib:
            env.nt()
        for pat in range(16):
            for lower in (False, True):
                a = label_variants(cola, rowa, pat & 3, lower)
                b = label_variants(colb, rowb, pat >> 2, lower)
                text = 'SUM(%s:%s)' % (a, b)
                got, out = rec.run(env, text)
                rng = [e for e in got if e[0] == 'range']
                if len(rng) != 1 or len([e for e in got if e[0] == 'cell']) != 0:
                    return fail('%r: expected exactly one range event, got %r' % (text, got))
                s, e = rng[0][1], rng[0][2]
                want_s = [min(rowa, rowb) - 1, min(cia, cib)]
                want_e = [max(rowa, rowb) - 1, max(cia, cib)]
                if [s[1], s[2]] != want_s or [e[1], e[2]] != want_e:
                    return fail('%r: range event corners %r / %r, expected top-left %r and bottom-right %r' % (
                        text, s[:3], e[:3], want_s, want_e), [want_s, want_e], [s, e])
                for nm, cell in (('start', s), ('end', e)):
                    label, ri, ci, rabs, cabs, rlab, clab = cell
                    spelled = label.replace('$', '')
                    wantlab = col_label(ci) + str(ri + 1)
                    if spelled != wantlab or label != label.upper():
                        return fail('%r: the %s cell of the range event has coordinates row %d, col %d (= %s) but is '
                                    'labelled %r' % (text, nm, ri, ci, wantlab, label), wantlab, label)
                    if rlab != str(ri + 1) or clab.upper() != col_label(ci):
                        return fail('%r: %s cell row/col part labels %r/%r disagree with indices %d/%d' % (
                            text, nm, rlab, clab, ri, ci))
                    want_with_flags = ('$' if cabs else '') + col_label(ci) + ('$' if rabs else '') + str(ri + 1)
                    if label != want_with_flags:
                        return fail('%r: %s cell label %r disagrees with its absolute flags (col %s, row %s)' % (
                            text, nm, label, cabs, rabs), want_with_flags, label)
                # a one-row or one-column range has its two written corners AS its top-left and bottom-right cells: the
                # event carries those two cells, markers and all, whichever was written first ("however the corners were
                # written": A2:$A1 and $A1:A2 are one range)
                if (rowa == rowb) != (cia == cib):
                    written = sorted([[rowa - 1, cia, bool(pat & 2), bool(pat & 1)],
                                      [rowb - 1, cib, bool((pat >> 2) & 2), bool((pat >> 2) & 1)]])
                    delivered = [list(s[1:5]), list(e[1:5])]
                    if delivered != written:
                        return fail('%r: the range event carries the cells (row, col, row absolute, col absolute) %r; the '
                                    'top-left and bottom-right cells of this range are the written corners %r' % (
                                        text, delivered, written), written, delivered)
                # flags must be those written for that row / column
                flags = {}
                flags[('r', rowa - 1)] = bool(pat & 2)
                flags[('c', cia)] = bool(pat & 1)
                fb = {('r', rowb - 1): bool((pat >> 2) & 2), ('c', cib): bool((pat >> 2) & 1)}
                for nm, cell in (('start', s), ('end', e)):
                    for kind, idx, flag in (('r', cell[1], cell[3]), ('c', cell[2], cell[4])):
                        allowed = set()
                        if (kind, idx) in flags:
                            allowed.add(flags[(kind, idx)])
                        if (kind, idx) in fb:
                            allowed.add(fb[(kind, idx)])
                        if flag not in allowed:
                            return fail('%r: %s cell %s index %d reports is_absolute=%r, written markers allow %r' % (
                                text, nm, kind, idx, flag, sorted(allowed)))
        return None


# --------------------------------------------------------------------------
# setter protocol (K1: every sequence of setter calls)

SETVALS = [None, 0, False, '', 0.0, [], 5, 'x']
KINDS = ('cell', 'range', 'var', 'var-unset', 'fn', 'fn-unset')


class Setter(Sub):
    name = 'c10.setter'
    rule = ('every sequence of <= 3 setter calls over {None,0,FALSE,"",0.0,[],5,"x"}, issued by one listener or split over '
            'two listeners, for each event kind (cell, range, set variable, unset variable, function, unknown function) and with no listener '
            'at all: the value of the reference is the last non-None argument, else the default (blank / the variable / '
            '#NAME? / the function result); non-trivial = sequence containing a falsy non-None value')
    min_cases = 500
    min_nontrivial = 300
    min_classes = 3

    def cases(self, tier, unit):
        for kind in KINDS:
            yield [kind, [], 0]
            for n in (1, 2, 3):
                for seq in itertools.product(range(len(SETVALS)), repeat=n):
                    for split in range(0, n):
                        if n == 3 and split == 1 and tier == 'quick' and sum(seq) % 2:
                            continue
                        yield [kind, list(seq), split]

    def check(self, env, case):
        kind, seq, split = case
        vals = [SETVALS[i] for i in seq]
        p = env.new_parser()
        event = {'cell': 'callCellValue', 'range': 'callRangeValue', 'var': 'callVariable', 'var-unset': 'callVariable',
                 'fn': 'callFunction', 'fn-unset': 'callFunction'}[kind]
        text = {'cell': 'B7', 'range': 'B7:C9', 'var': 'myvar', 'var-unset': 'myvar', 'fn': 'MYFN(1)', 'fn-unset': 'MYFN(1)'}[kind]
        default = {'cell': None, 'range': None, 'var': 'dflt', 'var-unset': '#NAME?', 'fn': 'fnres', 'fn-unset': '#NAME?'}[kind]
        if kind == 'var':
            p.set_variable('myvar', 'dflt')
        if kind == 'fn':
            p.set_function('MYFN', lambda x: 'fnres')
        calls = []

        def mk(part):
            def listener(*args):
                setter = args[-1]
                calls.append(len(part))
                r = None
                for v in part:
                    r = setter(v)
                # listeners written as `cond and setter(v)` return False: a return value never matters
                return False if (len(part) + len(calls)) % 2 else r
            return listener
        if vals:
            first, second = (vals[:split], vals[split:]) if split else (vals, None)
            p.on(event, mk(first))
            if second is not None:
                p.on(event, mk(second))
        env.evals += 1
        try:
            r = p.parse(text)
        except Exception as e:
            return fail('%s with setter calls %r raised %s' % (text, vals, type(e).__name__))
        nonnone = [v for v in vals if v is not None]
        if any(v is not None and not v for v in vals):
            env.nt()
        env.note(kind)
        if nonnone:
            want = nonnone[-1]
            ok = r['error'] is None and r['result'] == want and type(r['result']) is type(want)
        elif default == '#NAME?':
            want = '#NAME?'
            ok = r == {'result': None, 'error': '#NAME?'}
        else:
            want = default
            ok = r == {'result': default, 'error': None}
        if not ok:
            return fail('%s event for %r: setter called with %r (listeners: %s) -> %r, expected %r' % (
                event, text, vals, 'none' if not vals else ('two' if split else 'one'), env.out(r), want), enc(want),
                env.out(r))
        expected_calls = 0 if not vals else (2 if split else 1)
        if len(calls) != expected_calls:
            return fail('%s for %r: %d listener invocations, expected %d (one event per reference)' % (
                event, text, len(calls), expected_calls))
        return None


SUB_OPS = [['off', None], ['off', 'L1'], ['on', 'L1'], ['on', 'L2'], ['once', 'L1'], ['on', 'L1c'], ['parse']]


class Subscriptions(Sub):
    name = 'c10.subscriptions'
    rule = ('every sequence of <= 3 subscription operations on a fresh parser - off(event), off(event, L1), on L1, on L2, once L1, '
            'on L1 with a context, an evaluation in between - for each of the four events, then two evaluations: the listeners '
            'are called by parse() exactly as the emitter model says (subscription order, once-listeners once, removed ones '
            'not at all; an off() before anything was subscribed changes nothing), and the reference takes the last value set; '
            'non-trivial = sequence with an off before an on')
    min_cases = 400
    min_nontrivial = 100

    def cases(self, tier, unit):
        for kind in ('cell', 'range', 'var', 'fn'):
            for n in (1, 2, 3):
                for seq in itertools.product(range(len(SUB_OPS)), repeat=n):
                    yield [kind, list(seq)]

    def check(self, env, case):
        from .c20 import ModelEmitter
        kind, seq = case
        event = {'cell': 'callCellValue', 'range': 'callRangeValue', 'var': 'callVariable', 'fn': 'callFunction'}[kind]
        text = {'cell': 'B7+1', 'range': 'SUM(B7:C9)+1', 'var': 'myvar+1', 'fn': 'MYFN(1)+1'}[kind]
        p = env.new_parser()
        m = ModelEmitter()
        if kind == 'var':
            p.set_variable('myvar', 100)
        if kind == 'fn':
            p.set_function('MYFN', lambda x: 100)
        log, mlog = [], []
        vals = {'L1': 10, 'L2': 20, 'L1c': 30}

        def mk(tag, store):
            def listener(*args, **ctx):
                setter = args[-1]
                store.append([tag, sorted(ctx.items())])
                v = vals[tag]
                setter([[v]] if kind == 'range' else v)
            return listener
        real = dict((t, mk(t, log)) for t in vals)
        model = dict((t, mk(t, mlog)) for t in vals)
        ops = [SUB_OPS[i] for i in seq]
        offs_before_on = False
        seen_on = False
        for op in ops + [['parse'], ['parse']]:
            if op[0] == 'parse':
                env.evals += 1
                before = len(mlog)
                last = {'v': None}
                args = {'cell': (None,), 'range': (None, None), 'var': ('myvar',), 'fn': ('MYFN', [1])}[kind]
                m.emit(event, *(args + ((lambda v: last.__setitem__('v', v)),)))
                try:
                    o = env.out(p.parse(text))
                except Exception as e:
                    o = ['x', type(e).__name__]
                lv = last['v']
                base = {'cell': 0, 'range': 0, 'var': 100, 'fn': 100}[kind]
                got_v = (lv[0][0] if kind == 'range' else lv) if lv is not None else base
                want = ['v', got_v + 1]
                if log != mlog:
                    return fail('%s after %r: parse(%r) called the listeners %r, the emitter model says %r' % (event, ops, text, log, mlog), mlog, log)
                if o != want:
                    return fail('%s after %r: parse(%r) = %r, expected %r (value of the last listener that answered)' % (event, ops, text, o, want), want, o)
                continue
            tag = op[1]
            for em, table in ((p, real), (m, model)):
                if op[0] == 'off':
                    em.off(event) if tag is None else em.off(event, table[tag])
                elif op[0] == 'once':
                    em.once(event, table[tag])
                elif tag == 'L1c':
                    em.on(event, table[tag], {'k': 1})
                else:
                    em.on(event, table[tag])
            if op[0] == 'off' and not seen_on:
                offs_before_on = True
            if op[0] in ('on', 'once'):
                seen_on = True
        if offs_before_on and seen_on:
            env.nt()
        env.note(kind)
        return None


RAISING = [
    # (formula, expected events, expected outcome) - functions that RAISE (built-in domain errors, aggregates over an error,
    # a raising custom function) still are function calls: one callFunction event each, after their arguments
    ('SQRT(0-1)', [['fn', 'SQRT', [-1]]], None),
    ('IFERROR(SQRT(0-1),A1)', [['fn', 'SQRT', [-1]], ['cell', 'A1'], ['fn', 'IFERROR', ['ANYERR', 2]]], ['v', 2]),
    ('SUM(1/0,A1)', [['cell', 'A1'], ['fn', 'SUM', [{'$err': '#DIV/0!'}, 2]]], ['e', '#DIV/0!']),
    ('RAISER(A1)+va', [['cell', 'A1'], ['fn', 'RAISER', [2]], ['var', 'va']], None),
    ('IFERROR(RAISER(1),REC(2))', [['fn', 'RAISER', [1]], ['fn', 'REC', [2]], ['fn', 'IFERROR', ['ANYERR', 101]]], ['v', 101]),
    ('LN(0)+LOG(0-1)', [['fn', 'LN', [0]], ['fn', 'LOG', [-1]]], None),
    ('MAX(NA(),A1)', [['fn', 'NA', []], ['cell', 'A1'], ['fn', 'MAX', [{'$err': '#N/A'}, 2]]], ['e', '#N/A']),
    ('ISERROR(ACOS(5))', [['fn', 'ACOS', [5]], ['fn', 'ISERROR', ['ANYERR']]], ['v', True]),
    ('REC(RAISER(1),RAISER(2))', [['fn', 'RAISER', [1]], ['fn', 'RAISER', [2]], ['fn', 'REC', ['ANYERR', 'ANYERR']]], ['v', 102]),
]


class RaisingCalls(Sub):
    name = 'c10.raising_calls'
    rule = ('9 formulas whose function calls raise (domain errors of built-ins, aggregates over an error item, a raising '
            'custom function), alone and under trapping functions: every call still raises exactly one callFunction event, '
            'after the events of its arguments, and a listener can override the value of a raising call through the setter; '
            'non-trivial = all')
    min_cases = 9
    min_nontrivial = 9

    def cases(self, tier, unit):
        for i in range(len(RAISING)):
            yield i

    def check(self, env, case):
        text, want_events, want_out = RAISING[case]
        env.nt()

        def raiser(*a):
            raise ValueError('raised by a custom function')
        rec = Recorder(env, cellval=lambda c: CELLVALS.get(c.label), rangeval=lambda s, e: RANGEVAL)
        rec.p.set_variable('va', VARS['va'])
        rec.p.set_function('REC', lambda *a: rec_value(a))
        rec.p.set_function('RAISER', raiser)
        got, out = rec.run(env, text)
        slim = []
        for e in got:
            if e[0] == 'cell':
                slim.append(['cell', e[1]])
            elif e[0] == 'range':
                slim.append(['range', e[1][0], e[2][0]])
            else:
                slim.append(e)
        ok = len(slim) == len(want_events)
        if ok:
            for g, w in zip(slim, want_events):
                if g[:2] != w[:2] or len(g) != len(w):
                    ok = False
                    break
                if len(w) > 2:
                    if len(g[2]) != len(w[2]):
                        ok = False
                        break
                    for ga, wa in zip(g[2], w[2]):
                        if wa == 'ANYERR':
                            if not (isinstance(ga, dict) and '$err' in ga):
                                ok = False
                        elif ga != wa:
                            ok = False
        if not ok:
            return fail('%r raised events %r, expected %r (one event per call, also for calls that raise)' % (
                text, slim, want_events), want_events, slim)
        if want_out is not None and out != want_out:
            return fail('%r evaluates to %r, expected %r' % (text, out, want_out), want_out, out)
        # the setter of a raising call's event overrides its value
        p = env.new_parser()
        p.set_function('RAISER', raiser)
        p.on('callFunction', lambda name, args, setter: setter(55) if name in ('RAISER', 'SQRT') else None)
        env.evals += 2
        for f in ('RAISER(1)+1', 'SQRT(0-1)+1'):
            o = env.out(p.parse(f))
            if o != ['v', 56]:
                return fail('%s with a callFunction listener that sets 55 for the raising call gives %r, expected 56' % (f, o),
                            ['v', 56], o)
        return None



class EventScale(Sub):
    name = 'c10.scale'
    rule = ('size ladder of the number n of references in one formula: A1+A2+...+An, SUM(A1,...,An) (n <= 1025), v1&v2&...&vn over n '
            'variables, FN(FN(...)) n calls nested in arguments of +: exactly n events, in left-to-right order, each with its own '
            'label and coordinates, and the value computed from the n answers; non-trivial = all')
    min_cases = 40
    min_nontrivial = 40

    def cases(self, tier, unit):
        for n in scale(tier, 1025):
            for kind in ('cells', 'args', 'vars', 'calls', 'ranges'):
                yield [n, kind]

    def check(self, env, case):
        n, kind = case
        env.nt()
        p = env.new_parser()
        ev = []
        p.on('callCellValue', lambda c, s: (ev.append(['cell', c.label, c.row.index, c.col.index]), s(c.row.index + 1)))
        p.on('callRangeValue', lambda a, b, s: (ev.append(['range', a.label, b.label, a.row.index, b.row.index]), s([[a.row.index + 1]])))
        p.on('callVariable', lambda name, s: ev.append(['var', name]))
        p.on('callFunction', lambda name, args, s: ev.append(['fn', name, list(args)]))
        if kind == 'cells':
            text = '+'.join('A%d' % i for i in range(1, n + 1))
            want_ev = [['cell', 'A%d' % i, i - 1, 0] for i in range(1, n + 1)]
            want = n * (n + 1) // 2
        elif kind == 'args':
            text = 'SUM(%s)' % ','.join('B%d' % i for i in range(1, n + 1))
            want_ev = [['cell', 'B%d' % i, i - 1, 1] for i in range(1, n + 1)] + [['fn', 'SUM', list(range(1, n + 1))]]
            want = n * (n + 1) // 2
        elif kind == 'vars':
            names = ['v' + ''.join('abcdefghij'[int(d)] for d in str(i)) for i in range(n)]
            for i, nm in enumerate(names):
                p.set_variable(nm, i % 10)
            text = '&'.join(names)
            want_ev = [['var', nm] for nm in names]
            want = ''.join(str(i % 10) for i in range(n)) if n > 1 else 0
        elif kind == 'calls':
            p.set_function('FN', lambda x: x + 1)
            text = '+'.join('FN(%d)' % i for i in range(n))
            want_ev = [['fn', 'FN', [i]] for i in range(n)]
            want = n * (n + 1) // 2
        else:
            text = '+'.join('SUM(C%d:C%d)' % (i, i + 1) for i in range(1, n + 1))
            want_ev = []
            for i in range(1, n + 1):
                want_ev += [['range', 'C%d' % i, 'C%d' % (i + 1), i - 1, i], ['fn', 'SUM', [[[i]]]]]
            want = n * (n + 1) // 2
        env.evals += 1
        try:
            r = p.parse(text)
        except Exception as e:
            return fail('a formula with %d %s raised %s' % (n, kind, type(e).__name__))
        o = env.out(r)
        if ev != want_ev:
            k = next((i for i in range(min(len(ev), len(want_ev))) if ev[i] != want_ev[i]), min(len(ev), len(want_ev)))
            return fail('a formula with %d %s (%s ...): %d events, expected %d; first difference at event %d: got %r, expected %r' % (
                n, kind, text[:40], len(ev), len(want_ev), k, ev[k] if k < len(ev) else None, want_ev[k] if k < len(want_ev) else None),
                repr(want_ev[k:k + 2]), repr(ev[k:k + 2]))
        if o != ['v', want]:
            return fail('a formula with %d %s (%s ...) evaluates to %s, expected %s' % (n, kind, text[:40], repr(o)[:80], repr(want)[:80]),
                        repr(want)[:200], repr(o)[:200])
        return None


SUBS = [Order(), Labels(), Ranges(), Setter(), Subscriptions(), RaisingCalls(), EventScale()]
