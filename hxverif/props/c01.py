# -*- coding: utf-8 -*-
"""C01 - parse() is total and well-formed (K3 + exhaustive fault enumeration).

Every call is executed under the deterministic step budget (budget.py): "returns in bounded
time" means "within 200 000 line/jump events", never wall-clock time."""
import itertools
import sys
import unicodedata

from ..core import Sub, fail, CANON_CODES, enc
from ..budget import Budget
from .. import snapshot

BOUNDS = {
    'quick': 'token soups: all concatenations of <= 3 lexemes from a 38-lexeme alphabet (56 k); every code point below '
             'U+3000 + one per general category + surrogates in 5 contexts; 156 documented functions x arities 0..2 over a '
             '15-value pool + arity 3 over a 6-value pool; callback faults: 21 templates x (every callback invocation x 27 '
             'exception kinds + 17 return values), <= 1 fault; callback actions: 21 templates x every invocation x 14 actions; every prefix and single-character deletion of a 60-formula '
             'corpus',
    'thorough': 'token soups to length 4 (2.1 M); all 1.1 M code points x 5 contexts; arity 3 over the full pool and arity '
                '4 over an 8-value pool; all placements of <= 2 faults',
}
ASSUMPTIONS = ['bounded time = at most 200 000 line/jump events of the interpreter per parse (largest count seen on '
               'terminating calls is reported as max_line_events)',
               'only Exception subclasses are injected into callbacks (KeyboardInterrupt/SystemExit are not "raising callbacks")',
               'a result that is a list *containing* error objects is not excluded by the statement',
               'the typed pool of the function sweep holds numbers <= 1000 in magnitude; huge arguments (1e9 .. 1e308) and huge integer powers are the subject of c01.blowups, where a 3 s CPU-time alarm (wall-clock backstop 30 s) stands in for the step budget',
               'host lists that contain themselves and lists nested 3000 deep are in the bound']


def wellformed(r):
    """-> None or a description of the malformation"""
    if isinstance(r, tuple) and r and r[0] == 'raised':
        return 'parse raised %s: %s' % (type(r[1]).__name__, _safe(r[1]))
    if not isinstance(r, dict):
        return 'parse returned %s, not a record' % type(r).__name__
    if set(r.keys()) != {'result', 'error'}:
        return 'record has keys %r' % sorted(r.keys())
    err = r['error']
    if err is not None:
        if not isinstance(err, str) or err not in CANON_CODES:
            return 'error entry %r is not one of the nine canonical codes' % (err,)
        if r['result'] is not None:
            return 'error %r is set but result is %r' % (err, _safe(r['result']))
    res = r['result']
    if isinstance(res, BaseException):
        return 'result is itself an error object (%s)' % _safe(res)
    # a one-item array / one-cell range is its item, however deep it is nested: a result that is nothing but an error object
    # wrapped in one-item lists is an error object
    depth, seen = 0, set()
    while isinstance(res, (list, tuple)) and len(res) == 1 and id(res) not in seen:
        seen.add(id(res))
        res = res[0]
        depth += 1
    if depth and isinstance(res, BaseException):
        return 'result is an error object (%s) wrapped in %d one-item lists, the error entry is empty' % (_safe(res), depth)
    return None


def _safe(x):
    try:
        return repr(x)[:100]
    except Exception:
        return '<unrepresentable %s>' % type(x).__name__


def budget_of(env):
    b = getattr(env, '_budget', None)
    if b is None:
        b = env._budget = Budget()
    return b


def run_parse(env, parser, text, per_char=0):
    """-> (problem or None, raw).  per_char: extra line events allowed per input character (deep/long inputs)"""
    b = budget_of(env)
    b.limit = 200000 + per_char * len(text)
    env.evals += 1
    kind, val = b.run(parser.parse, text)
    env.maxline = max(getattr(env, 'maxline', 0), b.max_seen)
    if kind == 'budget':
        return 'parse did not return within %d line events (non-termination)' % b.limit, None
    if kind == 'raised':
        return 'parse raised %s: %s' % (type(val).__name__, _safe(val)), None
    return wellformed(val), val


def shared_parser(env):
    p = getattr(env, '_c01p', None)
    if p is None:
        p = env._c01p = env.new_parser()
        p.set_variable('va', 5)
        p.set_function('FN', lambda *a: 1)
    return p


LEXEMES = ['1', '23', '.', '%', '^', '"a"', "'b'", '"', "'", 'SUM(', 'NOSUCH(', 'A1', '$B$2', 'C$3', 'va', 'nosuch', 'TRUE',
           '#N/A', '#DIV/0!', '#', '!', '(', ')', '{', '}', ',', ';', '\\', ':', '+', '-', '*', '/', '&', '<', '>=', '=',
           ' ', 'é', '<>']


class Soups(Sub):
    name = 'c01.token_soups'
    rule = ('every concatenation of up to L lexemes from a 40-lexeme alphabet (one per lexer token class + an unterminated '
            'quote, a non-ASCII letter, lone #, !, an unknown function opener); non-trivial = soup the parser rejects')
    min_cases = 30
    min_nontrivial = 100
    min_classes = 3

    def cases(self, tier, unit):
        L = 3 if tier == 'quick' else 4
        yield ['blk', []]
        for a in range(len(LEXEMES)):
            if L == 3:
                yield ['blk', [a]]
            else:
                for b in range(len(LEXEMES)):
                    yield ['blk', [a, b]]

    def one(self, env, text):
        p = shared_parser(env)
        prob, raw = run_parse(env, p, text)
        if prob:
            return fail('parse(%r): %s' % (text, prob), 'a well-formed record', None, case=['one', text])
        if raw['error'] is not None:
            env.nt()
            env.note(raw['error'])
        else:
            env.note('accepted')
        return None

    def check(self, env, case):
        if case[0] == 'one':
            return self.one(env, case[1])
        prefix = case[1]
        out = []
        if not prefix:
            texts = ['', ' ', '\n']
            for t in texts:
                f = self.one(env, t)
                if f:
                    out.append(f)
            return out
        L = getattr(self, '_L', None)
        base = ''.join(LEXEMES[i] for i in prefix)
        # the block covers: the prefix itself, and all extensions by up to 2 more lexemes
        f = self.one(env, base) if len(prefix) == 1 or True else None
        if f:
            out.append(f)
        for b in LEXEMES:
            f = self.one(env, base + b)
            if f:
                out.append(f)
            for c in LEXEMES:
                f = self.one(env, base + b + c)
                if f:
                    out.append(f)
            if len(out) > 20:
                break
        return out


CONTEXTS = ('%s', '1+%s', '"%s"', 'SUM(%s)', '%s(1)')


def category_reps():
    seen = {}
    for cp in range(0x110000):
        if 0xD800 <= cp <= 0xDFFF:
            continue
        cat = unicodedata.category(chr(cp))
        if cat not in seen:
            seen[cat] = cp
    return sorted(seen.values())


class CodePoints(Sub):
    name = 'c01.code_points'
    rule = ('every code point of the bound as a one-character formula and embedded in 1+X, "X", SUM(X), X(1); lone '
            'surrogates included; non-trivial = non-ASCII code point')
    min_cases = 10
    min_nontrivial = 1000
    BLOCK = 2048

    def cases(self, tier, unit):
        top = 0x3000 if tier == 'quick' else 0x110000
        for lo in range(0, top, self.BLOCK):
            yield ['blk', lo, min(top, lo + self.BLOCK)]
        if tier == 'quick':
            yield ['list', category_reps()]
            yield ['blk', 0xD7F0, 0xE010]
            yield ['blk', 0xFFF0, 0x10010]
            yield ['blk', 0x10FFF0, 0x110000]

    def check(self, env, case):
        if case[0] == 'one':
            cps = [case[1]]
        elif case[0] == 'list':
            cps = case[1]
        else:
            cps = range(case[1], case[2])
        p = shared_parser(env)
        out = []
        for cp in cps:
            ch = chr(cp)
            if cp > 127:
                env.nt()
            for ctx in CONTEXTS:
                text = ctx % ch
                prob, raw = run_parse(env, p, text)
                if prob:
                    out.append(fail('parse(%r) [U+%04X in %r]: %s' % (text, cp, ctx, prob), None, None, case=['one', cp]))
                    break
            if len(out) > 10:
                break
        return out


def pool(env, size):
    import datetime
    d = env.dec
    full = [0, 1, -1, 2.5, 1000, '3', 'abc', '', True, None, datetime.datetime(2019, 11, 20, 6, 0),
            d({'$err': '#N/A'}), [1, 2], [[1, 2], [3, 4]], []]
    if size == 15:
        return full
    if size == 8:
        return [0, 1, -1, 'abc', None, d({'$err': '#DIV/0!'}), [1, 2], 2.5]
    return [0, -1, 'abc', None, d({'$err': '#N/A'}), [1, 2]]


def documented(env):
    from .c09 import supported_lists
    return supported_lists()[0]


class Functions(Sub):
    name = 'c01.function_sweep'
    rule = ('each documented function x every arity of the bound x every argument tuple over a pool with one value of every '
            'type (numbers, text, logical, blank, date, error value, flat/nested/empty arrays), arguments bound as '
            'variables; non-trivial = call that yields an error code')
    min_cases = 150
    min_nontrivial = 1000
    min_classes = 5

    def cases(self, tier, unit):
        names = documented(None)
        for ni in range(len(names)):
            yield ['fn', ni, 0, 15]
            yield ['fn', ni, 1, 15]
            yield ['fn', ni, 2, 15]
            if tier == 'quick':
                yield ['fn', ni, 3, 6]
            else:
                for first in range(15):
                    yield ['fn', ni, 3, 15, first]
                for first in range(8):
                    yield ['fn', ni, 4, 8, first]

    def check(self, env, case):
        names = documented(env)
        if case[0] == 'one':
            _, name, psize, idxs = case
            return self.one(env, name, psize, idxs)
        _, ni, arity, psize = case[:4]
        first = case[4] if len(case) > 4 else None
        name = names[ni]
        out = []
        for idxs in itertools.product(range(psize), repeat=arity):
            if first is not None and idxs[0] != first:
                continue
            f = self.one(env, name, psize, list(idxs))
            if f:
                out.append(f)
                if len(out) > 8:
                    break
        return out

    def one(self, env, name, psize, idxs):
        vals = pool(env, psize)
        argn = ['xa', 'xb', 'xc', 'xd'][:len(idxs)]
        key = ('c01fn', len(idxs))
        cache = env.__dict__.setdefault('_c01fnp', {})
        p = cache.get(len(idxs))
        if p is None:
            p = cache[len(idxs)] = env.new_parser()
        for n, i in zip(argn, idxs):
            p.set_variable(n, vals[i])
        text = '%s(%s)' % (name, ','.join(argn))
        prob, raw = run_parse(env, p, text)
        if prob:
            return fail('%s with %s: %s' % (text, ', '.join('%s=%s' % (n, _safe(vals[i])) for n, i in zip(argn, idxs)), prob),
                        None, None, case=['one', name, psize, list(idxs)])
        if raw['error'] is not None:
            env.nt()
            env.note(raw['error'])
        else:
            env.note('value')
        return None


# --------------------------------------------------------------------------
# callback faults

class BadStr(Exception):
    def __str__(self):
        raise RuntimeError('str() of this exception raises')


class WeirdArgs(Exception):
    def __init__(self):
        Exception.__init__(self, 1, None, ['#N/A'])


class Unhashable(Exception):
    def __eq__(self, other):
        return self is other
    __hash__ = None


class StrNotStr(Exception):
    def __str__(self):
        return 42


class ReprRaises(Exception):
    def __repr__(self):
        raise RuntimeError('repr() raises')


class EqRaises(Exception):
    def __eq__(self, other):
        raise RuntimeError('== raises')

    def __hash__(self):
        return 7


class HashRaises(Exception):
    def __hash__(self):
        raise RuntimeError('hash() raises')


class Frozen(Exception):
    """an exception object that refuses attribute assignment (frozen dataclass style): cleaning up `e.__traceback__ = None`
    or annotating the exception fails"""

    def __setattr__(self, name, value):
        raise AttributeError('cannot assign to field %r' % name)


class Slotted(Exception):
    __slots__ = ()


def exception_menu(env):
    E = env.err
    return [
        ('ValueError', lambda: ValueError('boom')),
        ('ZeroDivisionError', lambda: ZeroDivisionError('division by zero')),
        ('KeyError', lambda: KeyError('k')),
        ('TypeError', lambda: TypeError('t')),
        ('StopIteration', lambda: StopIteration()),
        ('RecursionError', lambda: RecursionError('deep')),
        ('SyntaxError', lambda: SyntaxError('syn')),
        ('XLError singleton', lambda: E.VALUE),
        ('XLError NAME singleton', lambda: E.NAME),
        ('fresh XLError non-canonical', lambda: E.XLError('#WEIRD!')),
        ('fresh XLError no args', lambda: E.XLError()),
        ('Exception("#N/A")', lambda: Exception('#N/A')),
        ('exception whose __str__ raises', lambda: BadStr()),
        ('exception with odd args', lambda: WeirdArgs()),
        ('MemoryError', lambda: MemoryError()),
        ('UnicodeDecodeError', lambda: UnicodeDecodeError('utf-8', b'\xff', 0, 1, 'bad')),
        ('AssertionError', lambda: AssertionError()),
        ('unhashable exception', lambda: Unhashable('u')),
        ('exception whose __str__ returns a non-string', lambda: StrNotStr()),
        ('exception whose __repr__ raises', lambda: ReprRaises('r')),
        ('exception whose __eq__ raises', lambda: EqRaises('e')),
        ('exception whose __hash__ raises', lambda: HashRaises('h')),
        ('exception with a non-string message object', lambda: Exception(object())),
        ('OSError with errno', lambda: OSError(2, 'No such file')),
        ('exception chained from an error value', lambda: _chained(E)),
        ('exception refusing attribute assignment', lambda: Frozen('frozen')),
        ('exception with empty __slots__', lambda: Slotted('slotted')),
    ]


def _chained(E):
    try:
        try:
            raise E.NUM
        except Exception as inner:
            raise ValueError('outer') from inner
    except ValueError as e:
        return e


def _selfref(kind):
    """a host list that contains itself (directly / through a row)"""
    if kind == 3:
        l = []
        l.append(l)          # a one-item list whose item is itself
        return l
    l = [1, 2]
    l.append(l if kind == 1 else [3, l])
    return l


def return_menu(env):
    X = env.err.XLError
    return [None, 0, 'txt', True, [1, 2], env.dec({'$err': '#REF!'}), X('#WEIRD!'), float('nan'), object(),
            {'result': 1},
            # error objects of the host's own making inside 1x1 and 1xN lists (what a range listener hands in)
            [[X('#SPILL!')]], [X('#CALC!')], [[X()]], [[env.dec({'$err': '#N/A'})]], [[X('#WEIRD!'), 1], [2, 3]], [[5]], [],
            _selfref(1), _selfref(2), _selfref(3)]


TEMPLATES = ['FN(1)', 'A1', 'B1:B1', 'va', 'FN(1)+{1,2}', '{1,2}*A1', 'va&FN(1)', 'FN(1)=A1', 'FN(1)+10', '10+FN(1)*3', 'SUM(FN(1),5)', 'FN(FN(1))', 'FN(1)&FN(2)', 'va+1', 'A1+B2', 'SUM(A1:B2)',
             'IF(FN(1)>0,va,A1)', '-FN(1)', 'IFERROR(FN(1),A1)', '{1,2}+FN(3)', 'FN(va,A1,B1:C2)']

EVENTS = ('callFunction', 'callVariable', 'callCellValue', 'callRangeValue')


class Faults(Sub):
    name = 'c01.callback_faults'
    rule = ('21 templates reaching every host callback (custom function, listeners of the four events); every callback '
            'invocation of a template either behaves or raises one of 27 exception kinds (hostile __str__/__hash__/__eq__/'
            '__repr__ included) / returns or sets one of 20 odd '
            'values (incl. host-made error objects inside 1x1 lists); all placements of up to F faults; non-trivial = placement where a callback raised')
    min_cases = 500
    min_nontrivial = 300
    min_classes = 3

    def cases(self, tier, unit):
        nmenu = 27 + 20
        for ti in range(len(TEMPLATES)):
            yield [ti, []]
            # first pass discovers how many callback invocations the template has; enumerate up to 12 sites
            for site in range(12):
                for m in range(nmenu):
                    yield [ti, [[site, m]]]
            if tier == 'thorough':
                for s1 in range(8):
                    for s2 in range(s1 + 1, 8):
                        for m1 in range(nmenu):
                            for m2 in (0, 6, 7, 12, 17, 25, 27, 32, 37):
                                yield [ti, [[s1, m1], [s2, m2]]]

    def check(self, env, case):
        ti, faults = case
        text = TEMPLATES[ti]
        excs = exception_menu(env)
        rets = return_menu(env)
        plan = dict((s, m) for s, m in faults)
        counter = {'n': 0, 'fired': 0, 'raised': 0}

        def site(default_return, setter=None):
            """one callback invocation"""
            n = counter['n']
            counter['n'] += 1
            m = plan.get(n)
            if m is None:
                if setter is not None and default_return is not None:
                    setter(default_return)
                return default_return
            counter['fired'] += 1
            if m < len(excs):
                counter['raised'] += 1
                raise excs[m][1]()
            v = rets[m - len(excs)]
            if setter is not None:
                setter(v)
            return v

        p = env.new_parser()
        p.set_variable('va', 4)
        p.set_function('FN', lambda *a: site(7))
        p.on('callFunction', lambda name, args, setter: site(None, setter))
        p.on('callVariable', lambda name, setter: site(None, setter))
        p.on('callCellValue', lambda cell, setter: site(3, setter))
        p.on('callRangeValue', lambda s, e, setter: site([[1, 2], [3, 4]], setter))
        prob, raw = run_parse(env, p, text)
        if len(plan) and counter['fired'] < len(plan):
            env.note('site beyond the template')
            return None         # the placement names a site the template does not have
        if counter['raised']:
            env.nt()
        env.note('raised%d' % counter['raised'])
        if prob:
            desc = ', '.join('invocation %d %s' % (s, (excs[m][0] if m < len(excs) else 'returns/sets %s' % _safe(rets[m - len(excs)])))
                             for s, m in faults)
            return fail('parse(%r) with callbacks [%s]: %s' % (text, desc or 'all behaving', prob), None, None)
        return None


class WallTimeout(BaseException):
    pass


# The alarms of this module count the CPU time of the checking process (ITIMER_PROF: user + system time), with a
# wall-clock backstop ten times as long: a machine under load stretches wall-clock time without bound (a comment-only
# change to the library was once reported because twenty other jobs shared the cores) but CPU time hardly, while
# something blocked below the Python level burns no CPU and is still caught by the backstop.
BACKSTOP = 10


def _install(handler):
    import signal
    return (signal.signal(signal.SIGALRM, handler), signal.signal(signal.SIGPROF, handler))


def _restore(olds):
    import signal
    _disarm()
    signal.signal(signal.SIGALRM, olds[0])
    signal.signal(signal.SIGPROF, olds[1])


def _arm(seconds):
    import signal
    signal.setitimer(signal.ITIMER_PROF, seconds)
    signal.setitimer(signal.ITIMER_REAL, BACKSTOP * seconds)


def _disarm():
    import signal
    signal.setitimer(signal.ITIMER_PROF, 0)
    signal.setitimer(signal.ITIMER_REAL, 0)


ACTION_INNER = ['1+1', 'FN(1)+va', 'A1+SUM(A1:B2)', '1+', 'nosuch']
ACTIONS = ([('parse-same', t) for t in ACTION_INNER] + [('parse-other', 'FN(1)+va+A1')] +
           [('rearm-all', None), ('chain-all', None), ('once-chain', None), ('off-all', None), ('off-on', None),
            ('set_variable', None), ('set_function', None), ('new-parser', None)])


class Actions(Sub):
    name = 'c01.callback_actions'
    rule = ('21 templates x every callback invocation x 14 things a well-behaved host callback may DO besides returning '
            '(evaluate one of 5 formulas on the SAME parser or another one, subscribe listeners that subscribe further '
            'listeners when called, re-subscribe itself, unsubscribe everything, rebind a variable or function, build a '
            'parser): parse returns a well-formed record within the step budget and within a 5 s CPU-time alarm (wall-clock backstop 50 s) '
            '(a deadlock executes no Python lines); non-trivial = the action ran')
    min_cases = 500
    min_nontrivial = 300
    min_classes = 5
    ALARM = 5

    def cases(self, tier, unit):
        for ti in range(len(TEMPLATES)):
            for site in range(12):
                for a in range(len(ACTIONS)):
                    yield [ti, [[site, a]]]
            if tier == 'thorough':
                for s1 in range(6):
                    for s2 in range(s1 + 1, 7):
                        for a1 in range(len(ACTIONS)):
                            for a2 in (1, 6, 7, 9):
                                yield [ti, [[s1, a1], [s2, a2]]]

    def check(self, env, case):
        import signal
        ti, plan_ = case
        if getattr(env, '_c01_stalls', 0) >= 2:
            env.note('skipped: two stalls already reported by this worker')
            return None
        text = TEMPLATES[ti]
        plan = dict((s_, a) for s_, a in plan_)
        counter = {'n': 0, 'fired': 0}
        box = {}

        def chain(name):
            st = {'armed': True}

            def listener(*a):
                if st['armed']:
                    st['armed'] = False
                    box['p'].on(name, chain(name))
            return listener

        def rearm(name):
            def listener(*a):
                box['p'].off(name, listener)
                box['p'].on(name, listener)
            return listener

        def once_chain(name):
            def listener(*a):
                box['p'].once(name, once_chain(name))
            return listener

        def act(kind, arg):
            p = box['p']
            if kind == 'parse-same':
                p.parse(arg)
            elif kind == 'parse-other':
                build().parse(arg)
            elif kind == 'chain-all':
                for name in EVENTS:
                    p.on(name, chain(name))
            elif kind == 'rearm-all':
                for name in EVENTS:
                    p.on(name, rearm(name))
            elif kind == 'once-chain':
                for name in EVENTS:
                    p.once(name, once_chain(name))
            elif kind == 'off-all':
                for name in EVENTS:
                    p.off(name)
            elif kind == 'off-on':
                for name in EVENTS:
                    p.off(name)
                listen(p)
            elif kind == 'set_variable':
                p.set_variable('va', 9)
                p.set_variable('vb', 1)
            elif kind == 'set_function':
                p.set_function('FN', lambda *a: 8)
                p.set_function('SUM', lambda *a: 8)
            elif kind == 'new-parser':
                env.new_parser()

        def site(default_return, setter=None):
            n = counter['n']
            counter['n'] += 1
            a = plan.get(n)
            if a is not None and box.get('level', 0) == 0:
                counter['fired'] += 1
                box['level'] = 1
                try:
                    act(*ACTIONS[a])
                finally:
                    box['level'] = 0
            if setter is not None and default_return is not None:
                setter(default_return)
            return default_return

        def listen(p):
            p.on('callFunction', lambda name, args, setter: site(None, setter))
            p.on('callVariable', lambda name, setter: site(None, setter))
            p.on('callCellValue', lambda cell, setter: site(3, setter))
            p.on('callRangeValue', lambda s_, e, setter: site([[1, 2], [3, 4]], setter))

        def build():
            p = env.new_parser()
            p.set_variable('va', 4)
            p.set_function('FN', lambda *a: site(7))
            listen(p)
            return p

        p = box['p'] = build()

        def onalarm(signum, frame):
            raise WallTimeout()
        old = _install(onalarm)
        _arm(self.ALARM)
        try:
            try:
                prob, raw = run_parse(env, p, text)
            except WallTimeout:
                # confirm on a fresh parser with a longer alarm (a loaded machine is not a deadlock)
                _disarm()
                counter['n'] = counter['fired'] = 0
                box.clear()
                p = box['p'] = build()
                _arm(6 * self.ALARM)
                try:
                    prob, raw = run_parse(env, p, text)
                except WallTimeout:
                    env._c01_stalls = getattr(env, '_c01_stalls', 0) + 1
                    prob = ('parse did not return within %d s of CPU time (nor within ten times that in wall-clock time) (and not within %d s before that; normal: < 10 ms): '
                            'blocked below the Python level (deadlock)' % (6 * self.ALARM, self.ALARM))
        finally:
            _disarm()
            _restore(old)
        if counter['fired'] < len(plan):
            env.note('site beyond the template')
            return None
        env.nt()
        for s_, a in plan_:
            env.note(ACTIONS[a][0])
        if prob:
            desc = ', '.join('callback invocation %d does %s%s' % (s_, ACTIONS[a][0], (' %r' % ACTIONS[a][1]) if ACTIONS[a][1] else '')
                             for s_, a in plan_)
            return fail('parse(%r) where %s: %s' % (text, desc, prob), None, None)
        return None



HUGE = [10 ** 9, 999999999999, -10 ** 9, 1e308, 2 ** 70, 0.5, 2, 'abc', '1e999999999']      # the last: TEXT spelling a huge number
NESTED_SUBSTITUTE = '"1111111111"'
for _ in range(6):
    NESTED_SUBSTITUTE = 'SUBSTITUTE(%s,"1","1111111111")' % NESTED_SUBSTITUTE
HUGE_LITERALS = ['9^999999999', '7*(9^99999999)', '2^1024', '99^999', '2^999999999^2', '10^400', '1/(9^99999999)', '(2^1023)*2', 'A' * 40000 + '1', '"' + '1' * 40000 + 'x"+1', '"' + '1' * 20000 + '.' + '2' * 20000 + 'e"*2',
                 'ABS("' + ' ' * 40000 + 'x")', '"' + '9' * 40000 + '"+1', '"' + '1-' * 20000 + '"+0', '"' + '1:' * 9000 + '"+0',
                 '999999999^999999999', '1^999999999', '0^999999999', 'SUM(9^999999999,1)', '-9^99999999', '9^99999999&"a"',
                 '9^99999999=9^99999999', 'IFERROR(9^999999999,1)', '"1e999999999"+0', '-"1e999999999"', '"5e-999999999"*2',
                 'COUNTIF({1,2},">1e999999999")', '"1e999999999"="1e999999999"', '"1e999999999"&""',
                 # whole numbers of 5 000 digits, negated, joined, compared, flattened
                 '-' + '9' * 5000 + '&""', '(0-' + '9' * 5000 + ')&"x"', '9' * 5000 + '&""', 'LEN(-' + '7' * 4400 + ')',
                 '(0-' + '9' * 5000 + ')=(0-' + '9' * 5000 + ')', 'CONCATENATE(0-' + '9' * 5000 + ',1)', 'SUM(-' + '1' * 5000 + ',1)&""',
                 'TEXTJOIN(",",TRUE,0-' + '9' * 5000 + ')',
                 # shapes whose cost grew with the SQUARE of their length (a pattern re-scanned from every position, a list copied
                 # once per item, a loop over the digits of a whole number of any size)
                 'TEXT(1,"' + 'a' * 60000 + '0")', 'TEXT(1,"' + 'a' * 60000 + '0a")', 'a.' * 30000 + 'a', 'SUM(' + '1,' * 40000 + '1)',
                 '{' + '1;' * 40000 + '1}', '{' + '1,2;' * 20000 + '1,2}', 'BASE(' + '1' * 20000 + ',2)', 'LEN(BASE(' + '7' * 15000 + ',36))',
                 'F(' + '1\\' * 40000 + '1)',
                 # short formulas that spell whole numbers of a million bits (the cost of what is done with them is quadratic)
                 'BASE(2^1000000,2)', 'LEN(2^1000000*2^1000000*2^1000000*2^1000000)', 'QUOTIENT(3^660000*3^660000*3^660000,7^370000*7^370000*7^370000)',
                 'MOD(3^660000*3^660000,7^370000)', '(2^900000*2^900000)&""', 'CEILING(3^660000,7^370000)', 'BASE(2^200000,2)',
                 # ... or that multiply whole numbers at the cap inside ONE function call
                 'BASE(PRODUCT(' + ','.join(['2^131071'] * 40) + '),3)', 'LEN(PRODUCT(' + ','.join(['3^80000'] * 300) + ')&"")',
                 # empty slots: as linear as filled ones
                 'SUM(' + ',' * 160000 + '1)', '{' + ';' * 160000 + '1}', 'F(' + '\\' * 160000 + '1)', '{' + ',' * 160000 + '1}',
                 # short formulas that WRITE ten million digits and then read them as a number or try them as a date
                 NESTED_SUBSTITUTE + '+0', 'YEAR(' + NESTED_SUBSTITUTE + ')', '-' + NESTED_SUBSTITUTE, 'ISNUMBER(' + NESTED_SUBSTITUTE + '*1)',
                 # an error value however deep in one-item arrays is the error of the record
                 '{' * 9 + 'NA()' + '}' * 9, '{' * 12 + '1/0' + '}' * 12, '{' * 300 + '1/0' + '}' * 300, '{' * 9 + '1/0' + '}' * 9 + '=1',
                 'ISERROR(' + '{' * 40 + '1/0' + '}' * 40 + '+1)']


class Blowups(Sub):
    name = 'c01.blowups'
    rule = ('each documented function x arity 1..3 x every argument tuple over {1e9, 1e12-1, -1e9, 1e308, 2^70, 0.5, 2, "abc", the text "1e999999999"} that '
            'holds at least one huge number (variables), 30 literal forms with huge integer powers, huge numeric text or 5 000-digit integers, and 6 flattening functions over 20 000 / 50 000 rows: a well-formed record '
            'within the step budget AND within a 3 s CPU-time alarm (wall-clock backstop 30 s), under an address-space limit of 4 GiB - an exact '
            'integer power, a factorial, 10**digits or a padding to 10^9 places stalls below the Python level and executes no '
            'line; non-trivial = all')
    min_cases = 300
    min_nontrivial = 10000
    ALARM = 3

    def cases(self, tier, unit):
        names = documented(None)
        for ni in range(len(names)):
            for ar in (1, 2, 3):
                yield ['fn', ni, ar]
        for t in HUGE_LITERALS:
            yield ['lit', t]
        # a long column handed in as rows of one cell (what a range listener delivers): time must grow with its length, not
        # with its square - and the interpreter must survive it
        for fn in ('SUM', 'COUNT', 'MAX', 'AND', 'CONCATENATE', 'AVERAGE'):
            for rows in (20000, 50000):
                yield ['wide', fn, rows]
        # ... and PRODUCT over a long column of nine-digit numbers: the product is beyond every bound after a few thousand cells
        yield ['wide', 'PRODUCT', 400000]

    def guarded(self, env, p, text, per_char=0):
        import signal

        def onalarm(signum, frame):
            raise WallTimeout()
        old = _install(onalarm)
        prob = None
        try:
            # a machine under load can make an honest parse miss the first alarm: a timeout is confirmed once with an
            # alarm eight times as long before it is reported
            for seconds in (self.ALARM, 8 * self.ALARM):
                _arm(seconds)
                try:
                    prob, raw = run_parse(env, p, text, per_char)
                    break
                except WallTimeout:
                    prob = ('parse did not return within %d s of CPU time (nor within ten times that in wall-clock time) (and not within %d s before that; normal: < 10 ms): a '
                            'computation below the Python level that grows with the VALUE of an argument' % (8 * self.ALARM, self.ALARM))
                finally:
                    _disarm()
        finally:
            _disarm()
            _restore(old)
        return prob

    def check(self, env, case):
        import resource
        if not getattr(env, '_c01_rlimit', False):
            env._c01_rlimit = True
            try:
                resource.setrlimit(resource.RLIMIT_AS, (4 << 30, 4 << 30))     # this worker only evaluates this sub-check
            except (ValueError, OSError):
                pass
        if getattr(env, '_c01_stalls', 0) >= 3:
            env.note('skipped: three stalls already reported by this worker')
            return None
        if case[0] == 'lit':
            env.nt()
            # long inputs: work proportional to the length is allowed (the date reader tokenises text in Python)
            prob = self.guarded(env, shared_parser(env), case[1], per_char=300 if len(case[1]) > 1000 else 0)
            if prob:
                env._c01_stalls = getattr(env, '_c01_stalls', 0) + ('wall-clock' in prob)
                return fail('parse(%r): %s' % (case[1], prob), None, None)
            return None
        if case[0] == 'one':
            _, name, vals = case
            return self.one(env, name, vals)
        if case[0] == 'wide':
            _, fn, rows = case
            env.nt()
            p = env.new_parser()
            p.set_variable('xs', [[123456789 if fn == 'PRODUCT' else 1] for _ in range(rows)])
            prob = self.guarded(env, p, '%s(xs)' % fn, per_char=30 * rows)
            if prob:
                env._c01_stalls = getattr(env, '_c01_stalls', 0) + ('wall-clock' in prob)
                return fail('%s(xs) with xs = %d rows of one cell: %s' % (fn, rows, prob), None, None)
            return None
        _, ni, ar = case
        name = documented(env)[ni]
        out = []
        for vals in itertools.product(HUGE, repeat=ar):
            if not any(isinstance(v, (int, float)) and abs(v) >= 1e9 or v == '1e999999999' for v in vals):
                continue
            f = self.one(env, name, list(vals))
            if f:
                out.append(f)
                if len(out) >= 2:
                    break
        return out

    def one(self, env, name, vals):
        cache = env.__dict__.setdefault('_c01blp', {})
        p = cache.get(len(vals))
        if p is None:
            p = cache[len(vals)] = env.new_parser()
        argn = ['xa', 'xb', 'xc'][:len(vals)]
        for n, v in zip(argn, vals):
            p.set_variable(n, v)
        text = '%s(%s)' % (name, ','.join(argn))
        env.nt()
        prob = self.guarded(env, p, text)
        if prob:
            env._c01_stalls = getattr(env, '_c01_stalls', 0) + ('wall-clock' in prob)
            return fail('%s with %s: %s' % (text, ', '.join('%s=%r' % nv for nv in zip(argn, vals)), prob), None, None,
                        case=['one', name, list(vals)])
        return None



def corpus():
    from .c05 import HAND, SEP
    out = []
    for toks in HAND:
        out.append(''.join(',' if t == SEP else t for t in toks))
    out += ['((1+2)*(3-4))/5', 'IF(AND(1<2,OR(FALSE,TRUE)),"a"&"b",{1,2;3,4})', 'SUM($A$1:B$2;{1\\2};3)*-2^2+50%',
            "'single'&\"double\"", 'INDEX({1,2;3,4},2,1)<>#N/A']
    return out


class Truncations(Sub):
    name = 'c01.truncations'
    rule = ('every prefix, every suffix and every single-character deletion / duplication of each formula of a 60-formula '
            'corpus of well-formed formulas; non-trivial = mutilated formula that is rejected')
    min_cases = 50
    min_nontrivial = 200

    def cases(self, tier, unit):
        for i in range(len(corpus())):
            yield i

    def check(self, env, case):
        text = corpus()[case]
        p = getattr(env, '_c01tp', None)
        if p is None:
            p = env._c01tp = env.new_parser()
            p.set_variable('va', 7)
            p.set_variable('vb', 4)
            p.set_variable('vs', 'text')
            p.set_function('REC', lambda *a: list(a))
        variants = set()
        for i in range(len(text) + 1):
            variants.add(text[:i])
            variants.add(text[i:])
        for i in range(len(text)):
            variants.add(text[:i] + text[i + 1:])
            variants.add(text[:i] + text[i] + text[i:])
        out = []
        for v in sorted(variants):
            prob, raw = run_parse(env, p, v)
            if prob:
                out.append(fail('parse(%r): %s' % (v, prob), None, None))
                if len(out) > 5:
                    break
            elif raw['error'] is not None:
                env.nt()
        return out


REP_UNITS = LEXEMES + ['\\a', '\\"', "\\'", '\\\\', 'a\\', '""', "''", '1.', '.1', 'A1:', '$', 'é"', '0', 'E', 'e1']
REP_PREFIX = ['', '"', "'", 'SUM(', '(', '{', '1+', 'va&"', '#', 'SUM("a",', "'x'&'"]
REP_SMALL = ['1', '"', "'", '\\', 'a', '(', ')', ',', '.', '%', '^', '#', '!', '$', ':', '+', '-', '&', '<', ' ']


class Repetition(Sub):
    name = 'c01.repetition'
    rule = ('prefix + unit*N for 11 prefixes (incl. unterminated quotes), every unit from 55 lexemes and every pair of 20 '
            'single characters, N in the bound: besides the step budget, each parse runs under a CPU-time alarm of 10 s (wall-clock backstop 100 s) '
            '(confirmed once at 40 s) - 4-5 orders of magnitude above the normal 0.1-1 ms - because a C-level stall such '
            'as catastrophic regex backtracking executes no Python lines; non-trivial = all')
    min_cases = 10
    min_nontrivial = 1000
    stride = False
    ALARM = 10

    def cases(self, tier, unit):
        ns = (30,) if tier == 'quick' else (12, 30, 60)
        for pi in range(len(REP_PREFIX)):
            yield ['prefix', pi, list(ns)]

    def timed(self, env, p, text, seconds):
        import signal

        def onalarm(signum, frame):
            raise WallTimeout()
        old = _install(onalarm)
        _arm(seconds)
        try:
            try:
                prob, raw = run_parse(env, p, text)
                return prob
            except WallTimeout:
                return 'timeout'
        finally:
            _disarm()
            _restore(old)

    def one(self, env, text):
        p = shared_parser(env)
        env.nt()
        prob = self.timed(env, p, text, self.ALARM)
        if prob == 'timeout':
            prob = self.timed(env, env.new_parser(), text, 4 * self.ALARM)
            if prob == 'timeout':
                prob = ('parse did not return within %d s of CPU time (nor within ten times that in wall-clock time) for a %d-character input (and not within %d s '
                        'before that): a stall below the Python level' % (4 * self.ALARM, len(text), self.ALARM))
        if prob:
            return fail('parse(%r): %s' % (text, prob), None, None, case=['one', text])
        return None

    def check(self, env, case):
        if case[0] == 'one':
            return self.one(env, case[1])
        out = []
        _, pi, ns = case
        units = REP_UNITS + [a + b for a in REP_SMALL for b in REP_SMALL]
        for u in units:
            for n in ns:
                f = self.one(env, REP_PREFIX[pi] + u * n)
                if f:
                    out.append(f)
                    break
            if out:
                break       # a stall costs up to 50 s of wall-clock: one witness per prefix is enough
        return out


DEEP_TEMPLATES = [('(', '1', ')'), ('{', '1', '}'), ('SUM(', '1', ')'), ('-', '1', ''), ('ABS(-', '1', ')'),
                  ('IF(1,', '1', ',2)'), ('{1,', '2', '}'), ('FN(', 'va', ')'), ('(1+', '1', ')'), ('IFERROR(', '1/0', ',1)')]
DEEP_CHAINS = ['+1', '&"a"', '*va', '=1', ',1', ';1', ' ', '%', '<>2', '-A1']


class Deep(Sub):
    name = 'c01.deep'
    rule = ('nesting to depth N of 10 bracketing templates (parentheses, array braces, built-in / custom calls, unary minus, '
            'IF chains) and chains of N operators / separators, plus host-supplied lists nested N deep used as variable, cell and function result in 9 formulas: parse returns a well-formed record '
            '(step budget scaled by 300 events per input character); non-trivial = depth >= 500')
    min_cases = 20
    min_nontrivial = 10

    def cases(self, tier, unit):
        depths = (50, 1500) if tier == 'quick' else (50, 500, 1100, 1500, 3000)
        for n in depths:
            for i in range(len(DEEP_TEMPLATES)):
                yield ['nest', i, n]
            for i in range(len(DEEP_CHAINS)):
                yield ['chain', i, n]
            for route in ('var', 'cell', 'fn'):
                yield ['host', route, n]

    def check(self, env, case):
        kind, i, n = case
        if n >= 500:
            env.nt()
        p = env.new_parser()
        p.set_variable('va', 2)
        p.set_function('FN', lambda *a: a[0] if a else 0)
        p.on('callCellValue', lambda cell, setter: setter(3))
        if kind == 'nest':
            a, mid, b = DEEP_TEMPLATES[i]
            texts = [a * n + mid + b * n, a * n + mid + b * (n - 1), a * n]
        elif kind == 'chain':
            texts = ['1' + DEEP_CHAINS[i] * n, 'SUM(1' + DEEP_CHAINS[i] * n + ')']
        else:
            deep = [1, 'a']
            for _ in range(n):
                deep = [deep, 2]
            if i == 'var':
                p.set_variable('xs', deep)
                ref = 'xs'
            elif i == 'cell':
                p.off('callCellValue')
                p.on('callCellValue', lambda cell, setter: setter(deep))
                ref = 'B2'
            else:
                p.set_function('DEEPFN', lambda: deep)
                ref = 'DEEPFN()'
            texts = [f.replace('X', ref) for f in ('X', 'SUM(X)', 'X+1', 'COUNT(X)', 'CONCATENATE(X)', 'AND(X)', 'LARGE(X,1)',
                                                   'INDEX(X,1)', 'X&"a"', 'X=X', 'IFERROR(X,1)', '-X', '{1,2}+X')]
        for text in texts:
            prob, raw = run_parse(env, p, text, per_char=300)
            if prob:
                shown = text if len(text) < 80 else '%s ... (%d characters)' % (text[:40], len(text))
                return fail('parse(%s) [%s %s depth %s]: %s' % (shown, kind, i, n, prob))
        return None


SUBS = [Soups(), CodePoints(), Functions(), Blowups(), Faults(), Actions(), Truncations(), Repetition(), Deep()]
