# -*- coding: utf-8 -*-
"""C18 - lookup functions CHOOSE, INDEX, MATCH (K3: bounded-exhaustive input enumeration).

Everything is evaluated through Parser.parse (env.ev).  The reference is plain Python:
position arithmetic on nested lists, a recursive */? matcher, min/max over exact numbers.

INDEX oracle.  An index is an integer or a "whole" marker W (0, an omitted argument, a blank
variable).  A *reading* of one call is the result the statement prescribes when the array is
taken as an R x C grid:
    (int r, int c)  inside -> that element            outside -> an error value
    (W, int c)      1<=c<=C -> column c (a list)       else    -> an error value
    (int r, W)      1<=r<=R -> row r (a list)          else    -> an error value
    (W, W)          not demanded
True grids (R,C >= 2) have one reading.  Vector-like arrays (a flat list, or a nested 1 x n /
n x 1 array) have two readings, as a row and as a column, and the outcome must agree with one
of them ("may address along either axis ... but never a different element").  The pure
single-index form INDEX(flat, k) on a flat list is strict: element k for 1<=k<=n, an error for
k<0 or k>n, an error or the whole list for k=0.
"""
import itertools

from ..core import Siblings, WholeFloats, Sub, fail, lit, isnum, scale

# delivery-channel and host-type differential (core.Env): of every 3 evaluations that bind variables, one is repeated with the
# values handed in by the cell/range listeners, one with the values returned by custom functions and one with every value an
# instance of a trivial subclass of its type (numpy.float64, IntEnum, rich-text str ... are such); outcomes must agree
CHANNELS = 3

BOUNDS = {
    'quick': 'INDEX: every nested array R x C with R,C <= 4 (numeric and text, position-coded elements) as '
             'variable, range and (R >= 2, C >= 2) literal, every flat list of length <= 4 as variable and as ,/; '
             'literal; every (row, col) with each index in -10..size+10 or omitted/blank/absent; indices '
             'as literals and as variables.  CHOOSE: n <= 6, i in -10..n+10 and {254,255,256}.  MATCH type 0: '
             'every array of length <= 4 over {1,2,3}, over {"a","ab","B","a?"} and (length <= 3) over '
             '{"a","[a]","b"} x 6 numeric / 20 text lookups; type 1/-1: every sorted array of length <= 5 '
             'over {-1,0,1,2,3} x x in -2..4 step 0.5; INDEX(a,MATCH(x,a,0)) for every x occurring in those arrays',
    'thorough': 'as quick with R,C <= 8 and flat lists of length <= 8, CHOOSE n <= 8, MATCH type 0 arrays of '
                'length <= 5 (text) / <= 6 (numeric) / <= 4 (bracket pool), sorted arrays of length <= 6',
}
ASSUMPTIONS = [
    'not demanded: INDEX with both indices 0/omitted/blank (INDEX(a,0,0), INDEX(grid,0), ...) except the pure '
    'single-index INDEX(flat,0) on a flat list, which must be an error or the whole list (not one element)',
    'not demanded: fractional, text or logical indices; a 4th (area) argument; ~ escapes; MATCH with the type '
    'omitted; MATCH type 1/-1 on text or on unsorted arrays; mixed number/text arrays for MATCH',
    'a whole row/column may be returned as a flat list, as a nested 1 x n / n x 1 list, or as the bare element '
    'when it has exactly one item',
    'vector-like arrays (flat list; nested 1 x n or n x 1 as the host supplies single-row/column ranges): '
    'two-index forms on a FLAT list may address along either axis or be an error; a nested 1 x n / n x 1 array '
    'states its orientation, so two-index forms are read strictly there; the '
    'single-index form on a *nested* vector may be positional or mean "row k" (so INDEX(A1:C1,2) may be the '
    '2nd item or an error) - under no reading may a different element come back',
    'MATCH on a nested 1 x n / n x 1 vector (host range convention) may return the position among the items or '
    'an error (items-are-rows reading); a wrong position is a failure.  INDEX(a,MATCH(x,a,0)) on such arrays '
    'likewise may be an error',
    'MATCH with type 1 / -1 and duplicates: any position holding the largest item <= x / smallest item >= x',
    'INDEX(a,MATCH(x,a,0)) = x is demanded in MATCH\'s own sense of equality (case-insensitive, x read as a '
    '*/? pattern): when x contains a wildcard the item returned is the first one the pattern matches',
    'numbers compare by value (101 and 101.0 are the same element); a logical is never a number',
]

W = 'W'
NONINT = ('omit', 'blank', 'absent')
COLS = 'ABCDEFGHIJ'


# --------------------------------------------------------------------------
# reference helpers

def same(x, v):
    if isinstance(v, str):
        return isinstance(x, str) and x == v
    return isnum(x) and x == v


def seq_match(x, vs):
    """x (decoded JSON result) is the list of items vs as flat list / 1 x n / n x 1 / bare single item."""
    if not isinstance(x, list):
        return len(vs) == 1 and same(x, vs[0])
    if len(x) == len(vs) and all(not isinstance(e, list) for e in x):
        return all(same(e, v) for e, v in zip(x, vs))
    if len(x) == 1 and isinstance(x[0], list) and len(x[0]) == len(vs) \
            and all(not isinstance(e, list) for e in x[0]):
        return all(same(e, v) for e, v in zip(x[0], vs))
    if len(x) == len(vs) and all(isinstance(e, list) and len(e) == 1 for e in x):
        return all(same(e[0], v) for e, v in zip(x, vs))
    return False


def norm(spec):
    return W if (spec == 0 or isinstance(spec, str)) else spec


def read2d(M, r, c):
    R, C = len(M), len(M[0])
    if r == W and c == W:
        return ['any']
    if r == W:
        return ['seq', [M[i][c - 1] for i in range(R)]] if 1 <= c <= C else ['err']
    if c == W:
        return ['seq', list(M[r - 1])] if 1 <= r <= R else ['err']
    return ['elem', M[r - 1][c - 1]] if (1 <= r <= R and 1 <= c <= C) else ['err']


def index_readings(kind, M, rs, cs):
    """-> list of acceptable readings, or None when nothing is demanded."""
    r, c = norm(rs), norm(cs)
    if kind == 'f':
        items = M
        n = len(items)
        if cs == 'absent' and isinstance(rs, int):
            if rs == 0:
                return [['err'], ['seq', list(items)]]
            return [['elem', items[rs - 1]]] if 1 <= rs <= n else [['err']]
        rd = [read2d([list(items)], r, c), read2d([[v] for v in items], r, c), ['err']]
    else:
        R, C = len(M), len(M[0])
        rd = [read2d(M, r, c)]
        # a nested array states its own orientation: with two indices given only that reading is accepted
        # (a position outside the missing dimension is outside the array); the single-index form on a nested
        # vector may be positional or mean "row k"
        if cs in ('absent', 'omit', 'blank'):
            if R == 1:
                rd.append(read2d([[v] for v in M[0]], r, c))
            elif C == 1:
                rd.append(read2d([[row[0] for row in M]], r, c))
    if any(x[0] == 'any' for x in rd):
        return None
    out = []
    for x in rd:
        if x not in out:
            out.append(x)
    return out


def accepts(reading, outcome):
    if reading[0] == 'err':
        return outcome[0] == 'e'
    if outcome[0] != 'v':
        return False
    if reading[0] == 'elem':
        return same(outcome[1], reading[1])
    return seq_match(outcome[1], reading[1])


def wild(pat, s):
    """Case-insensitive match of s against pat where * = any run, ? = any one character."""
    pat, s = pat.lower(), s.lower()
    memo = {}

    def go(i, j):
        k = (i, j)
        if k in memo:
            return memo[k]
        if i == len(pat):
            res = j == len(s)
        elif pat[i] == '*':
            res = go(i + 1, j) or (j < len(s) and go(i, j + 1))
        elif j < len(s) and (pat[i] == '?' or pat[i] == s[j]):
            res = go(i + 1, j + 1)
        else:
            res = False
        memo[k] = res
        return res
    return go(0, 0)


def equal0(x, item):
    """MATCH type 0 equality."""
    if isinstance(x, str):
        return isinstance(item, str) and wild(x, item)
    if isinstance(x, bool):
        return isinstance(item, bool) and item == x          # a logical equals a logical only (TRUE <> 1)
    return isnum(item) and item == x


def first_match(x, items):
    for i, it in enumerate(items):
        if equal0(x, it):
            return i + 1
    return None


def is_pos(x):
    return isnum(x) and x == int(x)


def arr_literal(M):
    """nested list -> {a,b;c,d}; flat list -> {a,b,c}."""
    if M and isinstance(M[0], list):
        return '{' + ';'.join(','.join(lit(v) for v in row) for row in M) + '}'
    return '{' + ','.join(lit(v) for v in M) + '}'


def range_label(R, C):
    return 'A1:%s%d' % (COLS[C - 1], R)


def elem(et, i, j):
    v = 100 * i + j
    return v if et == 'n' else 't%d' % v


def grid(et, R, C):
    return [[elem(et, i, j) for j in range(1, C + 1)] for i in range(1, R + 1)]


def specs(size, extra):
    return list(range(-10, size + 11)) + list(extra)


# --------------------------------------------------------------------------

class IndexBase(Sub):
    MAXFAIL = 4

    def build(self, kind, M, dl, idl, rs, cs):
        """-> (formula, vars, cells)"""
        vars_ = {'xb': None}
        cells = None
        if dl == 'var':
            vars_['arr'] = M
            a = 'arr'
        elif dl == 'vart':
            # rows as a database driver hands them over: a list of tuples (a flat array: one tuple)
            vars_['arr'] = [tuple(r) for r in M] if M and isinstance(M[0], list) else tuple(M)
            a = 'arr'
        elif dl == 'rng':
            a = range_label(len(M), len(M[0]))
            cells = {a: M}
        elif dl == 'lits':
            a = '{' + ';'.join(lit(v) for v in M) + '}'
        else:
            a = arr_literal(M)
        if idl == 'var':
            vars_['xr'] = rs if isinstance(rs, int) else 0
            vars_['xc'] = cs if isinstance(cs, int) else 0

        def arg(spec, name):
            if spec == 'blank':
                return 'xb'
            if spec == 'omit':
                return ''
            return lit(spec) if idl == 'lit' else name
        if cs == 'absent':
            f = 'INDEX(%s,%s)' % (a, arg(rs, 'xr'))
        else:
            f = 'INDEX(%s,%s,%s)' % (a, arg(rs, 'xr'), arg(cs, 'xc'))
        return f, vars_, cells

    def one(self, env, kind, M, dl, idl, rs, cs, narrow):
        if rs == 'omit' and cs == 'absent':
            return None
        rd = index_readings(kind, M, rs, cs)
        if rd is None:
            env.note('both-whole (not demanded)')
            return None
        f, vars_, cells = self.build(kind, M, dl, idl, rs, cs)
        o = env.evo(f, vars_, None, cells)
        first = rd[0][0]
        if first != 'elem' or len(rd) > 1:
            env.nt()
        env.note({'elem': 'inside', 'seq': 'whole row/column', 'err': 'outside'}[first]
                 + (' (either axis)' if len(rd) > 1 else ''))
        for x in rd:
            if accepts(x, o):
                return None
        if kind == 'f':
            desc = 'flat list %r' % (M,)
        else:
            desc = '%d x %d array %r' % (len(M), len(M[0]), M)
        return fail('%s on %s%s = %r; acceptable: %s' % (
            f, desc, self.binding_text(vars_), o, self.describe_readings(rd)),
            rd, o, case=narrow)

    @staticmethod
    def binding_text(vars_):
        b = ['%s=%r' % (k, v) for k, v in sorted(vars_.items()) if k in ('xr', 'xc')]
        return (' with ' + ', '.join(b)) if b else ''

    @staticmethod
    def describe_readings(rd):
        t = []
        for x in rd:
            if x[0] == 'err':
                t.append('an error value')
            elif x[0] == 'elem':
                t.append('the element %r' % (x[1],))
            else:
                t.append('the row/column %r' % (x[1],))
        return ' or '.join(t)


class IndexGrid(IndexBase):
    name = 'c18.index_grid'
    rule = ('every nested R x C array (numeric / text, elements 100*row+col) x delivery (variable, range, '
            'literal when R >= 2 and C >= 2) x index delivery (literal, variable) x every (row, col) pair of the bound; '
            'non-trivial = an index is outside 1..size, whole (0/omitted/blank) or the array is a vector '
            'with two admissible axes')
    min_cases = 200
    min_nontrivial = 5000
    min_classes = 4

    def shapes(self, tier):
        m = 4 if tier == 'quick' else 8
        return [(R, C) for R in range(1, m + 1) for C in range(1, m + 1)]

    def cases(self, tier, unit):
        for R, C in self.shapes(tier):
            for et in ('n', 't'):
                dls = ['var', 'rng'] + (['lit'] if (R >= 2 and C >= 2) else []) + (['vart'] if R <= 3 and C <= 3 else [])
                for dl in dls:
                    for idl in ('lit', 'var'):
                        for rs in specs(R, ('omit', 'blank')):
                            yield ['g', et, R, C, dl, idl, rs]

    def check(self, env, case):
        if case[0] == 'one':
            _, _, et, R, C, dl, idl, rs, cs = case
            return self.one(env, 'g', grid(et, R, C), dl, idl, rs, cs, case)
        _, et, R, C, dl, idl, rs = case
        M = grid(et, R, C)
        out = []
        for cs in specs(C, ('omit', 'blank', 'absent')):
            r = self.one(env, 'g', M, dl, idl, rs, cs, ['one', 'g', et, R, C, dl, idl, rs, cs])
            if r and len(out) < self.MAXFAIL:
                out.append(r)
        return out


class IndexVector(IndexBase):
    name = 'c18.index_vector'
    rule = ('every flat list of length n (numeric / text, distinct items) x delivery (variable, {a,b,c}, '
            '{a;b;c}) x index delivery x every single-index and two-index form of the bound; non-trivial = '
            'an index outside 1..n or whole')
    min_cases = 100
    min_nontrivial = 2000
    min_classes = 4

    def cases(self, tier, unit):
        m = 4 if tier == 'quick' else 8
        for n in range(1, m + 1):
            for et in ('n', 't'):
                for dl in ('var', 'litc', 'lits') + (('vart',) if n <= 3 else ()):
                    for idl in ('lit', 'var'):
                        for rs in specs(n, ('omit', 'blank')):
                            yield ['f', et, n, dl, idl, rs]

    @staticmethod
    def items(et, n):
        return [elem(et, 1, j) for j in range(1, n + 1)]

    def check(self, env, case):
        if case[0] == 'one':
            _, _, et, n, dl, idl, rs, cs = case
            return self.one(env, 'f', self.items(et, n), dl, idl, rs, cs, case)
        _, et, n, dl, idl, rs = case
        M = self.items(et, n)
        out = []
        for cs in specs(n, ('omit', 'blank', 'absent')):
            r = self.one(env, 'f', M, dl, idl, rs, cs, ['one', 'f', et, n, dl, idl, rs, cs])
            if r and len(out) < self.MAXFAIL:
                out.append(r)
        return out


# --------------------------------------------------------------------------

VNAMES = ['va', 'vb', 'vc', 'vd', 've', 'vf', 'vg', 'vh']


class Choose(Sub):
    name = 'c18.choose'
    rule = ('CHOOSE(i, v1..vn) for every n of the bound, value kind (numbers 10k, text, alternating), value '
            'and index delivery (literal / variable), every i in -10..n+10 and 254..256; kinds e / f: every other choice '
            'is an error value (1/0, NA(), FACT(-1)) - the selected choice is the answer whatever the others are; '
            'non-trivial = i outside 1..n, or errors among the choices')
    min_cases = 40
    min_nontrivial = 500
    min_classes = 2

    def cases(self, tier, unit):
        m = 6 if tier == 'quick' else 8
        for n in range(1, m + 1):
            for et in ('n', 't', 'm'):
                for idl in ('lit', 'var'):
                    for vdl in ('lit', 'var'):
                        yield [n, et, idl, vdl]
            if n > 1:
                for idl in ('lit', 'var'):
                    yield [n, 'e', idl, 'lit']
                    yield [n, 'f', idl, 'lit']

    @staticmethod
    def values(n, et):
        vs = []
        for k in range(1, n + 1):
            if et == 'n' or (et == 'm' and k % 2 == 1):
                vs.append(10 * k)
            else:
                vs.append('v%d' % k)
        return vs

    def one(self, env, n, et, idl, vdl, i):
        vars_ = {}
        if et in ('e', 'f'):
            # every other choice is an error value (written as a formula): the selected choice is the answer, an error among
            # the others does not matter, a selected error is that error
            errs = (('1/0', '#DIV/0!'), ('NA()', '#N/A'), ('FACT(-1)', '#NUM!'))
            args, want = [], []
            for k in range(1, n + 1):
                if (k % 2 == 0) == (et == 'e'):
                    args.append(errs[k % 3][0])
                    want.append(['e', errs[k % 3][1]])
                else:
                    args.append(lit(10 * k))
                    want.append(['v', 10 * k])
            ia = lit(i)
            if idl == 'var':
                vars_['xi'] = i
                ia = 'xi'
            f = 'CHOOSE(%s,%s)' % (ia, ','.join(args))
            o = env.evo(f, vars_)
            narrow = ['one', n, et, idl, vdl, i]
            if 1 <= i <= n:
                env.note('inside-among-errors')
                env.nt()
                w = want[i - 1]
                if not (o[0] == w[0] and (same(o[1], w[1]) if w[0] == 'v' else o[1] == w[1])):
                    return fail('%s%s = %r, expected choice %d = %r (an error among the other choices is not the answer)' % (
                        f, ' with xi=%d' % i if idl == 'var' else '', o, i, w), w, o, case=narrow)
            elif o[0] != 'e':
                return fail('%s%s = %r, expected an error value (index outside 1..%d)' % (
                    f, ' with xi=%d' % i if idl == 'var' else '', o, n), ['e', 'any'], o, case=narrow)
            return None
        vs = self.values(n, et)
        if vdl == 'var':
            for k, v in enumerate(vs):
                vars_[VNAMES[k]] = v
            args = VNAMES[:n]
        else:
            args = [lit(v) for v in vs]
        if idl == 'var':
            vars_['xi'] = i
            ia = 'xi'
        else:
            ia = lit(i)
        f = 'CHOOSE(%s,%s)' % (ia, ','.join(args))
        o = env.evo(f, vars_)
        narrow = ['one', n, et, idl, vdl, i]
        if 1 <= i <= n:
            env.note('inside')
            if not (o[0] == 'v' and same(o[1], vs[i - 1])):
                return fail('%s%s = %r, expected value %d = %r' % (
                    f, ' with xi=%d' % i if idl == 'var' else '', o, i, vs[i - 1]), ['v', vs[i - 1]], o,
                    case=narrow)
        else:
            env.nt()
            env.note('outside')
            if o[0] != 'e':
                return fail('%s%s = %r, expected an error value (index outside 1..%d)' % (
                    f, ' with xi=%d' % i if idl == 'var' else '', o, n), ['e', 'any'], o, case=narrow)
        return None

    def check(self, env, case):
        if case[0] == 'one':
            return self.one(env, *case[1:])
        n, et, idl, vdl = case
        out = []
        for i in list(range(-10, n + 11)) + [254, 255, 256]:
            r = self.one(env, n, et, idl, vdl, i)
            if r:
                out.append(r)
        return out


# --------------------------------------------------------------------------
# MATCH

POOLS = {'n': [1, 2, 3], 't': ['a', 'ab', 'B', 'a?'], 'b': ['a', '[a]', 'b'],
         'm': [1, 'a', True, 0],      # mixed: a text, a number and a logical in one array (a header above numbers)
         'g': [1, None, 2, 'a']}      # gaps: blank cells among the items (positions count the blanks)
LOOKUPS = {
    'n': [0, 1, 2, 3, 4, 2.5],
    't': ['a', 'A', 'ab', 'AB', 'aB', 'b', 'B', 'a?', 'A?', 'a*', '*', '?', '??', '*b', '?b', 'b*', '*?',
          'zz', 'z*', 'abc'],
    'b': ['a', '[a]', '[A]', 'b', '[a', '[*', '[?]', '?a?', '[ab]', 'zz'],
    'm': [1, 'a', 'A', True, False, 0, 2, 'b', '1', '*', 'TRUE'],
    'g': [1, 2, 'a', 'A', 3, 'b'],
}
MAXLEN = {'quick': {'n': 4, 't': 4, 'b': 3, 'm': 3, 'g': 4}, 'thorough': {'n': 6, 't': 5, 'b': 4, 'm': 4, 'g': 5}}
FLAT_DL = ('var', 'litc', 'lits', 'rngflat', 'vart')
NESTED_DL = ('rngrow', 'rngcol')


def deliver(items, dl, vars_):
    """-> (array text, cells)"""
    n = len(items)
    if dl == 'var':
        vars_['arr'] = list(items)
        return 'arr', None
    if dl == 'vart':
        vars_['arr'] = tuple(items)
        return 'arr', None
    if dl == 'litc':
        return '{' + ','.join(lit(v) for v in items) + '}', None
    if dl == 'lits':
        return '{' + ';'.join(lit(v) for v in items) + '}', None
    if dl == 'rngflat':
        lab = range_label(1, n)
        return lab, {lab: list(items)}
    if dl == 'rngrow':
        lab = range_label(1, n)
        return lab, {lab: [list(items)]}
    if dl == 'rngcol':
        lab = range_label(n, 1)
        return lab, {lab: [[v] for v in items]}
    raise ValueError(dl)


def check_position(o, want, nested):
    """want: set of acceptable positions (empty = #N/A).  -> True when acceptable."""
    if o[0] == 'v' and is_pos(o[1]) and int(o[1]) in want:
        return True
    if o[0] == 'e':
        # a single-row / single-column range arrives as a nested list (that is how a host delivers ranges);
        # MATCH must find the item there too
        return not want and o[1] == '#N/A'
    return False


class MatchExact(Sub):
    name = 'c18.match_exact'
    rule = ('MATCH(x, a, 0) for every array of the bounded length over each item pool x every lookup value of '
            'the pool (present, absent, other case, */? patterns) x array delivery (variable, both literal '
            'forms, range) x lookup delivery; expected = first position whose item equals x under an independent '
            'case-insensitive */? matcher, else #N/A; non-trivial = array has >= 2 items and (x matches a '
            'non-first item, matches several items, or matches none)')
    min_cases = 500
    min_nontrivial = 5000
    min_classes = 3

    def cases(self, tier, unit):
        for pool in ('n', 't', 'b', 'm', 'g'):
            for n in range(1, MAXLEN[tier][pool] + 1):
                for items in itertools.product(POOLS[pool], repeat=n):
                    for dl in FLAT_DL + NESTED_DL:
                        if None in items and dl in ('litc', 'lits'):
                            continue        # blanks are handed in by the host
                        yield [pool, list(items), dl]

    def one(self, env, pool, items, dl, xdl, x):
        vars_ = {}
        a, cells = deliver(items, dl, vars_)
        if xdl == 'var':
            vars_['xv'] = x
            xa = 'xv'
        else:
            xa = lit(x)
        f = 'MATCH(%s,%s,0)' % (xa, a)
        o = env.evo(f, vars_, None, cells)
        p = first_match(x, items)
        hits = [i for i, it in enumerate(items) if equal0(x, it)]
        if len(items) >= 2 and (p is None or p > 1 or len(hits) > 1):
            env.nt()
        env.note('absent' if p is None else ('present' if not isinstance(x, str) or x in items
                                             else 'pattern/case'))
        nested = dl in NESTED_DL
        if not check_position(o, {p} if p else set(), nested):
            exp = ['v', p] if p else ['e', '#N/A']
            return fail('%s%s%s = %r, expected %s%s' % (
                f, ' with xv=%r' % (x,) if xdl == 'var' else '',
                ' on %r' % (cells[a] if cells else items,) if dl != 'litc' and dl != 'lits' else '',
                o, 'position %d' % p if p else '#N/A',
                ''), exp, o,
                case=['one', pool, items, dl, xdl, x])
        return None

    def check(self, env, case):
        if case[0] == 'one':
            return self.one(env, *case[1:])
        pool, items, dl = case
        out = []
        for x in LOOKUPS[pool]:
            for xdl in ('lit', 'var'):
                r = self.one(env, pool, items, dl, xdl, x)
                if r and len(out) < 6:
                    out.append(r)
        return out


XS = [k / 2.0 if k % 2 else k // 2 for k in range(-4, 9)]     # -2, -1.5, ... 4


class MatchSorted(Sub):
    name = 'c18.match_sorted'
    rule = ('MATCH(x, a, 1) on every non-decreasing and MATCH(x, a, -1) on every non-increasing array of the '
            'bounded length over {-1,0,1,2,3} x every x in -2..4 step 0.5 x deliveries, and on every sorted array of up to 3 '
            'one-letter texts of one letter case (A..D / a..d) x 14 lookup texts of either case (text is ordered without regard to case, as it is compared under type 0); expected = any position '
            'holding the largest item <= x (smallest item >= x), else #N/A; non-trivial = array has a '
            'duplicate, or x lies strictly between / outside the items')
    min_cases = 500
    min_nontrivial = 5000
    min_classes = 4

    def cases(self, tier, unit):
        m = 5 if tier == 'quick' else 6
        for mt in (1, -1):
            for n in range(1, m + 1):
                for items in itertools.combinations_with_replacement([-1, 0, 1, 2, 3], n):
                    items = list(items) if mt == 1 else list(reversed(items))
                    for dl in FLAT_DL + NESTED_DL:
                        yield [mt, items, dl]
            # sorted text of ONE letter case (so that every ordering of text - by code point, case-blind - agrees)
            for letters in ('ABCD', 'abcd'):
                for n in range(1, 4):
                    for items in itertools.combinations_with_replacement(letters, n):
                        items = list(items) if mt == 1 else list(reversed(items))
                        for dl in ('var', 'litc', 'rngcol'):
                            yield [mt, items, dl]

    def one(self, env, mt, items, dl, xdl, x):
        vars_ = {}
        a, cells = deliver(items, dl, vars_)
        if xdl == 'var':
            vars_['xv'] = x
            vars_['xm'] = mt
            f = 'MATCH(xv,%s,xm)' % a
        else:
            f = 'MATCH(%s,%s,%s)' % (lit(x), a, lit(mt))
        o = env.evo(f, vars_, None, cells)
        key = (lambda v: v.lower()) if isinstance(x, str) else (lambda v: v)
        if mt == 1:
            cand = [v for v in items if key(v) <= key(x)]
            best = max(cand, key=key) if cand else None
        else:
            cand = [v for v in items if key(v) >= key(x)]
            best = min(cand, key=key) if cand else None
        want = set(i + 1 for i, v in enumerate(items) if best is not None and key(v) == key(best))
        if len(set(items)) < len(items) or x not in items:
            env.nt()
        env.note('type %d: %s' % (mt, 'none' if not want else ('exact' if best == x else 'nearest')))
        nested = dl in NESTED_DL
        if not check_position(o, want, nested):
            return fail('%s%s on %r = %r, expected %s%s' % (
                f, ' with xv=%r, xm=%d' % (x, mt) if xdl == 'var' else '', cells[a] if cells else items, o,
                ('a position in %s (item %r)' % (sorted(want), best)) if want else '#N/A',
                ''),
                ['v', sorted(want)] if want else ['e', '#N/A'], o,
                case=['one', mt, items, dl, xdl, x])
        return None

    def check(self, env, case):
        if case[0] == 'one':
            return self.one(env, *case[1:])
        mt, items, dl = case
        out = []
        xs = XS
        if isinstance(items[0], str):
            # lookups of the same letter case and of the other one: text is compared without regard to case, as under type 0
            xs = ['A', 'AA', 'B', 'BZ', 'C', 'D', 'E', 'a', 'aa', 'b', 'bz', 'c', 'd', 'e']
        for x in xs:
            for xdl in ('lit', 'var'):
                r = self.one(env, mt, items, dl, xdl, x)
                if r and len(out) < 6:
                    out.append(r)
        return out


class MatchSpecialLetters(Sub):
    name = 'c18.match_special_letters'
    rule = ('MATCH type 0 over letters whose lower-case form is longer than the letter or depends on its place in the word '
            '(dotted capital I, capital sigma at the end of a word): ? stands for exactly one character of the item, a pattern '
            'matches an item spelled in the same case, and a wrong position is never returned; 19 patterns (5 of them over items holding line breaks) x item lists of the '
            'host and literal kind; non-trivial = all')
    min_cases = 10
    min_nontrivial = 10
    CASES = [
        # (lookup text, items, demanded position or None for #N/A)
        ('??stanbul', ['\u0130stanbul', 'Xxstanbul'], 2),
        ('?stanbul', ['\u0130stanbul'], 1),
        ('?', ['\u0130'], 1),
        ('?stanbul', ['Xxstanbul', '\u0130stanbul'], 2),
        ('\u0130*', ['istanbul', '\u0130stanbul'], 2),
        ('*\u03a3', ['\u039f\u0394\u039f\u03a3'], 1),
        ('\u039f\u0394\u039f\u03a3*', ['\u039f\u0394\u039f\u03a3\u0391'], 1),
        ('\u039f\u0394\u039f\u03a3', ['\u039f\u0394\u039f\u03a3'], 1),
        ('\u03bf\u03b4\u03bf\u03c3*', ['\u03bf\u03b4\u03bf\u03c3\u03b1'], 1),
        ('???', ['\u0130\u0130', '\u0130\u0130\u0130'], 2),
        ('a?b', ['a\u0130b'], 1),
        ('a??b', ['a\u0130b'], None),
        ('\u1e9e?', ['\u1e9ex'], 1),
        ('?', ['\ufb01'], 1),
        # * and ? stand for any characters, a line break included
        ('a*c', ['a\nc'], 1), ('a?c', ['a\nc', 'abc'], 1), ('*', ['\n'], 1), ('x*', ['y', 'x\ny\nz'], 2), ('?', ['ab', '\n'], 2),
    ]

    def cases(self, tier, unit):
        for i in range(len(self.CASES)):
            for dl in ('var', 'litc', 'rngcol'):
                yield [i, dl]

    def check(self, env, case):
        i, dl = case
        x, items, want = self.CASES[i]
        env.nt()
        vars_ = {'xv': x}
        a, cells = deliver(items, dl, vars_)
        o = env.evo('MATCH(xv,%s,0)' % a, vars_, None, cells)
        ok = check_position(o, set([want]) if want else set(), dl in NESTED_DL)
        if not ok:
            return fail('MATCH(xv,%s,0) with xv = %r on %r = %r, expected %s' % (a, x, items, o, want if want else '#N/A'),
                        ['v', want] if want else ['e', '#N/A'], o)
        return None


class IndexMatch(Sub):
    name = 'c18.index_match'
    rule = ('INDEX(a, MATCH(x, a, 0)) for every array of the MATCH type-0 space and every x occurring in it, '
            'array delivered as variable, literal and range; expected = x (in MATCH\'s sense of equality); '
            'non-trivial = x is not the first item')
    min_cases = 300
    min_nontrivial = 1000
    min_classes = 2

    def cases(self, tier, unit):
        for pool in ('n', 't', 'b', 'm', 'g'):
            for n in range(1, MAXLEN[tier][pool] + 1):
                for items in itertools.product(POOLS[pool], repeat=n):
                    for dl in FLAT_DL + NESTED_DL:
                        if None in items and dl in ('litc', 'lits'):
                            continue        # blanks are handed in by the host
                        yield [pool, list(items), dl]

    def one(self, env, pool, items, dl, xdl, x):
        vars_ = {}
        a, cells = deliver(items, dl, vars_)
        if xdl == 'var':
            vars_['xv'] = x
            xa = 'xv'
        else:
            xa = lit(x)
        f = 'INDEX(%s,MATCH(%s,%s,0))' % (a, xa, a)
        o = env.evo(f, vars_, None, cells)
        if items[0] != x:
            env.nt()
        env.note('wildcard item' if isinstance(x, str) and ('?' in x or '*' in x) else 'plain item')
        nested = dl in NESTED_DL
        got = o[1] if o[0] == 'v' else None
        if nested and isinstance(got, list) and len(got) == 1:
            got = got[0]
        ok = o[0] == 'v' and not isinstance(got, list) and equal0(x, got)
        if not ok:
            return fail('%s%s on %r = %r, expected %r (x occurs in the array)%s' % (
                f, ' with xv=%r' % (x,) if xdl == 'var' else '', cells[a] if cells else items, o, x,
                ''), ['v', x], o,
                case=['one', pool, items, dl, xdl, x])
        return None

    def check(self, env, case):
        if case[0] == 'one':
            return self.one(env, *case[1:])
        pool, items, dl = case
        out = []
        seen = []
        for x in items:
            if x in seen or x is None:       # a blank is not looked up
                continue
            seen.append(x)
            for xdl in ('lit', 'var'):
                r = self.one(env, pool, items, dl, xdl, x)
                if r and len(out) < 6:
                    out.append(r)
        return out


PRIMERS = ['ABS(2.0)+ABS(1.0)+ABS(3.0)+ABS(4.0)', 'INT(8/2)+INT(6/2)+INT(4/2)+INT(2/2)', 'ROUND(2.0,0)+SQRT(1.0)+3.0+4.0',
           'SUM(1.0,2.0,3.0,4.0)&TRUE&FALSE', 'INDEX({5,6,7,8},4/2)', 'POWER(2.0,1.0)+LOG(4.0,2.0)']


class AfterFloatUse(Sub):
    name = 'c18.after_float_use'
    rule = ('two-step histories in a fresh process: first a formula that sends whole-valued FLOATS (1.0 .. 4.0, TRUE) '
            'through the numeric helpers, then every integer position 1..4 in INDEX (flat, grid, with MATCH) and CHOOSE: the '
            'integer lookups must still address the same elements (a memo keyed by == / hash conflates 2 and 2.0); '
            'non-trivial = all')
    min_cases = 6
    min_nontrivial = 6

    def cases(self, tier, unit):
        for i in range(len(PRIMERS)):
            yield [i]

    def check(self, env, case):
        env.nt()
        p = env.new_parser()
        flat = [101, 102, 103, 104]
        tflat = ['t1', 't2', 't3', 't4']
        g = grid('n', 4, 4)
        p.set_variable('arr', flat)
        p.set_variable('tarr', tflat)
        p.set_variable('grd', g)
        env.evals += 1
        p.parse(PRIMERS[case[0]])
        for k in (1, 2, 3, 4):
            p.set_variable('xk', k)
            probes = [('INDEX(arr,%d)' % k, flat[k - 1]), ('INDEX(arr,xk)', flat[k - 1]), ('INDEX(tarr,%d)' % k, tflat[k - 1]),
                      ('INDEX(grd,%d,1)' % k, g[k - 1][0]), ('INDEX(grd,2,xk)', g[1][k - 1]),
                      ('INDEX({11,12,13,14},%d)' % k, 10 + k), ('CHOOSE(%d,"a","b","c","d")' % k, 'abcd'[k - 1]),
                      ('CHOOSE(xk,11,12,13,14)', 10 + k), ('INDEX(arr,MATCH(%d,arr,0))' % flat[k - 1], flat[k - 1]),
                      ('MATCH(%d,{1,2,3,4},0)' % k, k)]
            for f, want in probes:
                env.evals += 1
                o = env.out(p.parse(f))
                if not (o[0] == 'v' and same(o[1], want)):
                    return fail('after evaluating %r in a fresh process, %s%s = %r; expected %r' % (
                        PRIMERS[case[0]], f, ' with xk=%d' % k if 'xk' in f else '', o, want), ['v', want], o)
        return None


class LookupWholeFloats(WholeFloats):
    name = 'c18.whole_floats'
    VARS = {'arr': [[1, 2, 3], [4, 5, 6], [7, 8, 9]]}
    TEMPLATES = [
        ('INDEX({{5,6,7,8}},{0})', [(1,), (2,), (4,), (5,), (0,)]),
        ('INDEX({{1,2,3;4,5,6}},{0},{1})', [(1, 1), (2, 3), (2, 0), (0, 2), (3, 1)]),
        ('INDEX(arr,{0},{1})', [(1, 2), (3, 3), (4, 1)]),
        ('CHOOSE({0},"a","b","c")', [(1,), (3,), (4,), (0,)]),
        ('MATCH({0},{{1,2,3}},{1})', [(2, 0), (2, 1), (3, -1), (5, 1)]),
        ('INDEX({{5,6,7}},MATCH({0},{{5,6,7}},0))', [(5,), (7,)]),
    ]


NEEDS_ZYGOTE = True


class LookupSiblings(Siblings):
    name = 'c18.siblings'
    GROUPS = [
        (['MATCH({1},{0},0)', 'MATCH({1},{0},1)', 'MATCH({1},{0},-1)', 'MATCH({1},{0})', 'INDEX({0},{1})', 'INDEX({0},1,{1})',
          'INDEX({0},{1},1)', 'INDEX({0},0,{1})', 'INDEX({0},{1},0)', 'CHOOSE({1},1,2,3)', 'CHOOSE({1},{0},2,3)',
          'INDEX({0},MATCH({1},{0},0))'],
         [('={1,2,3}', 2), ('={3,2,1}', 2), ('={1;2;3}', 3), ('={1,2;3,4}', 2), ('={1,2;3,4}', 1), ('={1,2,3}', 4),
          ('={"a","B","c"}', 2), ('={10,20,30}', 1), ('={2,2,2}', 2)]),
        (['MATCH({1},{0},0)', 'MATCH({1},{0},1)', 'MATCH({1},{0},-1)', 'INDEX({0},MATCH({1},{0},0))'],
         [('={"a","B","c"}', 'b'), ('={"apple","berry","cherry"}', 'b*'), ('={"apple","berry","cherry"}', '?pple'),
          ('={"a","B","c"}', 'd')]),
    ]



class OneCellSelectors(Sub):
    name = 'c18.one_cell'
    rule = ('the index of CHOOSE, the row and column of INDEX, the lookup value and the match type of MATCH given as a one-cell range '
            '([[v]]), a one-item array ([v]), a one-item tuple or an array literal {v} address what the bare value addresses '
            '(differential against the scalar evaluation, 14 forms x the values of each form, incl. an error value as the '
            'selector and INDEX(a, MATCH({x}, a, 0))); non-trivial = all')
    min_cases = 40
    min_nontrivial = 40
    ARR = [10, 20, 30, 40, 50]
    TXT = ['a', 'b', 'C', 'd?']
    GRID = [[11, 12, 13], [21, 22, 23]]
    FORMS = [('CHOOSE(%s,"a","b","c")', [0, 1, 2, 3, 4, 2.0, '2', True]),
             ('INDEX(xarr,%s)', [0, 1, 3, 5, 6, 3.0, '3']),
             ('INDEX(xcol,%s)', [1, 3, 5, 6]),
             ('INDEX(xgrid,%s,2)', [1, 2, 3]),
             ('INDEX(xgrid,2,%s)', [1, 3, 4]),
             ('INDEX(xgrid,%s,%s)', [1, 2]),
             ('MATCH(%s,xarr,0)', [10, 30, 50, 35, 30.0]),
             ('MATCH(%s,xtxt,0)', ['a', 'c', 'D?', 'zz', '?']),
             ('MATCH(%s,xarr,1)', [5, 10, 35, 99]),
             ('MATCH(%s,xcol,-1)', [5, 10, 35, 99]),
             ('MATCH(30,xarr,%s)', [0, 1, -1]),
             ('INDEX(xarr,MATCH(%s,xarr,0))', [10, 30, 50]),
             ('INDEX(xtxt,MATCH(%s,xtxt,0))', ['a', 'C', 'd?']),
             ('CHOOSE(%s,1,2)', [{'$err': '#DIV/0!'}, {'$err': '#N/A'}])]

    def cases(self, tier, unit):
        for fi, (f, vals) in enumerate(self.FORMS):
            for vi in range(len(vals)):
                yield [fi, vi]

    def check(self, env, case):
        f, vals = self.FORMS[case[0]]
        v = env.dec(vals[case[1]])
        env.nt()
        env.note(f.split('(')[0])
        k = f.count('%s')
        V = {'xarr': list(self.ARR), 'xcol': [[x] for x in self.ARR], 'xtxt': list(self.TXT), 'xgrid': [list(r) for r in self.GRID]}
        if f.startswith('MATCH(%s,xcol,-1'):
            V['xcol'] = [[x] for x in self.ARR[::-1]]
        base = env.evo(f % (('xs',) * k), dict(V, xs=v))
        ways = [([[v]], 'a one-cell range'), ([v], 'a one-item array'), ((v,), 'a one-item tuple')]
        for w, how in ways:
            o = env.evo(f % (('xs',) * k), dict(V, xs=w))
            if o != base:
                return fail('%s with xs = %r (%s) gives %r, with the bare value %r it gives %r' % (f % (('xs',) * k), w, how, o, v, base), base, o)
        if not isinstance(vals[case[1]], dict):
            g = f % (('{%s}' % lit(v),) * k)
            o = env.evo(g, dict(V))
            if o != base:
                return fail('%s gives %r, with the bare value %r it gives %r' % (g, o, v, base), base, o)
        return None


class LookupScale(Sub):
    name = 'c18.scale'
    rule = ('size ladder of the array length n: INDEX at the first, middle, last and first-outside position of a vector '
            '[101..100+n] (host list, column, row, n <= 257 literal), of an n x 2 and a 2 x n grid; MATCH type 0 of the last and of '
            'an absent item, type 1 / -1 of the last item and of values between items on sorted vectors; CHOOSE with n <= 254 '
            'values; INDEX(a, MATCH(x, a, 0)) = x; non-trivial = all')
    min_cases = 40
    min_nontrivial = 40

    def cases(self, tier, unit):
        for n in scale(tier):
            yield [n]

    def check(self, env, case):
        n = case[0]
        env.nt()
        v = [100 + i for i in range(1, n + 1)]
        mid = (n + 1) // 2
        vars_ = {'xv': v, 'xcol': [[x] for x in v], 'xrow': [v], 'xd': v[::-1], 'xg': [[x, -x] for x in v], 'xh': [v, [-x for x in v]],
                 'xt': ['t%d' % i for i in range(1, n + 1)]}
        P = []
        for a in ('xv', 'xcol', 'xrow'):
            P += [('INDEX(%s,1)' % a, 101), ('INDEX(%s,%d)' % (a, mid), 100 + mid), ('INDEX(%s,%d)' % (a, n), 100 + n),
                  ('INDEX(%s,%d)' % (a, n + 1), 'err'), ('MATCH(%d,%s,0)' % (100 + n, a), n), ('MATCH(%d,%s,0)' % (100 + n + 1, a), '#N/A'),
                  ('MATCH(%d,%s,1)' % (100 + n, a), n), ('MATCH(100.5+%d,%s,1)' % (mid, a), mid), ('MATCH(9999,%s,1)' % a, n),
                  ('INDEX(%s,MATCH(%d,%s,0))' % (a, 100 + mid, a), 100 + mid)]
        P += [('MATCH(101,xd,-1)', n), ('MATCH(100.5,xd,-1)', n), ('MATCH(%d,xd,-1)' % (100 + n), 1), ('MATCH("T%d",xt,0)' % n, n),
              ('MATCH("t%d*",xt,0)' % n, n), ('INDEX(xt,%d)' % n, 't%d' % n),
              ('INDEX(xg,%d,2)' % n, -(100 + n)), ('INDEX(xg,%d,1)' % mid, 100 + mid), ('INDEX(xg,%d,1)' % (n + 1), 'err'),
              ('INDEX(xh,2,%d)' % n, -(100 + n)), ('INDEX(xh,1,%d)' % mid, 100 + mid), ('INDEX(xh,2,%d)' % (n + 1), 'err'),
              ('SUM(INDEX(xg,0,1))', sum(v)), ('SUM(INDEX(xh,2,0))', -sum(v))]
        if n <= 257:
            L = '{' + ','.join(str(x) for x in v) + '}'
            P += [('INDEX(%s,%d)' % (L, n), 100 + n), ('MATCH(%d,%s,0)' % (100 + n, L), n)]
        if n <= 254:
            args = ','.join(str(x) for x in v)
            P += [('CHOOSE(%d,%s)' % (n, args), 100 + n), ('CHOOSE(1,%s)' % args, 101), ('CHOOSE(%d,%s)' % (n + 1, args), 'err')]
        out = []
        for f, want in P:
            o = env.evo(f, dict(vars_))
            ok = (o[0] == 'e') if want == 'err' else ((o == ['e', want]) if isinstance(want, str) and want.startswith('#') else o == ['v', want])
            if not ok:
                out.append(fail('%s on vectors / grids of %d items (xv = [101..%d], xd reversed, xg %d x 2, xh 2 x %d) gives %s, expected %s' % (
                    f if len(f) < 90 else f[:50] + ' ... ' + f[-25:], n, 100 + n, n, n, repr(o)[:100], 'an error' if want == 'err' else repr(want)),
                    want, repr(o)[:300]))
                if len(out) >= 3:
                    break
        return out


SUBS = [Choose(), IndexGrid(), IndexVector(), MatchExact(), MatchSorted(), MatchSpecialLetters(), IndexMatch(), AfterFloatUse(), LookupWholeFloats(), LookupSiblings(), LookupScale(), OneCellSelectors()]
