# -*- coding: utf-8 -*-
"""C19 - cell labels <-> row/column indices (K3, exhaustive over the label space).

Reference model: bijective base-26 is *enumeration order* of itertools.product over A..Z per
length (no arithmetic shared with the implementation); a label is
  \\$?[A-Za-z]+\\$?[1-9][0-9]*   (ASCII, whole string).
Rows "0" or with leading zeros ("A0", "A01") are not labels (the statement: a positive row number
without leading zeros), so they decompose to nothing like every other non-label.  (They were first
left undemanded; the library decomposed 'A0' to row index -1, which was repaired - see DESIGN 11.)"""
import itertools
import re

from ..core import Sub, fail, digits_of

AZ = 'ABCDEFGHIJKLMNOPQRSTUVWXYZ'
LABEL = re.compile(r'\$?[A-Za-z]+\$?[1-9][0-9]*\Z', re.ASCII)
SLOPPY = re.compile(r'\$?[A-Za-z]+\$?[0-9]+\Z', re.ASCII)

BOUNDS = {
    'quick': 'columns of 1..3 letters (18 278) both cases; rows 1..131072 + boundaries; full labels: '
             'every <=3-letter column x rows {1,10,1048576} x 4 $-patterns x 2 cases; every string of '
             'length <=4 over a 10-character alphabet',
    'thorough': 'columns of 1..4 letters (475 254) both cases; rows 1..1048576 + {10^7,10^9}; full '
                'labels: every column x rows {1,10,1048576} x 4 $-patterns x 2 cases, and columns '
                '{A,Z,AA,XFD,ZZZZ} x every row 1..1048576 x 4 patterns; strings of length <=5',
}
ASSUMPTIONS = ['label grammar = optional $, ASCII letters, optional $, positive decimal row without '
               'leading zeros; rows "0"/leading zeros make a string a non-label',
               'column index reference = enumeration order of itertools.product("A".."Z") by length']


def offset(length):
    return sum(26 ** i for i in range(1, length))


def cellmod(env):
    from hotxlfp.helper import cell
    return cell


class Columns(Sub):
    name = 'c19.columns'
    rule = ('every column label of the bounded length in both letter cases; non-trivial = label of '
            '>= 2 letters (digit-length carries)')
    min_cases = 26
    min_nontrivial = 26

    def cases(self, tier, unit):
        maxlen = 3 if tier == 'quick' else 4
        for length in range(1, maxlen + 1):
            if length == 1:
                yield [1, '']
            else:
                for i, first in enumerate(AZ):
                    yield [length, first]

    def check(self, env, case):
        length, first = case
        cell = cellmod(env)
        out = []
        if length == 1:
            base, labels = 0, list(AZ)
        else:
            base = offset(length) + AZ.index(first) * 26 ** (length - 1)
            labels = (first + ''.join(t) for t in itertools.product(AZ, repeat=length - 1))
        n = 0
        for pos, lab in enumerate(labels):
            idx = base + pos
            n += 1
            for variant in (lab, lab.lower(), lab.capitalize()):
                got = cell.column_label_to_index(variant)
                if got != idx or isinstance(got, bool) or not isinstance(got, int):
                    out.append(fail('column_label_to_index(%r) = %r, expected %d' % (variant, got, idx),
                                    idx, repr(got)))
            back = cell.column_index_to_label(idx)
            if back != lab:
                out.append(fail('column_index_to_label(%d) = %r, expected %r' % (idx, back, lab), lab,
                                repr(back)))
            if len(out) > 5:
                break
        env.evals += 4 * n
        if length > 1:
            env.nt(n)
        env.note('len%d' % length, n)
        return out


def bounds(case):
    """[lo, hi], or ['p10', k, a, b] for 10^k + a .. 10^k + b (numbers too long to be written into a case)"""
    if case[0] == 'p10':
        return 10 ** case[1] + case[2], 10 ** case[1] + case[3]
    return case[0], case[1]


class Rows(Sub):
    name = 'c19.rows'
    rule = 'every row number of the bound, label = index + 1 both ways; non-trivial = every row'
    BLOCK = 16384

    def cases(self, tier, unit):
        top = 131072 if tier == 'quick' else 1048576
        for lo in range(1, top + 1, self.BLOCK):
            yield [lo, min(top, lo + self.BLOCK - 1)]
        yield [1048570, 1048580]
        yield [10 ** 7 - 2, 10 ** 7 + 2]
        yield [10 ** 9 - 2, 10 ** 9 + 2]
        # "and beyond": rows that a detour through a double would conflate
        yield [2 ** 53 - 3, 2 ** 53 + 5]
        yield [10 ** 17 - 1, 10 ** 17 + 3]
        yield [2 ** 64 - 1, 2 ** 64 + 3]
        yield [10 ** 30 + 5, 10 ** 30 + 9]
        # ... and rows of 4300, 4301 and 5001 digits (the interpreter converts at most 4300 digits at once)
        yield ['p10', 4299, -2, 2]
        yield ['p10', 4300, -2, 2]
        yield ['p10', 5000, 1, 3]

    def check(self, env, case):
        lo, hi = bounds(case)
        cell = cellmod(env)
        out = []
        for n in range(lo, hi + 1):
            label = digits_of(n)
            shown = label if len(label) < 40 else '%s...%s (%d digits)' % (label[:6], label[-6:], len(label))
            try:
                i = cell.row_label_to_index(label)
            except Exception as e:
                i = 'raised %s' % type(e).__name__
            if i != n - 1:
                out.append(fail('row_label_to_index(%s) = %s, expected the row number less one' % (shown, repr(i)[:40]), shown, repr(i)[:40]))
            try:
                s = cell.row_index_to_label(n - 1)
            except Exception as e:
                s = 'raised %s' % type(e).__name__
            if s != label:
                out.append(fail('row_index_to_label(%s - 1) = %s, expected that number' % (shown, repr(s)[:40]), shown, repr(s)[:40]))
            if len(out) > 5:
                break
        env.evals += 2 * (hi - lo + 1)
        env.nt(hi - lo + 1)
        env.note('rows')
        return out


def check_full(cell, col, colidx, row, pattern, lower, out):
    """pattern: 0 '', 1 '$col', 2 'row$', 3 both."""
    cabs, rabs = bool(pattern & 1), bool(pattern & 2)
    c = col.lower() if lower else col
    label = ('$' if cabs else '') + c + ('$' if rabs else '') + digits_of(row)
    got = cell.extract_label(label)
    try:
        r, cc = got
        ok = (r.index == row - 1 and cc.index == colidx and r.is_absolute is rabs and cc.is_absolute is cabs)
        back = cell.to_label(r, cc) if ok else None
    except Exception as e:  # wrong shape
        out.append(fail('extract_label(%r) has the wrong shape: %r (%s)' % (label, got, type(e).__name__)))
        return
    if ok and (getattr(cc, 'label', col.upper()) != col.upper() or getattr(r, 'label', digits_of(row)) != digits_of(row)):
        out.append(fail('extract_label(%r): the parts carry the labels %r / %r, expected %r / %r (the part of the label that spells '
                        'the index, in upper case)' % (label[:60], getattr(cc, 'label', None), str(getattr(r, 'label', None))[:40], col.upper(),
                                                       digits_of(row)[:40]), [col.upper()], repr(getattr(cc, 'label', None))))
        return
    if not ok:
        out.append(fail('extract_label(%r) = %r; expected row %d%s, col %d%s' % (
            label, got, row - 1, ' abs' if rabs else '', colidx, ' abs' if cabs else ''),
            [row - 1, colidx, rabs, cabs], repr(got)))
    elif back != label.upper():
        out.append(fail('to_label(extract_label(%r)) = %r, expected %r' % (label, back, label.upper()),
                        label.upper(), repr(back)))
    elif hasattr(r, '_replace') and row < 10 ** 30:
        # the label is a function of the indices: a decomposed reference moved one row down and one column right spells that cell
        moved = cell.to_label(r._replace(index=r.index + 1), cc._replace(index=cc.index + 1))
        want = ('$' if cabs else '') + cell.column_index_to_label(colidx + 1) + ('$' if rabs else '') + digits_of(row + 1)
        if moved != want:
            out.append(fail('to_label of the parts of %r with both indices raised by one = %r, expected %r (the label follows the indices, '
                            'not a text stored in the parts)' % (label, moved, want), want, repr(moved)))


class FullByColumn(Sub):
    name = 'c19.full_by_column'
    rule = ('every column x rows {1,10,1048576} x 4 absolute-marker patterns x 2 cases: decompose, '
            'compare with reference indices/flags, recompose; non-trivial = >=2-letter column or $ present')
    ROWS = (1, 10, 1048576)

    def cases(self, tier, unit):
        maxlen = 3 if tier == 'quick' else 4
        for length in range(1, maxlen + 1):
            if length == 1:
                yield [1, '']
            else:
                for first in AZ:
                    yield [length, first]

    def check(self, env, case):
        length, first = case
        cell = cellmod(env)
        out = []
        if length == 1:
            base, labels = 0, list(AZ)
        else:
            base = offset(length) + AZ.index(first) * 26 ** (length - 1)
            labels = (first + ''.join(t) for t in itertools.product(AZ, repeat=length - 1))
        n = 0
        for pos, lab in enumerate(labels):
            for row in self.ROWS:
                for pattern in range(4):
                    for lower in (False, True):
                        check_full(cell, lab, base + pos, row, pattern, lower, out)
                        n += 1
            if len(out) > 5:
                break
        env.evals += n
        env.nt(n if length > 1 else n * 3 // 4)
        env.note('len%d' % length, n)
        return out


class FullByRow(Sub):
    name = 'c19.full_by_row'
    rule = ('columns {A,Z,AA,XFD,ZZZZ} x every row of the bound x 4 marker patterns; non-trivial = all')
    COLS = (('A', 0), ('Z', 25), ('AA', 26), ('XFD', 16383), ('ZZZZ', 475253))
    BLOCK = 8192

    def cases(self, tier, unit):
        top = 65536 if tier == 'quick' else 1048576
        for lo in range(1, top + 1, self.BLOCK):
            yield [lo, min(top, lo + self.BLOCK - 1)]
        yield [1048570, 1048580]
        yield [99999990, 100000001]
        yield [2 ** 53 - 2, 2 ** 53 + 4]
        yield [10 ** 20 + 1, 10 ** 20 + 4]
        yield ['p10', 4300, -1, 1]

    def check(self, env, case):
        lo, hi = bounds(case)
        cell = cellmod(env)
        out = []
        n = 0
        for row in range(lo, hi + 1):
            for col, idx in self.COLS:
                for pattern in range(4):
                    check_full(cell, col, idx, row, pattern, (row & 1) == 1, out)
                    n += 1
            if len(out) > 5:
                break
        env.evals += n
        env.nt(n)
        env.note('rows')
        return out


class NonLabels(Sub):
    name = 'c19.strings'
    rule = ('every string of length <= L over {A,z,$,1,0,space,newline,colon,-,e-acute}: labels (by the '
            'reference grammar) must round-trip, non-labels must decompose to nothing; non-trivial = '
            'string contains a letter and a digit')
    ALPHA = ['A', 'z', '$', '1', '0', ' ', '\n', ':', '-', 'é']
    min_classes = 2

    def cases(self, tier, unit):
        maxlen = 4 if tier == 'quick' else 5
        for length in range(0, maxlen + 1):
            if length <= 2:
                yield [length, '']
            else:
                for a in self.ALPHA:
                    for b in self.ALPHA:
                        yield [length, a + b]

    def check(self, env, case):
        cell = cellmod(env)
        if case[0] == 's':
            return self.one(env, cell, case[1])
        length, prefix = case
        out = []
        rest = length - len(prefix)
        for t in itertools.product(self.ALPHA, repeat=rest):
            s = prefix + ''.join(t)
            f = self.one(env, cell, s)
            if f:
                out.append(f)
        return out

    def one(self, env, cell, s):
        env.evals += 1
        narrow = ['s', s]
        if any(ch.isalpha() for ch in s) and any(ch.isdigit() for ch in s):
            env.nt()
        try:
            got = cell.extract_label(s)
        except Exception as e:
            return fail('extract_label(%r) raised %s' % (s, type(e).__name__), case=narrow)
        if LABEL.match(s):
            env.note('label')
            m = re.match(r'(\$?)([A-Za-z]+)(\$?)([0-9]+)\Z', s)
            try:
                r, c = got
                back = cell.to_label(r, c)
                flags = (r.is_absolute, c.is_absolute)
                rowidx = r.index
            except Exception:
                return fail('extract_label(%r) = %r is not a (row, col) pair' % (s, got), case=narrow)
            if back != s.upper() or flags != (m.group(3) == '$', m.group(1) == '$') \
                    or rowidx != int(m.group(4)) - 1:
                return fail('label %r decomposes to %r and recomposes to %r' % (s, got, back),
                            s.upper(), repr(back), case=narrow)
        else:
            # rows "0" and rows with leading zeros ("A0", "A01") are not positive row numbers without leading zeros:
            # such strings are not cell labels either
            env.note('zero-row: non-label' if SLOPPY.match(s) else 'non-label')
            if got is None or len(got) != 0:
                return fail('extract_label(%r) = %r for a string that is not a cell label; '
                            'expected nothing' % (s, got), [], repr(got), case=narrow)
        return None


_CONF = []


def prewarm():
    confusables()


def confusables():
    if not _CONF:
        _CONF.extend(_confusables())
    return _CONF


def _confusables():
    """every non-ASCII code point that some Unicode transformation (upper, lower, casefold, NFKC/NFKD
    normalisation, digit value) maps into the ASCII label alphabet [A-Za-z0-9$]"""
    import unicodedata
    out = []
    ascii_ok = set('ABCDEFGHIJKLMNOPQRSTUVWXYZabcdefghijklmnopqrstuvwxyz0123456789$')
    for cp in range(128, 0x110000):
        if 0xD800 <= cp <= 0xDFFF:
            continue
        ch = chr(cp)
        forms = (ch.upper(), ch.lower(), ch.casefold(), unicodedata.normalize('NFKC', ch),
                 unicodedata.normalize('NFKD', ch))
        hit = any(f and all(c in ascii_ok for c in f) for f in forms)
        if not hit and unicodedata.category(ch) == 'Nd':
            hit = True
        if hit:
            out.append(cp)
    return out


class Confusables(Sub):
    name = 'c19.unicode_confusables'
    rule = ('every non-ASCII code point that upper/lower/casefold/NFKC/NFKD maps into [A-Za-z0-9$], and every Unicode '
            'decimal digit, placed in the column, row and marker positions of otherwise valid labels: such a string is not '
            'a cell label (the label alphabet is ASCII) and must decompose to nothing; non-trivial = all')
    min_cases = 10
    min_nontrivial = 500
    TEMPLATES = ('%s1', 'A%s1', '%sA1', '$%s$1', 'A%s', 'A1%s', 'A%s$1', '%s', 'a%s12', 'A$%s')

    def cases(self, tier, unit):
        cps = confusables()
        for i in range(0, len(cps), 64):
            yield ['blk', cps[i:i + 64]]

    def check(self, env, case):
        cell = cellmod(env)
        if case[0] == 's':
            s = case[1]
            env.evals += 1
            try:
                got = cell.extract_label(s)
            except Exception as e:
                return fail('extract_label(%r) raised %s' % (s, type(e).__name__), case=['s', s])
            if got is None or len(got) != 0:
                return fail('extract_label(%r) = %r for a string with a non-ASCII character; expected nothing' % (s, got),
                            [], repr(got), case=['s', s])
            return None
        out = []
        for cp in case[1]:
            for t in self.TEMPLATES:
                s = t % chr(cp)
                env.nt()
                f = self.check(env, ['s', s])
                if f:
                    out.append(f)
                    break
            if len(out) > 5:
                break
        return out


SUBS = [Columns(), Rows(), FullByColumn(), FullByRow(), NonLabels(), Confusables()]
