# -*- coding: utf-8 -*-
"""C12 - logical functions are truth-functional; type predicates classify values (K3).

Everything is evaluated through Parser.parse (env.ev).  Values reach the functions as host
variables (xa, xb, ...), as nested host lists, and - for the spellable subset - as literals,
literal arrays and small computed sub-expressions.

Reference model (independent of the library):
  truth(v)      TRUE / non-zero number -> true; FALSE / zero / blank -> false
  AND/OR/XOR    all / any / odd number of true items of the flattened argument list; NOT negation
  IF            2nd or 3rd argument by truth(condition);  IFS value paired with the first true
                condition else #N/A;  SWITCH result paired with the first case that is *equal* to
                the target (same type class - number / text / logical - and same value, i.e. the
                spreadsheet '=' of property C07 under which a logical never equals a number),
                else the default, else #N/A
  errors        an error in a condition that every evaluation order has to test -> that error
  predicates    class of the value (number / text / logical / blank / error) decides the five
                exclusive predicates; ISNONTEXT = not ISTEXT; ISERROR = ISERR or ISNA
  parity        ISODD(x) = trunc(x) odd (exact, via Fraction), ISEVEN(x) its complement
"""
import itertools
import math
from fractions import Fraction

from ..core import Sub, fail, isnum, jkey, lit, CANON_CODES, scale

# delivery-channel and host-type differential (core.Env): of every 3 evaluations that bind variables, one is repeated with the
# values handed in by the cell/range listeners, one with the values returned by custom functions and one with every value an
# instance of a trivial subclass of its type (numpy.float64, IntEnum, rich-text str ... are such); outcomes must agree
CHANNELS = 3

BOUNDS = {
    'quick': 'AND/OR/XOR: every tuple of length 1..5 over {TRUE,FALSE,0,1,-2,0.0,2.5,blank} and of length 6 over '
             '{TRUE,FALSE,0,1} as separate variables; every tuple of length 1..3 regrouped into 2..9 nested-array '
             'shapes and as literals / literal arrays; NOT and IF over the 8 values (variables, literals, computed '
             'conditions) x 3 sentinel pairs; IFS over every condition list of length 1..3 x 2 sentinel sets; SWITCH '
             'over every target and case list of length 1..3 from {1,2,2.0,"a","b",TRUE} with/without default x 2 '
             'sentinel sets x variables/literals; errors: 9 host-supplied codes + 3 formula-produced + 8 literal '
             'codes in every position of AND/OR/XOR (length <=3, also nested in arrays), NOT, IF, IFS (length <=3), '
             'SWITCH target; predicates on 60+ values of every type; ISEVEN/ISODD on k/2, |k|<=13, and 2^53/2^63 '
             'boundary values',
    'thorough': 'as quick, with AND/OR/XOR over every tuple of length 1..6 over the 8 values (299 592 tuples), nested '
                'shapes and literal forms for length <=4, IFS condition lists of length <=4, error placements in '
                'AND/OR/XOR/IFS of length <=4, ISEVEN/ISODD on k/4, |k|<=400, and 2^e+{-1,0,1}, e<=64, as int and float',
}
ASSUMPTIONS = [
    'truth values are read leniently: a result TRUE/FALSE or the numbers 1/0 are accepted as a logical (so ISODD '
    'returning 1 is fine); anything else where a logical is demanded is a failure',
    'text as a condition, empty argument lists / empty arrays, IF with two arguments, IFS with an odd argument count '
    'and SWITCH without any case are not demanded',
    'an error that a short-circuiting evaluation could legitimately skip (after a FALSE in AND, after a TRUE in OR, '
    'after the first true IFS condition) may yield either the short-circuit value or the error; with several errors '
    'any one of them is accepted; an error in the unselected branch of IF must not surface (IF returns the other '
    'argument); an error among the cases of SWITCH may propagate or be passed over (c12.switch_equality: never the result paired with it); errors as ISEVEN/ISODD arguments are not demanded',
    'SWITCH equality is the spreadsheet = (C07: number < text < logical, hence TRUE<>1); 2 equals 2.0; text '
    'equality is only used on identical / different lower-case strings in c12.switch; c12.switch_equality compares SWITCH with the = operator itself on 16 x 16 values incl. blanks',
    'dates: ISTEXT/ISLOGICAL/ISBLANK/ISERROR must be false, ISNUMBER is free; arrays as predicate arguments: only the '
    'relations (at most one of five, ISNONTEXT, ISERROR=ISERR or ISNA) and only when all results are logicals',
    'which of ISERR / ISNA is true for a given error code is not demanded (only ISERROR = ISERR or ISNA); the '
    'error objects supplied by the host are the library\'s own error values (error module singletons)',
    'ISEVEN/ISODD are only checked on finite numbers (not on logicals, blanks, text)',
]

NAMES = ['xa', 'xb', 'xc', 'xd', 'xe', 'xf']
POOL8 = [True, False, 0, 1, -2, 0.0, 2.5, None]
POOL4 = [True, False, 0, 1]
POOLS = {'p8': POOL8, 'p4': POOL4}
FNS = ('AND', 'OR', 'XOR')
NA = '#N/A'

HOST_CODES = list(CANON_CODES)
SRC_ERRORS = [['1/0', '#DIV/0!'], ['NA()', '#N/A'], ['"a"+1', '#VALUE!']]
LIT_CODES = [c for c in CANON_CODES if c != '#GETTING_DATA']     # '_' is not lexed inside an error literal


# --------------------------------------------------------------------------
# reference model

def truthy(v):
    if v is True:
        return True
    if v is False or v is None:
        return False
    if isnum(v):
        return v != 0
    raise ValueError('no truth value for %r' % (v,))


def ref_conn(fn, vals):
    ts = [truthy(v) for v in vals]
    if fn == 'AND':
        return all(ts)
    if fn == 'OR':
        return any(ts)
    if fn == 'XOR':
        return sum(1 for t in ts if t) % 2 == 1
    raise ValueError(fn)


def tclass(v):
    if isinstance(v, bool):
        return 'l'
    if isnum(v):
        return 'n'
    if isinstance(v, str):
        return 't'
    if v is None:
        return 'b'
    if isinstance(v, dict) and '$err' in v:
        return 'e'
    if isinstance(v, dict) and ('$dt' in v or '$d' in v):
        return 'date'
    if isinstance(v, list):
        return 'arr'
    raise ValueError('no class for %r' % (v,))


def sw_equal(a, b):
    return tclass(a) == tclass(b) and a == b


def loose_only(target, cases):
    """Does a case match the target only under untyped (TRUE == 1) equality?"""
    return any(tclass(c) != tclass(target) and tclass(c) in 'ln' and tclass(target) in 'ln' and c == target
               for c in cases)


def as_logical(out):
    """Lenient reading of an outcome as a logical: True/False/1/0 -> bool, else None."""
    if out[0] != 'v':
        return None
    x = out[1]
    if isinstance(x, bool):
        return x
    if isnum(x) and x in (0, 1):
        return bool(x)
    return None


def V(x):
    return ['v', x]


def E(code):
    return ['e', code]


def show(b):
    return 'TRUE' if b else 'FALSE'


# --------------------------------------------------------------------------
# rendering: a template is the list of arguments; an int is "the value with that index as a
# scalar", a list is "a host array of ..." (nested).  A value may also be a slot
# {'$src': text, 'code': ...} (rendered in place, top level only) or {'$lit': code}.

def is_slot(v):
    return isinstance(v, dict) and ('$src' in v or '$lit' in v)


def fill(t, vals, dec):
    if isinstance(t, int):
        return dec(vals[t])
    return [fill(x, vals, dec) for x in t]


def render(env, fn, tmpl, vals):
    args, vs = [], {}
    for j, t in enumerate(tmpl):
        if isinstance(t, int) and is_slot(vals[t]):
            args.append(vals[t].get('$src') or vals[t]['$lit'])
        else:
            vs[NAMES[j]] = fill(t, vals, env.dec)
            args.append(NAMES[j])
    return '%s(%s)' % (fn, ','.join(args)), vs


def render_lit(fn, mode, vals):
    ls = [lit(v) for v in vals]
    if mode == 'litflat':
        return '%s(%s)' % (fn, ','.join(ls))
    if mode == 'litarr':
        return '%s({%s})' % (fn, ','.join(ls))
    if mode == 'litgrid':
        h = len(ls) // 2
        return '%s({%s;%s})' % (fn, ','.join(ls[:h]), ','.join(ls[h:]))
    if mode == 'litmix':
        return '%s(%s,{%s})' % (fn, ls[0], ','.join(ls[1:]))
    raise ValueError(mode)


def flat_tmpl(n):
    return list(range(n))


SHAPES = {
    1: [[[0]], [[[0]]]],
    2: [[[0, 1]], [0, [1]], [[0], 1], [[0], [1]], [[0, [1]]], [[[0], [1]]], [[[0, 1]]]],
    3: [[[0, 1, 2]], [0, [1, 2]], [[0, 1], 2], [[0], [1], [2]], [[0, [1, 2]]], [[[0], [1, 2]]],
        [[[0, 1], [2]]], [[0, [1, [2]]]], [[[[0]], 1], 2]],
    4: [[[0, 1, 2, 3]], [[0, 1], [2, 3]], [[[0, 1], [2, 3]]], [0, [1, [2, [3]]]], [[0, 1, 2], 3],
        [[[0], [1], [2], [3]]]],
}
LITMODES = {1: ['litflat', 'litarr'], 2: ['litflat', 'litarr', 'litmix'], 3: ['litflat', 'litarr', 'litmix'],
            4: ['litflat', 'litarr', 'litgrid', 'litmix']}


def producers_ok(env):
    """Formula-level error / value producers used as sub-expressions are only used when they
    evaluate, on their own, to what the reference expects (their correctness is C05/C08's)."""
    ok = getattr(env, '_c12_prod', None)
    if ok is None:
        ok = {}
        e0 = env.evals          # probing is not counted (keeps the evaluation count independent of sharding)
        for text, code in SRC_ERRORS:
            ok[text] = env.evo(text) == E(code)
        for code in LIT_CODES:
            ok[code] = env.evo(code) == E(code)
        for text, val in COMPUTED:
            o = env.evo(text)
            ok[text] = o[0] == 'v' and jkey(o[1]) == jkey(val)
        env.evals = e0
        env._c12_prod = ok
    return ok


COMPUTED = [['1=1', True], ['1>2', False], ['2-2', 0], ['1+1', 2], ['0.5*2', 1.0], ['"a"&"b"', 'ab'],
            ['"a"="a"', True]]


# --------------------------------------------------------------------------

class ConnFlat(Sub):
    name = 'c12.connectives_flat'
    rule = ('AND/OR/XOR of every value tuple of the bound, one variable per item; non-trivial = tuple holds a '
            'number or blank, or both a true and a false item')
    min_cases = 100
    min_nontrivial = 1000
    min_classes = 6

    def cases(self, tier, unit):
        plan = [(n, 'p8') for n in (1, 2, 3, 4, 5)]
        plan += [(6, 'p8')] if tier == 'thorough' else [(6, 'p4')]
        for n, pid in plan:
            k = min(n, 2)
            for pre in itertools.product(POOLS[pid], repeat=k):
                yield [n, pid, list(pre)]

    def check(self, env, case):
        if case[0] == 'one':
            return self.one(env, case[1], case[2], count=True)
        n, pid, pre = case
        out = []
        for rest in itertools.product(POOLS[pid], repeat=n - len(pre)):
            vals = pre + list(rest)
            if any(not isinstance(v, bool) for v in vals) or len(set(truthy(v) for v in vals)) == 2:
                env.nt()
            for fn in FNS:
                f = self.one(env, fn, vals)
                if f:
                    out.append(f)
            if len(out) > 12:
                break
        return out

    def one(self, env, fn, vals, count=False):
        if count:
            env.nt()
        formula, vs = render(env, fn, flat_tmpl(len(vals)), vals)
        o = env.evo(formula, vars=vs)
        want = ref_conn(fn, vals)
        env.note('%s:%s' % (fn, show(want)))
        if as_logical(o) is not want:
            return fail('%s with %s = %r: expected %s, got %r' % (formula, ', '.join(NAMES[:len(vals)]), vals,
                                                                 show(want), o),
                        V(want), o, case=['one', fn, vals])
        return None


class ConnNested(Sub):
    name = 'c12.connectives_nested'
    rule = ('AND/OR/XOR of every value tuple of length <= L regrouped into every listed nested-array shape (host '
            'lists) and written as literals / literal arrays; non-trivial = every shape evaluation of a tuple that '
            'is not all-TRUE/all-FALSE logicals')
    min_cases = 50
    min_nontrivial = 500
    min_classes = 6

    def cases(self, tier, unit):
        top = 4 if tier == 'thorough' else 3
        for n in range(1, top + 1):
            k = min(n, 2)
            for pre in itertools.product(POOL8, repeat=k):
                yield [n, list(pre)]

    def check(self, env, case):
        if case[0] == 'one':
            return self.one(env, case[1], case[2], case[3])
        n, pre = case
        out = []
        for rest in itertools.product(POOL8, repeat=n - len(pre)):
            vals = pre + list(rest)
            modes = list(SHAPES[n])
            if None not in vals:
                modes += LITMODES[n]
            for mode in modes:
                for fn in FNS:
                    f = self.one(env, fn, mode, vals)
                    if f:
                        out.append(f)
            if len(out) > 12:
                break
        return out

    def one(self, env, fn, mode, vals):
        if isinstance(mode, str):
            formula, vs = render_lit(fn, mode, vals), {}
        else:
            formula, vs = render(env, fn, mode, vals)
        o = env.evo(formula, vars=vs)
        want = ref_conn(fn, vals)
        if any(not isinstance(v, bool) for v in vals) or len(set(truthy(v) for v in vals)) == 2:
            env.nt()
        env.note('%s:%s' % (fn, show(want)))
        env.note('mode:%s' % (mode if isinstance(mode, str) else 'host-array'))
        if as_logical(o) is not want:
            return fail('%s (shape %s, items %r): expected %s, got %r' % (formula, jkey(mode), vals, show(want), o),
                        V(want), o, case=['one', fn, mode, vals])
        return None


SENT_IF = [['yes', 'no'], [11, 22], [False, True]]


class NotIf(Sub):
    name = 'c12.not_if'
    rule = ('NOT(c) and IF(c, s, t) for every condition value (variable, literal, computed sub-expression, one-item host list, '
            'one-cell range, one-item literal array) and every sentinel pair, IF(c, s) for every true condition; non-trivial = condition is a number or blank or computed')
    min_cases = 40
    min_nontrivial = 20
    min_classes = 4

    def cases(self, tier, unit):
        conds = [['var', v] for v in POOL8] + [['lit', v] for v in POOL8 if v is not None]
        conds += [['src', t, v] for t, v in COMPUTED if not isinstance(v, str)]
        # a one-cell range / one-item array is its item (the arguments are flattened): host [v], host [[v]], literal {v}
        conds += [[k, v] for k in ('arr', 'rng') for v in POOL8] + [['larr', v] for v in POOL8 if v is not None]
        for c in conds:
            yield ['not', c]
            for si in range(len(SENT_IF)):
                for vm in ('var', 'lit'):
                    yield ['if', c, si, vm]

    def check(self, env, case):
        kind, c = case[0], case[1]
        if c[0] == 'src' and not producers_ok(env)[c[1]]:
            env.note('producer-off')
            return None
        val = c[2] if c[0] == 'src' else c[1]
        if c[0] == 'var':
            ctext, vs = 'xa', {'xa': val}
        elif c[0] == 'lit':
            ctext, vs = lit(val), {}
        elif c[0] == 'arr':
            ctext, vs = 'xa', {'xa': [val]}
        elif c[0] == 'rng':
            ctext, vs = 'xa', {'xa': [[val]]}
        elif c[0] == 'larr':
            ctext, vs = '{%s}' % lit(val), {}
        else:
            ctext, vs = c[1], {}
        if not isinstance(val, bool) or c[0] == 'src':
            env.nt()
        t = truthy(val)
        if kind == 'not':
            o = env.evo('NOT(%s)' % ctext, vars=vs)
            env.note('NOT:%s' % show(not t))
            if as_logical(o) is not (not t):
                return fail('NOT(%s) with condition %r: expected %s, got %r' % (ctext, val, show(not t), o),
                            V(not t), o)
            return None
        a, b = SENT_IF[case[2]]
        if case[3] == 'var':
            vs = dict(vs, xb=a, xc=b)
            formula = 'IF(%s,xb,xc)' % ctext
        else:
            formula = 'IF(%s,%s,%s)' % (ctext, lit(a), lit(b))
        o = env.evo(formula, vars=vs)
        want = a if t else b
        env.note('IF:%s' % ('then' if t else 'else'))
        if o[0] != 'v' or jkey(o[1]) != jkey(want):
            return fail('%s with condition %r, branches %r / %r: expected %r, got %r' % (formula, val, a, b, want, o),
                        V(want), o)
        if t:
            # the third argument left out: a true condition still returns the second argument
            formula = formula[:formula.rindex(',')] + ')'
            o = env.evo(formula, vars=vs)
            if o[0] != 'v' or jkey(o[1]) != jkey(a):
                return fail('%s with the true condition %r: expected the second argument %r, got %r' % (formula, val, a, o), V(a), o)
        return None


class OneCellArgs(Sub):
    name = 'c12.one_cell_args'
    rule = ('a one-cell range ([[v]]), a one-item array ([v]) and a value nested three deep ([[[v]]]) given where ONE value is expected '
            'is that value: NOT, IF, IFS, SWITCH (target and cases), IFERROR, IFNA, ERROR.TYPE, the five type predicates, ISNONTEXT, ISERR, ISNA, ISEVEN, ISODD and the '
            'flag of TEXTJOIN over 11 values incl. blank and an error value give what they give for the bare value (differential '
            'against the scalar evaluation); non-trivial = all')
    min_cases = 30
    min_nontrivial = 30
    FORMS = ['NOT(xa)', 'IF(xa,"then","else")', 'IFS(xa,"first",TRUE,"second")', 'SWITCH(xa,5,"five",TRUE,"true","other")', 'ISNUMBER(xa)',
             'ISTEXT(xa)', 'ISNONTEXT(xa)', 'ISLOGICAL(xa)', 'ISBLANK(xa)', 'ISERROR(xa)', 'ISERR(xa)', 'ISNA(xa)', 'ISEVEN(xa)', 'ISODD(xa)',
             'TEXTJOIN("-",xa,"a",,"b")', 'IFS(FALSE,1,xa,2,TRUE,3)', 'SWITCH(5,xa,"hit","miss")', 'SWITCH(TRUE,0,"zero",xa,"hit","miss")',
             'IFERROR(xa,"trapped")', 'IFNA(xa,"na")', 'ERROR.TYPE(xa)', 'SWITCH("abc",xa,"hit")']
    VALS = [0, 5, 4, -2.5, True, False, None, '', 'abc', {'$err': '#DIV/0!'}, {'$err': '#N/A'}, 'hostmade:#N/A', 'hostmade:#DIV/0!']

    def cases(self, tier, unit):
        for fi in range(len(self.FORMS)):
            for vi in range(len(self.VALS)):
                yield [fi, vi]

    def check(self, env, case):
        f, v = self.FORMS[case[0]], self.VALS[case[1]]
        # an error object of the host's own making (not the library's shared one) - also inside the wrappers
        v = env.err.XLError(v.split(':')[1]) if isinstance(v, str) and v.startswith('hostmade:') else env.dec(v)
        env.nt()
        def bare(o):
            # a function that hands its argument on (IFERROR of something that is no error) may hand the one-cell range on as it is
            while o[0] == 'v' and isinstance(o[1], list) and len(o[1]) == 1:
                o = ['v', o[1][0]]
            return o
        base = env.evo(f, vars={'xa': v})
        for w, how in (([[v]], 'a one-cell range'), ([v], 'a one-item array'), ([[[v]]], 'nested three deep')):
            o = bare(env.evo(f, vars={'xa': w}))
            if o != base:
                return fail('%s with xa = %r (%s) gives %r, with the bare value %r it gives %r' % (f, w, how, o, v, base), base, o)
        return None


SENT_IFS = [['va', 'vb', 'vc', 'vd'], [False, 0, 'vc', 7], [None, '', 0.0, None]]       # the last: blanks and other falsy values


class Ifs(Sub):
    name = 'c12.ifs'
    rule = ('IFS over every condition list of the bound paired with distinct sentinel values (variables; literals '
            'when no blank); non-trivial = list of >= 2 conditions or a numeric/blank condition')
    min_cases = 500
    min_nontrivial = 400
    min_classes = 3

    def cases(self, tier, unit):
        top = 4 if tier == 'thorough' else 3
        for n in range(1, top + 1):
            for conds in itertools.product(POOL8, repeat=n):
                for si in range(len(SENT_IFS)):
                    yield [list(conds), si, 'var']
                    if None not in conds and None not in SENT_IFS[si]:
                        yield [list(conds), si, 'lit']

    def check(self, env, case):
        conds, si, mode = case
        sent = SENT_IFS[si]
        n = len(conds)
        if n >= 2 or not isinstance(conds[0], bool):
            env.nt()
        if mode == 'var':
            names = ['c' + 'abcd'[i] for i in range(n)]
            vnames = ['v' + 'abcd'[i] for i in range(n)]
            vs = {}
            parts = []
            for i in range(n):
                vs[names[i]] = conds[i]
                vs[vnames[i]] = sent[i]
                parts += [names[i], vnames[i]]
            formula = 'IFS(%s)' % ','.join(parts)
        else:
            vs = {}
            formula = 'IFS(%s)' % ','.join('%s,%s' % (lit(conds[i]), lit(sent[i])) for i in range(n))
        o = env.evo(formula, vars=vs)
        first = next((i for i in range(n) if truthy(conds[i])), None)
        if first is None:
            env.note('IFS:none-true')
            want = E(NA)
            bad = o != want
        else:
            env.note('IFS:first-true' if first == 0 else 'IFS:later-true')
            want = V(sent[first])
            bad = o[0] != 'v' or jkey(o[1]) != jkey(sent[first])
        if bad:
            return fail('%s with conditions %r, values %r: expected %r, got %r' % (formula, conds, sent[:n], want, o),
                        want, o)
        return None


class SwitchEquality(Sub):
    name = 'c12.switch_equality'
    rule = ('"the first case equal to the target": equal as the = operator of the same library finds them - SWITCH(t,c,"hit","miss") = '
            'IF(t=c,"hit","miss") for every ordered pair of 16 values (blank, 0, 0.0, -0.0, 1, 1.0, 2.5, "", "a", "A", "1", TRUE, FALSE, a '
            'date-time, its serial, a one-cell range holding a blank), target and case through variables; with an error value (1/0, a host-made #N/A, '
            'a one-cell range holding #NUM!) as a case in front: that error or the same outcome, never the result paired with the error; non-trivial = all')
    min_cases = 200
    min_nontrivial = 200
    POOL = [None, 0, 0.0, -0.0, 1, 1.0, 2.5, '', 'a', 'A', '1', True, False, {'$dt': '2020-01-01T00:00:00'}, 43831, [[None]]]

    def cases(self, tier, unit):
        for i in range(len(self.POOL)):
            for j in range(len(self.POOL)):
                yield [i, j]

    def check(self, env, case):
        t, c = env.dec(self.POOL[case[0]]), env.dec(self.POOL[case[1]])
        env.nt()
        vars_ = {'xt': t, 'xc': c}
        a = env.evo('SWITCH(xt,xc,"hit","miss")', dict(vars_))
        b = env.evo('IF(xt=xc,"hit","miss")', dict(vars_))
        env.note('equal' if b == ['v', 'hit'] else 'different')
        if a != b:
            return fail('SWITCH(xt,xc,"hit","miss") = %r but IF(xt=xc,"hit","miss") = %r with xt = %r, xc = %r: the case is %s to the target under =' % (
                a, b, t, c, 'equal' if b == ['v', 'hit'] else 'not equal'), b, a)
        # an error value among the cases is equal to no target: the outcome is that error or what the other cases give (which of
        # the two is not demanded) - never the result paired with the error
        for etext, evars, code in (('1/0', {}, '#DIV/0!'), ('xe', {'xe': env.err.XLError('#N/A')}, '#N/A'), ('xe', {'xe': [[env.dec({'$err': '#NUM!'})]]}, '#NUM!')):
            f = 'SWITCH(xt,%s,"broken",xc,"hit","miss")' % etext
            o = env.evo(f, dict(vars_, **evars))
            if o != a and o != ['e', code]:
                return fail('%s with xt = %r, xc = %r%s gives %r: the error %s is no case equal to the target - expected that error or %r' % (
                    f, t, c, (', xe = %r' % (evars['xe'],)) if evars else '', o, code, a), a, o)
        return None


SW_POOL = [1, 2, 2.0, 'a', 'b', True]
SENT_SW = [[['ra', 'rb', 'rc'], 'dd'], [[10, False, 'rc'], 0], [[None, '', 0.0], None]]     # the last: blank results, blank default


class Switch(Sub):
    name = 'c12.switch'
    rule = ('SWITCH over every target and every case list of length 1..3 from {1,2,2.0,"a","b",TRUE}, with and '
            'without default, two sentinel sets, variables and literals; non-trivial = the case list holds a value '
            'equal to the target or a value of another type')
    min_cases = 3000
    min_nontrivial = 1500
    min_classes = 4

    def cases(self, tier, unit):
        for target in SW_POOL:
            for n in (1, 2, 3):
                for cs in itertools.product(SW_POOL, repeat=n):
                    for dflt in (False, True, 'eq'):
                        for si in range(len(SENT_SW)):
                            if dflt == 'eq' and si:
                                continue
                            for mode in ('var', 'lit'):
                                if mode == 'lit' and si == 2:
                                    continue        # blanks are handed in as variables
                                yield [target, list(cs), dflt, si, mode]

    def check(self, env, case):
        target, cs, dflt, si, mode = case
        results, dval = SENT_SW[si]
        if dflt == 'eq':
            dval = target       # a default that happens to equal the target is still only the default
        n = len(cs)
        vs = {}
        if mode == 'var':
            vs['tg'] = target
            parts = ['tg']
            for i in range(n):
                vs['c' + 'abc'[i]] = cs[i]
                vs['r' + 'abc'[i]] = results[i]
                parts += ['c' + 'abc'[i], 'r' + 'abc'[i]]
            if dflt:
                vs['dflt'] = dval
                parts.append('dflt')
        else:
            parts = [lit(target)]
            for i in range(n):
                parts += [lit(cs[i]), lit(results[i])]
            if dflt:
                parts.append(lit(dval))
        formula = 'SWITCH(%s)' % ','.join(parts)
        o = env.evo(formula, vars=vs)
        hit = next((i for i in range(n) if sw_equal(target, cs[i])), None)
        if hit is not None or any(tclass(c) != tclass(target) for c in cs):
            env.nt()
        typed = loose_only(target, cs)
        if hit is not None:
            want = V(results[hit])
            env.note('SWITCH:match')
        elif dflt:
            want = V(dval)
            env.note('SWITCH:default')
        else:
            want = E(NA)
            env.note('SWITCH:n/a')
        if typed:
            env.note('SWITCH:logical-vs-number case present')
        bad = (o != want) if want[0] == 'e' else (o[0] != 'v' or jkey(o[1]) != jkey(want[1]))
        if bad:
            why = ' [a logical never equals a number: TRUE<>1]' if typed else ''
            return fail('%s target %r, cases %r, results %r%s: expected %r, got %r%s' % (
                formula, target, cs, results[:n], ', default %r' % (dval,) if dflt else '', want, o, why), want, o)
        return None


# --------------------------------------------------------------------------
# errors in tested conditions

def err_slots(kinds=('var', 'src', 'lit')):
    out = []
    if 'var' in kinds:
        out += [{'$err': c} for c in HOST_CODES]
    if 'src' in kinds:
        out += [{'$src': t, 'code': c} for t, c in SRC_ERRORS]
    if 'lit' in kinds:
        out += [{'$lit': c, 'code': c} for c in LIT_CODES]
    return out


def slot_code(v):
    if isinstance(v, dict):
        if '$err' in v:
            return v['$err']
        if is_slot(v):
            return v['code']
    return None


def find_slots(x):
    if isinstance(x, dict):
        return [x] if is_slot(x) else []
    if isinstance(x, list):
        return [s for y in x for s in find_slots(y)]
    return []


def slot_usable(env, v):
    if isinstance(v, dict) and '$src' in v:
        return producers_ok(env)[v['$src']]
    if isinstance(v, dict) and '$lit' in v:
        return producers_ok(env)[v['$lit']]
    return True


ERR_OTHERS = [True, False, 0, 2.5, None]
ERR_ARR_SHAPES = {2: [[[0, 1]], [[0, [1]]], [[[0], [1]]]], 3: [[[0, 1, 2]], [[0, [1, [2]]]], [0, [1, 2]]],
                  4: [[[0, 1, 2, 3]], [[[0, 1], [2, 3]]]]}


class ErrorConditions(Sub):
    name = 'c12.error_conditions'
    rule = ('every error code (9 host-supplied error values, 3 formula-produced, 8 error literals) in every '
            'condition position of AND/OR/XOR (separate arguments and inside host arrays), NOT, IF, IFS and as SWITCH '
            'target, all other items ranging over a small value pool; where no evaluation order can skip the '
            'position the result must be that error, elsewhere the error or the short-circuit value; non-trivial = '
            'cases where the error is the only acceptable result')
    min_cases = 3000
    min_nontrivial = 2000
    min_classes = 12

    def cases(self, tier, unit):
        top = 4 if tier == 'thorough' else 3
        slots = err_slots()
        host = err_slots(('var',))
        # NOT / single-argument connectives
        for s in slots:
            yield ['not', s]
        # AND / OR / XOR, one error, separate arguments
        for n in range(1, top + 1):
            for i in range(n):
                for others in itertools.product(ERR_OTHERS, repeat=n - 1):
                    for s in slots:
                        vals = list(others[:i]) + [s] + list(others[i:])
                        for fn in FNS:
                            yield ['conn', fn, flat_tmpl(n), vals]
        # ... inside host arrays (host-supplied error values only)
        for n in range(1, top + 1):
            shapes = ERR_ARR_SHAPES.get(n) or [[[0]], [[[0]]]]
            for i in range(n):
                for others in itertools.product(ERR_OTHERS, repeat=n - 1):
                    for s in host:
                        vals = list(others[:i]) + [s] + list(others[i:])
                        for shp in shapes:
                            for fn in FNS:
                                yield ['conn', fn, shp, vals]
        # two different errors
        for a in host:
            for b in host:
                if a != b:
                    for fn in FNS:
                        yield ['conn', fn, flat_tmpl(2), [a, b]]
        for a, b in itertools.permutations(err_slots(('src',)), 2):
            for fn in FNS:
                yield ['conn', fn, flat_tmpl(2), [a, b]]
        # IF: error as condition; error as a branch value
        for s in slots:
            for si in range(len(SENT_IF)):
                yield ['if', s, si]
        for s in host + err_slots(('src',)):
            for cond in (True, False, 1, 0, None):
                for pos in (1, 2):
                    yield ['ifval', cond, pos, s]
        # IFS: error at every condition position
        for n in range(1, top + 1):
            for i in range(n):
                for others in itertools.product([True, False, 0, 2.5], repeat=n - 1):
                    for s in slots:
                        yield ['ifs', list(others[:i]) + [s] + list(others[i:])]
        # SWITCH: error as the target
        for s in slots:
            for n in (1, 2):
                for cs in itertools.product([1, 'a', True], repeat=n):
                    for dflt in (False, True):
                        yield ['sw', s, list(cs), dflt]

    def check(self, env, case):
        kind = case[0]
        if not all(slot_usable(env, v) for v in find_slots(case)):
            env.note('producer-off')
            return None
        return getattr(self, 'k_' + kind)(env, *case[1:])

    def verdict(self, env, label, formula, o, codes, also=None, detail=''):
        """codes: acceptable error codes; also: an additional acceptable value outcome or None."""
        acc = [E(c) for c in codes]
        ok = o in acc
        if not ok and also is not None:
            if also[0] == 'logical':
                ok = as_logical(o) is also[1]
            else:
                ok = o[0] == 'v' and jkey(o[1]) == jkey(also[1])
        if also is None:
            env.nt()
        env.note('%s:%s' % (label, 'must-report' if also is None else 'may-short-circuit'))
        if ok:
            return None
        exp = acc[0] if (len(acc) == 1 and also is None) else {'any_of': acc + ([V(also[1])] if also else [])}
        return fail('%s%s: an error value in a tested condition must yield that error; expected %s, got %r' % (
            formula, detail, jkey(exp), o), exp, o)

    def k_not(self, env, s):
        formula, vs = render(env, 'NOT', [0], [s])
        o = env.evo(formula, vars=vs)
        return self.verdict(env, 'NOT/' + slot_kind(s), formula, o, [slot_code(s)], detail=' with %s' % jkey(s))

    def k_conn(self, env, fn, tmpl, vals):
        formula, vs = render(env, fn, tmpl, vals)
        o = env.evo(formula, vars=vs)
        codes = [slot_code(v) for v in vals if slot_code(v)]
        rest = [truthy(v) for v in vals if not slot_code(v)]
        also = None
        if fn == 'AND' and (False in rest):
            also = ['logical', False]
        if fn == 'OR' and (True in rest):
            also = ['logical', True]
        kinds = sorted(set(slot_kind(v) for v in vals if slot_code(v)))
        nested = any(isinstance(t, list) for t in tmpl)
        return self.verdict(env, '%s/%s%s' % (fn, '+'.join(kinds), '/array' if nested else ''), formula, o, codes,
                            also, detail=' (shape %s) with items %s' % (jkey(tmpl), jkey(vals)))

    def k_if(self, env, s, si):
        a, b = SENT_IF[si]
        formula, vs = render(env, 'IF', [0, 1, 2], [s, a, b])
        o = env.evo(formula, vars=vs)
        return self.verdict(env, 'IF/' + slot_kind(s), formula, o, [slot_code(s)],
                            detail=' with condition %s, branches %r / %r' % (jkey(s), a, b))

    def k_ifval(self, env, cond, pos, s):
        vals = [cond, 'yes', 'no']
        vals[pos] = s
        formula, vs = render(env, 'IF', [0, 1, 2], vals)
        o = env.evo(formula, vars=vs)
        chosen = vals[1] if truthy(cond) else vals[2]
        env.nt()
        if slot_code(chosen):
            env.note('IF-branch:error selected')
            want = E(slot_code(chosen))
            bad = o != want
        else:
            env.note('IF-branch:error not selected')
            want = V(chosen)
            bad = o[0] != 'v' or jkey(o[1]) != jkey(chosen)
        if bad:
            return fail('%s with condition %r and arguments %s: IF returns its %s argument; expected %r, got %r' % (
                formula, cond, jkey(vals[1:]), 'second' if truthy(cond) else 'third', want, o), want, o)
        return None

    def k_ifs(self, env, conds):
        n = len(conds)
        args, vs = [], {}
        for i in range(n):
            c = conds[i]
            if is_slot(c):
                args.append(c.get('$src') or c['$lit'])
            else:
                vs[NAMES[i]] = env.dec(c)
                args.append(NAMES[i])
            args.append(lit(SENT_IFS[0][i]))
        formula = 'IFS(%s)' % ','.join(args)
        o = env.evo(formula, vars=vs)
        pos = next(i for i in range(n) if slot_code(conds[i]))
        before = next((i for i in range(pos) if truthy(conds[i])), None)
        also = None if before is None else ['value', SENT_IFS[0][before]]
        codes = [slot_code(conds[pos])]
        if before is not None and '$lit' not in conds[pos]:
            # the statement: IFS is "the value paired with the FIRST true condition" - a condition after it is not a
            # tested condition, so its error must not surface (an error literal still aborts the whole formula)
            codes = []
            env.nt()
        return self.verdict(env, 'IFS/' + slot_kind(conds[pos]), formula, o, codes, also,
                            detail=' with conditions %s' % jkey(conds))

    def k_sw(self, env, s, cs, dflt):
        n = len(cs)
        args, vs = [], {}
        if is_slot(s):
            args.append(s.get('$src') or s['$lit'])
        else:
            vs['tg'] = env.dec(s)
            args.append('tg')
        for i in range(n):
            args += [lit(cs[i]), lit(SENT_SW[0][0][i])]
        if dflt:
            args.append(lit(SENT_SW[0][1]))
        formula = 'SWITCH(%s)' % ','.join(args)
        o = env.evo(formula, vars=vs)
        return self.verdict(env, 'SWITCH/' + slot_kind(s), formula, o, [slot_code(s)],
                            detail=' with target %s' % jkey(s))


def slot_kind(v):
    if '$err' in v:
        return 'host'
    return 'formula' if '$src' in v else 'literal'


# --------------------------------------------------------------------------
# predicates

FIVE = ('ISNUMBER', 'ISTEXT', 'ISLOGICAL', 'ISBLANK', 'ISERROR')
PREDS = FIVE + ('ISERR', 'ISNA', 'ISNONTEXT')
OWN = {'n': 'ISNUMBER', 't': 'ISTEXT', 'l': 'ISLOGICAL', 'b': 'ISBLANK', 'e': 'ISERROR'}

PRED_VALUES = (
    [0, 1, -1, 2, 3, 7, -3, 10 ** 6, 2 ** 53 + 1, -2 ** 40, 0.0, 0.5, -2.5, 0.1, 2.675, 1e300, -1e-300] +
    ['abc', '', ' ', '3', '-3.5', 'TRUE', 'false', 'é', '1900-01-01', 'a b', '#N/A', '#DIV/0!', '#VALUE!'] +
    [True, False, None] +
    [{'$err': c} for c in HOST_CODES] +
    [{'$dt': '2019-11-20T00:00:00'}, {'$dt': '2000-02-29T00:00:00'}, {'$dt': '1900-03-01T00:00:00'},
     {'$dt': '2019-11-20T18:30:15'}] +
    [[], [1], [1, 2], ['a'], [None], [True], [[1, 2], [3, 4]], [1, 'a', True, None], [{'$err': '#N/A'}], [[]]]
)
PRED_SRC = ([[t, v] for t, v in COMPUTED] +
            [['0', 0], ['(-3)', -3], ['2.5', 2.5], ['1%', None], ['"abc"', 'abc'], ['""', ''], ["'3'", '3'],
             ['TRUE', True], ['FALSE', False], ['TRUE()', True], ['(1)', 1], ['-(2)', -2], ['1/2', 0.5]])


class Predicates(Sub):
    name = 'c12.predicates'
    rule = ('the eight predicates on every value of the pool (numbers, text incl. numeric-looking text, logicals, '
            'blank, all 9 error values, dates, arrays) as a variable, and on literals / computed sub-expressions / '
            'formula-produced errors; non-trivial = every value (8 evaluations each)')
    min_cases = 60
    min_nontrivial = 60
    min_classes = 7

    def cases(self, tier, unit):
        for v in PRED_VALUES:
            yield ['var', v]
        for t, v in PRED_SRC:
            yield ['src', t, v]
        for t, c in SRC_ERRORS:
            yield ['src', t, {'$err': c}]

    def check(self, env, case):
        if case[0] == 'var':
            v, arg, vs = case[1], 'xa', {'xa': env.dec(case[1])}
        else:
            arg, v, vs = case[1], case[2], {}
            o = env.evo(arg)
            if arg == '1%':
                if o[0] != 'v' or not isnum(o[1]):
                    env.note('producer-off')
                    return None
                v = o[1]
            else:
                want = E(v['$err']) if tclass(v) == 'e' else V(v)
                if o[0] != want[0] or jkey(o[1]) != jkey(want[1]):
                    env.note('producer-off')
                    return None
        cls = tclass(v)
        env.nt()
        env.note('class:%s/%s' % (cls, case[0]))
        outs = dict((p, env.evo('%s(%s)' % (p, arg), vars=vs)) for p in PREDS)
        got = dict((p, as_logical(outs[p])) for p in PREDS)
        what = '%s = %s' % (arg, jkey(v)) if case[0] == 'var' else arg
        out = []
        if cls in OWN:
            for p in FIVE:
                want = (p == OWN[cls])
                if got[p] is not want:
                    out.append(fail('%s(%s): value of class %s, expected %s, got %r' % (
                        p, what, {'n': 'number', 't': 'text', 'l': 'logical', 'b': 'blank', 'e': 'error'}[cls],
                        show(want), outs[p]), V(want), outs[p]))
        elif cls == 'date':
            for p in ('ISTEXT', 'ISLOGICAL', 'ISBLANK', 'ISERROR'):
                if got[p] is not False:
                    out.append(fail('%s(%s): a date, expected FALSE, got %r' % (p, what, outs[p]), V(False), outs[p]))
        elif any(got[p] is None for p in PREDS):
            env.note('array: non-logical result (not demanded)')
            return None
        # relations (whenever the results involved are logicals)
        if all(got[p] is not None for p in FIVE):
            trues = [p for p in FIVE if got[p]]
            if len(trues) > 1:
                out.append(fail('%s: %s are all TRUE; the five class predicates are mutually exclusive' % (
                    what, ' and '.join(trues)), 'at most one TRUE', trues))
        if got['ISTEXT'] is not None or cls in OWN or cls == 'date':
            if got['ISNONTEXT'] is None or got['ISTEXT'] is None or got['ISNONTEXT'] is got['ISTEXT']:
                out.append(fail('ISNONTEXT(%s) = %r but ISTEXT = %r; ISNONTEXT is the negation of ISTEXT' % (
                    what, outs['ISNONTEXT'], outs['ISTEXT']), 'negation', [outs['ISTEXT'], outs['ISNONTEXT']]))
        if got['ISERROR'] is not None or cls in OWN or cls == 'date':
            if got['ISERR'] is None or got['ISNA'] is None or got['ISERROR'] is None or \
                    got['ISERROR'] is not (got['ISERR'] or got['ISNA']):
                out.append(fail('%s: ISERROR = %r, ISERR = %r, ISNA = %r; ISERROR = ISERR or ISNA' % (
                    what, outs['ISERROR'], outs['ISERR'], outs['ISNA']), 'ISERROR = ISERR or ISNA',
                    [outs['ISERROR'], outs['ISERR'], outs['ISNA']]))
        if cls == 'e':
            env.note('error:%s' % ('ISNA' if got['ISNA'] else 'ISERR' if got['ISERR'] else 'neither'))
        return out


# --------------------------------------------------------------------------
# parity

def parity_values(tier):
    seen = set()
    out = []

    def add(x):
        k = jkey(enc_num(x))
        if k not in seen:
            seen.add(k)
            out.append(enc_num(x))
    den, top = (4, 400) if tier == 'thorough' else (2, 13)
    for k in range(-top, top + 1):
        fr = Fraction(k, den)
        if fr.denominator == 1:
            add(int(fr))
        add(float(fr))
    exps = range(1, 65) if tier == 'thorough' else (31, 32, 52, 53, 54, 63, 64)
    for e in exps:
        for d in (-1, 0, 1):
            for sign in (1, -1):
                n = sign * (2 ** e + d)
                add(n)
                f = float(n)
                if Fraction(f) == n:
                    add(f)
    for f in (1e15 + 0.5, 1e15 + 1.5, -(1e15 + 1.5), 4503599627370495.5, 4503599627370496.5, 1e22, 1e300, -1e300,
              5e-324, -5e-324, 0.9999999999999999, -0.9999999999999999, 1.9999999999999998, 2.0000000000000004):
        add(f)
    return out


def enc_num(x):
    if isinstance(x, int) and abs(x) >= 2 ** 63:
        return {'$int': str(x)}
    return x


def dec_num(j):
    return int(j['$int']) if isinstance(j, dict) else j


class Parity(Sub):
    name = 'c12.parity'
    rule = ('ISODD / ISEVEN on every number of the pool (halves/quarters around zero, 2^e +- 1 boundaries as int and '
            'float, large and tiny floats) as a variable and, when spellable, as a literal; reference parity = '
            'trunc(Fraction(x)) mod 2; non-trivial = non-integer or |x| >= 2^31')
    min_cases = 60
    min_nontrivial = 30
    min_classes = 4

    def cases(self, tier, unit):
        for x in parity_values(tier):
            yield [x, 'var']
            v = dec_num(x)
            try:
                lit(v)
            except ValueError:
                continue
            yield [x, 'lit']

    def check(self, env, case):
        x, mode = case
        v = dec_num(x)
        if mode == 'var':
            arg, vs = 'xa', {'xa': v}
        else:
            arg, vs = lit(v), {}
        odd = math.trunc(Fraction(v)) % 2 == 1
        if Fraction(v).denominator != 1 or abs(v) >= 2 ** 31:
            env.nt()
        env.note('%s/%s/%s' % ('odd' if odd else 'even', 'int' if isinstance(v, int) else 'float', mode))
        oo = env.evo('ISODD(%s)' % arg, vars=vs)
        oe = env.evo('ISEVEN(%s)' % arg, vars=vs)
        out = []
        what = '%s%s' % (arg, ' = %r' % (v,) if mode == 'var' else '')
        if as_logical(oo) is not odd:
            out.append(fail('ISODD(%s): integer part %d, expected %s, got %r' % (
                what, math.trunc(Fraction(v)), show(odd), oo), V(odd), oo))
        if as_logical(oe) is not (not odd):
            out.append(fail('ISEVEN(%s): integer part %d, expected %s, got %r' % (
                what, math.trunc(Fraction(v)), show(not odd), oe), V(not odd), oe))
        # "complementary", as a user can write it: under the library's own comparison (TRUE <> 1) the two predicates
        # must answer with logicals for ISODD(x) = NOT(ISEVEN(x)) to hold
        if not out:
            oc = env.evo('ISODD(%s)=NOT(ISEVEN(%s))' % (arg, arg), vars=vs)
            if oc != ['v', True]:
                out.append(fail('ISODD(%s)=NOT(ISEVEN(%s)) gives %r; ISODD gives %r, ISEVEN gives %r (complementary predicates)' % (
                    what, arg, oc, oo, oe), V(True), oc))
        return out



class LogicScale(Sub):
    name = 'c12.scale'
    rule = ('size ladder of the number n of truth values / conditions / cases: AND, OR, XOR over a host list, rows of 16 and '
            '(n <= 257) literal arguments with the deciding value in the LAST place; IFS with the first true condition in the '
            'last place; SWITCH matching its last case, and falling through to the default; non-trivial = all')
    min_cases = 40
    min_nontrivial = 40

    def cases(self, tier, unit):
        for n in scale(tier):
            yield [n]

    def check(self, env, case):
        n = case[0]
        env.nt()
        t_then_f = [True] * (n - 1) + [False]
        f_then_t = [False] * (n - 1) + [True]
        ones = [1] * n
        rows = lambda xs: [xs[i:i + 16] for i in range(0, len(xs), 16)]
        probes = []
        for nm, vals in (('flat', lambda x: x), ('rows', rows)):
            probes += [('AND(xa)', {'xa': vals(t_then_f)}, False), ('AND(xa)', {'xa': vals([True] * n)}, True),
                       ('OR(xa)', {'xa': vals(f_then_t)}, True), ('OR(xa)', {'xa': vals([False] * n)}, False),
                       ('XOR(xa)', {'xa': vals(ones)}, n % 2 == 1), ('XOR(xa)', {'xa': vals(f_then_t)}, True),
                       ('AND(xa,TRUE)', {'xa': vals(ones)}, True), ('OR(FALSE,xa)', {'xa': vals([0] * n)}, False)]
        if n <= 257:
            lits = lambda xs: ','.join('TRUE' if x else 'FALSE' for x in xs)
            probes += [('AND(%s)' % lits(t_then_f), {}, False), ('OR(%s)' % lits(f_then_t), {}, True),
                       ('XOR(%s)' % lits([True] * n), {}, n % 2 == 1),
                       ('IFS(%s)' % ','.join('%s,%d' % ('TRUE' if i == n - 1 else 'FALSE', i) for i in range(n)), {}, n - 1),
                       ('SWITCH(%d,%s)' % (n, ','.join('%d,"r%d"' % (i, i) for i in range(1, n + 1))), {}, 'r%d' % n),
                       ('SWITCH(0,%s,"dflt")' % ','.join('%d,"r%d"' % (i, i) for i in range(1, n + 1)), {}, 'dflt')]
        out = []
        for f, vars_, want in probes:
            o = env.evo(f, vars_ or None)
            if o != ['v', want]:
                out.append(fail('%s with n = %d values%s gives %r, expected %r' % (
                    f if len(f) < 100 else f[:60] + ' ... ' + f[-30:], n, ' (deciding value last)', o, want), want, o))
                if len(out) >= 3:
                    break
        return out


SUBS = [SwitchEquality(), ConnFlat(), ConnNested(), NotIf(), OneCellArgs(), Ifs(), Switch(), ErrorConditions(), Predicates(), Parity(), LogicScale()]
