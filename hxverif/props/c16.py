# -*- coding: utf-8 -*-
"""C16 - real-valued math functions, PV, RAND / RANDBETWEEN  (K3 + environment enumeration).

Every function of the statement is evaluated through Parser.parse on a *deterministic* grid
(no sampling): G = {k/8 : |k| <= 64} + {+-10^e : -6 <= e <= 6} + multiples of pi/12 (spelled with
PI() inside the formula), supplied as numbers (variables and literals), as numeric text and
as logicals; non-numeric text; two-argument functions on 21 x 21 sub-grids; ATAN2 on a square
that contains the four half-axes and the origin; PV on a product of rates/periods/payments/
futures/types; RAND / RANDBETWEEN under an environment seam that replaces the attribute
`random` of the snapshot module hotxlfp.formulas.mathtrig and enumerates every answer of the
source.

Reference: the stdlib `math` value of the *defining* function (never the library's own
formula: ACOT -> atan2(1,x), ACOTH -> atanh(1/x), ACOSH -> math.acosh, COT -> 1/tan,
EXP -> math.exp, POWER -> exact Fraction power / exp(y ln x), ATAN2 -> math.atan2(y,x)),
exact Fractions for the PV annuity residual, and the identities of the statement."""
import decimal
import importlib
import math
import operator
import types
from fractions import Fraction

from ..core import Siblings, Sub, fail, lit, close, enc

PI = math.pi
HALF_PI = math.pi / 2
SING = 1e-6          # arguments are kept this far away from a singularity
BIG = Fraction(10) ** 300

# delivery-channel and host-type differential (core.Env): of every 3 evaluations that bind variables, one is repeated with the
# values handed in by the cell/range listeners, one with the values returned by custom functions and one with every value an
# instance of a trivial subclass of its type (numpy.float64, IntEnum, rich-text str ... are such); outcomes must agree
CHANNELS = 3

BOUNDS = {
    'quick': 'G = {k/8: |k|<=64} + {+-10^e: |e|<=6} (153 reals) + {k*PI()/12: |k|<=24}; 23 one-argument '
             'functions + PI on G as variable and as literal; numeric text of every plainly spellable G value, '
             'logicals, 10 non-numeric texts (variable and literal); LOG(x,b) and POWER on 21x21; ATAN2 on '
             '{-2,-1,-.5,0,.5,1,2}^2 x 4 forms + logicals + text faults; 30 identities on G; PV on 6 rates x 5 '
             'periods x 3 payments x (omitted | 3 futures x (omitted,0,1)) x 2 forms; RAND under 4 source '
             'answers; RANDBETWEEN on all integer a<=b in -4..4 (+3 far pairs) x every source answer',
    'thorough': 'G = {k/64: |k|<=1024} + {+-10^e: |e|<=6} (2071 reals) + {k*PI()/48: |k|<=96}; same functions/'
                'forms; numeric text on {k/16: |k|<=128}; LOG and POWER on 33x33; ATAN2 on a 13-value square '
                '(+-1e6 ... +-1e-6, 0); identities on the dense grid; PV on 11 rates x 8 periods x 4 payments x '
                '(omitted | 4 futures x 3 types) x 2 forms; RAND under 9 source answers; RANDBETWEEN on all '
                'integer a<=b in -8..8 (+3 far pairs) x every source answer',
}

ASSUMPTIONS = [
    'no random sampling: the statement\'s "random reals over many magnitudes" is replaced by deterministic '
    'grids (dyadic rationals, powers of ten 1e-6..1e6, multiples of pi); nothing outside the grids is claimed',
    'reference = stdlib math value of the defining function, compared with core.close (rel 1e-9, abs 1e-12)',
    'not demanded: accuracy within 1e-6 of a singularity (TAN near odd multiples of pi/2, COT near non-zero '
    'multiples of pi, LOG base within 1e-6 of 1); results whose true magnitude exceeds 1e300 (error or inf or '
    'a big integer are all accepted); POWER(0,0); LOG(1,1); LOG with both arguments negative; POWER of a '
    'negative base is demanded to be an error only for non-integer exponents (all of them are dyadic '
    'doubles, for which no real root exists)',
    'ACOT of a negative number: both conventions accepted (atan(1/x) in (-pi/2,0) and pi+atan(1/x)); '
    'ACOT(0) = pi/2 under both',
    'ATAN2: any representative of the angle modulo 2*pi is accepted (so +pi and -pi on the negative x axis); '
    '"#DIV/0! only at the origin" is read as: exactly #DIV/0! at (0,0), the angle everywhere else',
    'outside the domain / non-numeric text: any error code is accepted (including #ERROR! produced by '
    'Parser.parse from an escaping exception); a NaN, an infinity, a complex or a text result is not an error',
    'numeric text = plain decimal spellings ("0.125", "-3", "0.000001") plus signed / exponent spellings ("+0.5", '
    '"1e+16", "1E5", "2.5e-3") on the one-argument functions; "inf", "nan", underscores, blanks and padded text are '
    'not demanded either way; a logical result equal to the expected '
    'number (True for 1) is accepted as that number',
    'inverse-of-function identities are checked only where they are well conditioned (e.g. ATANH(TANH x) for '
    '|x|<=4, ACOS(COS x) not within 0.01 of 0 or pi but at the end points themselves)',
    'PV: rate > -1, type in {omitted,0,1}, future omitted = 0; integer periods are judged with exact '
    'Fractions, the half-integer period with floats; residual <= 1e-9 * (sum of the magnitudes of the three '
    'terms); numeric text and logicals are read as numbers by PV as by every other function (C06; checked on a sub-product), a type that is not a number must give an error; nothing is demanded when (1+r)^n leaves '
    '1e-300..1e300 (e.g. rate -0.9 over 360 periods)',
    'RAND/RANDBETWEEN: the seam replaces mathtrig.random (module or function) and, if present, the module '
    'attributes randint/randrange; random() answers {0, 2^-53, 0.5, 1-2^-53,...}, randint/randrange answer '
    'every integer of the requested range in turn. Only the range/type is demanded, not that the result '
    'equals the source answer. RANDBETWEEN: a <= b only (integers, plus 9 fractional pairs; when [a,b] holds no integer an error is demanded); an integral float result is accepted. If '
    'the attribute is missing the check degrades to one evaluation per case on the real source (type/range '
    'only) and says so in the outcome classes (no-seam)',
]


# --------------------------------------------------------------------------------------------
# grids

def nz(v):
    """ints for integral values, floats otherwise (1 and 1.0 would be duplicate cases)."""
    f = float(v)
    return int(f) if f.is_integer() else f


def uniq(seq):
    seen, out = set(), []
    for v in seq:
        if v not in seen:
            seen.add(v)
            out.append(v)
    return out


def grid(tier):
    den, top = (8, 64) if tier == 'quick' else (64, 1024)
    g = [nz(Fraction(k, den)) for k in range(-top, top + 1)]
    for e in range(-6, 7):
        p = nz(float('1e%d' % e))
        g += [p, -p]
    return uniq(sorted(g, key=lambda v: (abs(v), v)))


def pigrid(tier):
    """[k, den]: the argument k*PI()/den."""
    den, top = (12, 24) if tier == 'quick' else (48, 96)
    return [[k, den] for k in range(-top, top + 1)]


def spell(v):
    """Plain decimal spelling of a number (no exponent) that float()/int() parse back exactly, or None."""
    if isinstance(v, bool):
        return None
    if isinstance(v, int):
        return str(v)
    s = repr(v)
    if 'e' in s or 'E' in s:
        s = format(decimal.Decimal(s), 'f')
    if 'n' in s or len(s) > 24 or float(s) != v:
        return None
    return s


def numlit(v):
    s = spell(v)
    if s is None:
        return None
    return '(%s)' % s if s.startswith('-') else s


def textgrid(tier):
    den, top = (8, 64) if tier == 'quick' else (16, 128)
    g = [nz(Fraction(k, den)) for k in range(-top, top + 1)]
    for e in range(-6, 7):
        p = nz(float('1e%d' % e))
        g += [p, -p]
    out = [spell(v) for v in uniq(sorted(g, key=lambda v: (abs(v), v)))]
    return [s for s in out if s is not None]


def parse_text(s):
    """The harness' own reading of plain-decimal numeric text."""
    try:
        return int(s)
    except ValueError:
        return float(s)


BADTEXT = ['abc', '', '12abc', 'x', '-', 'one', 'inf', 'nan', '-Infinity', '1_0', '1e999', '-1e400']
# signed and exponent spellings of numbers (how floats of large/small magnitude are usually written)
SPELLINGS = ['+0.5', '+2', '1e+16', '6.02e+23', '1E+16', '1e16', '1E5', '2.5e-3', '-1e-3', '1e+0']

UNARY = ['ABS', 'SQRT', 'EXP', 'LN', 'LOG', 'LOG10', 'RADIANS', 'DEGREES',
         'SIN', 'COS', 'TAN', 'COT', 'ASIN', 'ACOS', 'ATAN', 'ACOT',
         'SINH', 'COSH', 'TANH', 'ASINH', 'ACOSH', 'ATANH', 'ACOTH']


# --------------------------------------------------------------------------------------------
# reference: ('in', [accepted values]) | ('out',) | ('skip', reason)

def unary_expect(fn, x):
    x = 1 if x is True else 0 if x is False else x
    try:
        return _unary(fn, x)
    except OverflowError:
        return ('skip', 'overflow')


def _unary(fn, x):
    if fn == 'ABS':
        return ('in', [abs(x)])
    if fn == 'SQRT':
        return ('in', [math.sqrt(x)]) if x >= 0 else ('out',)
    if fn == 'EXP':
        return ('in', [math.exp(x)])
    if fn == 'LN':
        return ('in', [math.log(x)]) if x > 0 else ('out',)
    if fn in ('LOG', 'LOG10'):
        return ('in', [math.log10(x)]) if x > 0 else ('out',)
    if fn == 'RADIANS':
        return ('in', [math.radians(x)])
    if fn == 'DEGREES':
        return ('in', [math.degrees(x)])
    if fn == 'SIN':
        return ('in', [math.sin(x)])
    if fn == 'COS':
        return ('in', [math.cos(x)])
    if fn == 'TAN':
        if abs(math.cos(x)) < SING:
            return ('skip', 'near-singularity')
        return ('in', [math.tan(x)])
    if fn == 'COT':
        if x == 0:
            return ('out',)
        if abs(math.sin(x)) < SING:
            return ('skip', 'near-singularity')
        return ('in', [1.0 / math.tan(x)])
    if fn == 'ASIN':
        return ('in', [math.asin(x)]) if abs(x) <= 1 else ('out',)
    if fn == 'ACOS':
        return ('in', [math.acos(x)]) if abs(x) <= 1 else ('out',)
    if fn == 'ATAN':
        return ('in', [math.atan(x)])
    if fn == 'ACOT':
        a = math.atan2(1.0, x)          # in (0, pi)
        # negative x: the other branch is atan(1/x) in (-pi/2, 0), computed directly (a - PI cancels for large |x|)
        return ('in', [a] if x >= 0 else [a, math.atan(1.0 / x)])
    if fn == 'SINH':
        return ('in', [math.sinh(x)])
    if fn == 'COSH':
        return ('in', [math.cosh(x)])
    if fn == 'TANH':
        return ('in', [math.tanh(x)])
    if fn == 'ASINH':
        return ('in', [math.asinh(x)])
    if fn == 'ACOSH':
        return ('in', [math.acosh(x)]) if x >= 1 else ('out',)
    if fn == 'ATANH':
        return ('in', [math.atanh(x)]) if abs(x) < 1 else ('out',)
    if fn == 'ACOTH':
        # 0.5 * ln((x+1)/(x-1)) = 0.5 * log1p(2/(x-1)): |x| - 1 is exact next to 1, and 2/(|x|-1) is small for large |x|
        return ('in', [math.copysign(0.5 * math.log1p(2.0 / (abs(x) - 1.0)), x)]) if abs(x) > 1 else ('out',)
    raise KeyError(fn)


def binary_expect(fn, x, y):
    x = 1 if x is True else 0 if x is False else x
    y = 1 if y is True else 0 if y is False else y
    try:
        if fn == 'LOG':
            return _log(x, y)
        if fn == 'POWER':
            return _power(x, y)
        if fn == 'ATAN2':
            return _atan2(x, y)
    except OverflowError:
        return ('skip', 'overflow')
    raise KeyError(fn)


def _log(x, b):
    if x < 0 and b < 0:
        return ('skip', 'log-both-negative')
    if x == 1 and b == 1:
        return ('skip', 'log(1,1)')
    if x <= 0 or b <= 0 or b == 1:
        return ('out',)
    if abs(b - 1) < SING:
        return ('skip', 'near-singularity')
    return ('in', [math.log(x) / math.log(b)])


def _power(x, y):
    integral = float(y).is_integer()
    if x == 0:
        if y > 0:
            return ('in', [0])
        return ('skip', 'power(0,0)') if y == 0 else ('out',)
    if x < 0 and not integral:
        return ('out',)
    if integral and abs(y) <= 4096:
        r = Fraction(x) ** int(y)
        if abs(r) > BIG:
            return ('skip', 'overflow')
        return ('in', [float(r)])
    # x > 0 (or a huge integral exponent of a negative base: sign by parity)
    z = y * math.log(abs(x))
    if z > 690:
        return ('skip', 'overflow')
    r = math.exp(z)
    if x < 0 and int(y) % 2:
        r = -r
    return ('in', [r])


def _atan2(x, y):
    if x == 0 and y == 0:
        return ('div0',)
    a = math.atan2(y, x)
    return ('in', [a, a + 2 * PI, a - 2 * PI])


def not_a_number(out):
    return out[0] == 'v' and isinstance(out[1], dict) and '$f' in out[1]


def judge(env, out, exp, what, narrow=None):
    kind = exp[0]
    if not_a_number(out):
        # whatever is or is not demanded of the value: an infinity or a NaN is neither the defined real value nor an error
        return fail('%s: got %s - an infinity / NaN is not a number a sheet can hold (an error value is expected where the '
                    'result cannot be represented)' % (what, out[1]['$f']), ['e', 'any error'], out, case=narrow)
    if kind == 'skip':
        env.note('not-demanded:' + exp[1])
        return None
    if kind == 'out':
        if out[0] == 'e':
            return None
        return fail('%s: outside the domain / not a number, expected an error, got %s' % (what, short(out)),
                    ['e', 'any error'], out, case=narrow)
    if kind == 'div0':
        if out == ['e', '#DIV/0!']:
            return None
        return fail('%s: expected #DIV/0! at the origin, got %s' % (what, short(out)), ['e', '#DIV/0!'], out,
                    case=narrow)
    refs = exp[1]
    if out[0] != 'v':
        return fail('%s: expected %r, got %s' % (what, refs[0], short(out)), ['v', enc(refs[0])], out, case=narrow)
    v = number_of(env, out)
    if v is None:
        return fail('%s: expected the number %r, got the non-number %s' % (what, refs[0], short(out)),
                    ['v', enc(refs[0])], out, case=narrow)
    for r in refs:
        if close(v, r):
            return None
    return fail('%s: expected %r, got %r' % (what, refs[0], v), ['v', enc(refs[0])], out, case=narrow)


def short(out):
    s = repr(out)
    return s if len(s) < 120 else s[:117] + '...'


def number_of(env, out):
    """The numeric value of a ['v', x] outcome, or None (text, list, complex, date...)."""
    if out[0] != 'v':
        return None
    try:
        v = env.dec(out[1])
    except ValueError:
        return None
    if isinstance(v, (int, float)):          # a logical equal to the number is accepted (ASSUMPTIONS)
        return v
    return None


def call(fn, names):
    return '%s(%s)' % (fn, ','.join(names))


# --------------------------------------------------------------------------------------------

LADDER = [5e-324, 1e-320, 1e-300, 1e-200, 1e-100, 1e-30, 1e-17, 1e-9, 1e-6, 1e-3, 1e3, 1e6, 1e9, 1e10, 1e15, 1e17, 1e30, 1e100, 1e154, 1e155, 1e200,
          1e300, 1e307, 1e308, 1.7976931348623157e308]


# functions whose reference is one correctly rounded library call on the exact argument: held to 1e-14 relative (45 units in the last place) in c16.extremes
TIGHT = ('SQRT', 'EXP', 'LN', 'LOG', 'LOG10', 'SINH', 'COSH', 'TANH', 'ASINH', 'ACOSH', 'ATANH', 'ACOTH', 'ATAN', 'ASIN', 'ACOS',
         'RADIANS', 'DEGREES', 'ABS')


class Extremes(Sub):
    name = 'c16.extremes'
    rule = ('every one-argument function x +-{smallest subnormal, 1e-320 .. 1e-9, 1e9 .. 1e308, largest double} as a variable: '
            'where the defined real value is representable as a double it is returned to within rounding (an intermediate '
            'overflow or a cancellation inside the formula used is no excuse), outside the domain an error; where the value '
            'is not representable an error (never an infinity or a NaN); the exponential, logarithm, root, hyperbolic and inverse '
            'functions are held to 1e-14 relative (also at 700, 709, 37.5 ... and at 1 + 2^-k), the others to 1e-9; '
            'non-trivial = value or error demanded')
    min_cases = 500
    min_nontrivial = 300
    min_classes = 10

    def cases(self, tier, unit):
        for fn in UNARY:
            for m in LADDER:
                for sgn in (1, -1):
                    yield [fn, sgn * m]
            # the edges of the domains: the doubles next to +-1 on either side, next to 0, and a hair beyond
            for x in (1.0, math.nextafter(1.0, 2.0), math.nextafter(1.0, 0.0), 1 + 1e-13, 1 + 5e-13, 1 - 1e-13, 1.0000000001, 0.9999999999):
                for sgn in (1, -1):
                    yield [fn, sgn * x]
            for x in (0.0, -0.0):
                yield [fn, x]
            # large and moderately large arguments, where a formula put together from other functions multiplies its rounding
            for x in (700.0, 709.0, 37.5, 300.25, 20.125) + tuple(1 + 2.0 ** -k for k in range(20, 52, 3)):
                for sgn in (1, -1):
                    yield [fn, sgn * x]

    def check(self, env, case):
        fn, x = case
        f = call(fn, ['xa'])
        out = env.evo(f, {'xa': x})
        exp = unary_expect(fn, x)
        if exp[0] == 'in' and any(math.isinf(r) or math.isnan(r) for r in exp[1]):
            exp = ('skip', 'not-representable')
        if exp[0] != 'skip':
            env.nt()
            env.note('%s:%s' % (fn, exp[0]))
        f1 = judge(env, out, exp, '%s with xa=%r' % (f, x))
        if f1 is None and exp[0] == 'in' and out[0] == 'v':
            # tiny results: the absolute tolerance of the general policy (1e-12) would accept 1e-10 for 1.00000008e-10 and
            # 0 for 1e-307; here the value is held to 1e-9 RELATIVE
            v = number_of(env, out)
            tol = 1e-14 if fn in TIGHT and all(abs(r) > 1e-300 for r in exp[1]) else 1e-9
            if v is not None and not any(r == v or (r != 0 and abs(v - r) <= tol * abs(r)) for r in exp[1]):
                return fail('%s with xa=%r: expected %r, got %r (relative error %.3g)' % (
                    f, x, exp[1][0], v, abs(v - exp[1][0]) / abs(exp[1][0]) if exp[1][0] else float('inf')), ['v', enc(exp[1][0])], out)
        return f1


class Unary(Sub):
    name = 'c16.unary'
    rule = ('every one-argument function x every grid value as variable and as literal, and x every '
            'multiple of pi/12 spelled k*PI()/12; non-trivial = argument not in {0,1} (value or error demanded)')
    min_cases = 5000
    min_nontrivial = 4000
    min_classes = 36

    def cases(self, tier, unit):
        yield ['PI', 'c', 0]
        g = grid(tier)
        pg = pigrid(tier)
        for fn in UNARY:
            for x in g:
                yield [fn, 'v', x]
            for x in g:
                if numlit(x) is not None:
                    yield [fn, 'l', x]
            for kd in pg:
                yield [fn, 'p', kd]

    def check(self, env, case):
        fn, form, x = case
        if fn == 'PI':
            out = env.evo('PI()')
            env.nt()
            env.note('PI')
            return judge(env, out, ('in', [PI]), 'PI()')
        if form == 'v':
            f = call(fn, ['xa'])
            out = env.evo(f, {'xa': x})
            what = '%s with xa=%r' % (f, x)
            val = x
        elif form == 'l':
            f = call(fn, [numlit(x)])
            out = env.evo(f)
            what = f
            val = x
        else:
            k, den = x
            f = '%s(xa*PI()/%d)' % (fn, den)
            out = env.evo(f, {'xa': k})
            what = '%s with xa=%r' % (f, k)
            val = k * PI / den
        exp = unary_expect(fn, val)
        if val not in (0, 1):
            env.nt()
        env.note('%s:%s' % (fn, exp[0]))
        return judge(env, out, exp, what)


class Coercion(Sub):
    name = 'c16.coercion'
    rule = ('every function x every argument position x {numeric text of every plainly spellable grid value, '
            'TRUE, FALSE, 10 non-numeric texts}, each as variable and as literal; numeric text/logicals must '
            'behave as the number, non-numeric text must give an error; non-trivial = all')
    min_cases = 3000
    min_nontrivial = 3000
    min_classes = 12

    PARTNERS = [2, 0.5]      # the other argument of a two-argument function

    def cases(self, tier, unit):
        texts = textgrid(tier)
        for fn in UNARY:
            for form in ('v', 'l'):
                for t in texts + SPELLINGS:
                    yield [fn, form, 't', t]
                for b in (True, False):
                    yield [fn, form, 'b', b]
                for t in BADTEXT:
                    yield [fn, form, 'x', t]
        small = [t for t in texts if abs(parse_text(t)) <= 2 or t in ('10', '-10', '3', '8')]
        for fn in ('LOG', 'POWER', 'ATAN2'):
            for form in ('v', 'l'):
                for pos in (0, 1):
                    for other in self.PARTNERS:
                        for t in small:
                            yield [fn, form, 't', t, pos, other]
                        for b in (True, False):
                            yield [fn, form, 'b', b, pos, other]
                        for t in BADTEXT:
                            yield [fn, form, 'x', t, pos, other]
                # both arguments coerced
                for t in ('2', '0.5', '-1', '8'):
                    for u in ('2', '0.5', '3'):
                        yield [fn, form, 't', t, 2, u]
                for b in (True, False):
                    for c in (True, False):
                        yield [fn, form, 'b', b, 2, c]
                yield [fn, form, 'x', 'abc', 2, 'x']

    def check(self, env, case):
        fn, form, kind, a = case[:4]
        env.nt()
        if len(case) == 4:
            args = [a]
        else:
            pos, other = case[4], case[5]
            args = [a, other] if pos == 0 else [other, a] if pos == 1 else [a, other]
        if form == 'v':
            names = ['xa', 'xb'][:len(args)]
            f = call(fn, names)
            vars_ = dict(zip(names, args))
            out = env.evo(f, vars_)
            what = '%s with %s' % (f, ', '.join('%s=%r' % (n, vars_[n]) for n in names))
        else:
            f = call(fn, [lit(v) if isinstance(v, (str, bool)) else numlit(v) for v in args])
            out = env.evo(f)
            what = f
        if kind == 'x':
            exp = ('out',)
        else:
            vals = [parse_text(v) if isinstance(v, str) else v for v in args]
            exp = unary_expect(fn, vals[0]) if len(vals) == 1 else binary_expect(fn, vals[0], vals[1])
        # few classes on purpose: the evidence keeps the first 80 class counts and the seam notes of
        # c16.rand / c16.randbetween must stay visible
        env.note('%s:%s:%s' % ({'t': 'numeric-text', 'b': 'logical', 'x': 'non-numeric'}[kind], exp[0],
                              'one-arg' if len(args) == 1 else fn))
        return judge(env, out, exp, what)


LOGX = [-8, -1, -0.5, 0, 1e-06, 0.001, 0.1, 0.125, 0.5, 1, 1.125, 2, 2.5, 3, 7, 8, 10, 64, 100, 1000, 1000000]
LOGB = [-2, -1, 0, 1e-06, 0.001, 0.1, 0.125, 0.5, 0.875, 1, 1.125, 2, 2.5, 3, 7, 8, 10, 16, 100, 1000, 1000000]
POWX = [-1000000, -10, -8, -2, -1, -0.5, -0.125, 0, 1e-06, 0.001, 0.1, 0.125, 0.5, 1, 2, 2.5, 3, 8, 10, 100,
        1000000]
POWY = [-64, -10, -8, -3, -2.5, -2, -1, -0.5, -0.125, 0, 1e-06, 0.125, 0.5, 1, 2, 2.5, 3, 8, 10, 64, 0.1]
EXTRA = [-3, -0.25, 0.25, 0.75, 1.5, 4, 5, 6, 0.01, 1.0009765625, 12.375, 50]


class Binary(Sub):
    name = 'c16.binary'
    rule = ('LOG(x,b) and POWER(x,y) on the full product of two 21-value (thorough 33) pools, as variables and '
            'as literals; non-trivial = a value or an error is demanded and neither argument is 1')
    min_cases = 1500
    min_nontrivial = 900
    min_classes = 5

    def cases(self, tier, unit):
        extra = [] if tier == 'quick' else EXTRA
        for fn, xs, ys in (('LOG', LOGX, LOGB), ('POWER', POWX, POWY)):
            xs = uniq(xs + extra)
            ys = uniq(ys + extra)
            for form in ('v', 'l'):
                for x in xs:
                    for y in ys:
                        yield [fn, form, x, y]

    def check(self, env, case):
        fn, form, x, y = case
        if form == 'v':
            f = call(fn, ['xa', 'xb'])
            out = env.evo(f, {'xa': x, 'xb': y})
            what = '%s with xa=%r, xb=%r' % (f, x, y)
        else:
            f = call(fn, [numlit(x), numlit(y)])
            out = env.evo(f)
            what = f
        exp = binary_expect(fn, x, y)
        if exp[0] != 'skip' and x != 1 and y != 1:
            env.nt()
        env.note('%s:%s' % (fn, exp[0]))
        return judge(env, out, exp, what)


AT_Q = [-2, -1, -0.5, 0, 0.5, 1, 2]
AT_T = [-1000000, -8, -2, -1, -0.5, -1e-06, 0, 1e-06, 0.5, 1, 2, 8, 1000000]


class Atan2(Sub):
    name = 'c16.atan2'
    rule = ('ATAN2(x,y) on the full square of the pool (contains the four half-axes and the origin), as '
            'numbers and as numeric text, variables and literals: angle of (x,y) modulo 2pi, #DIV/0! exactly at '
            'the origin; non-trivial = point on an axis or in quadrants II-IV')
    min_cases = 196
    min_nontrivial = 100
    min_classes = 4

    def cases(self, tier, unit):
        pool = AT_Q if tier == 'quick' else AT_T
        for form in ('v', 'l', 'tv', 'tl'):
            for x in pool:
                for y in pool:
                    yield [form, x, y]

    def check(self, env, case):
        form, x, y = case
        if form in ('tv', 'tl'):
            ax, ay = spell(x), spell(y)
        else:
            ax, ay = x, y
        if form in ('v', 'tv'):
            out = env.evo('ATAN2(xa,xb)', {'xa': ax, 'xb': ay})
            what = 'ATAN2(xa,xb) with xa=%r, xb=%r' % (ax, ay)
        else:
            f = 'ATAN2(%s,%s)' % ((numlit(x), numlit(y)) if form == 'l' else (lit(ax), lit(ay)))
            out = env.evo(f)
            what = f
        exp = _atan2(x, y)
        if x == 0 and y == 0:
            env.note('origin')
        elif x == 0 or y == 0:
            env.note('axis:%s%s' % ('x' if y == 0 else 'y', '+' if (x + y) > 0 else '-'))
        else:
            env.note('quadrant')
        if x <= 0 or y <= 0:
            env.nt()
        f1 = judge(env, out, exp, what)
        if f1 is None and form == 'v' and (x == 0 or y == 0):
            # a zero is a zero: the negative zero that -SIN(0) or ROUND(-0.4,0) leave behind names the same point
            out2 = env.evo('ATAN2(xa,xb)', {'xa': -0.0 if x == 0 else x, 'xb': -0.0 if y == 0 else y})
            if out2 != out:
                return fail('ATAN2(xa,xb) with xa=%r, xb=%r gives %s, but with the zero written as -0.0 it gives %s: one point, two angles'
                            % (x, y, short(out), short(out2)), out, out2)
        return f1


# --------------------------------------------------------------------------------------------
# identities

# (outer, inner): g(f(x)) = x on the principal range of f, restricted to where it is well conditioned
def _inv_range(outer, inner, x):
    """-> list of accepted values of outer(inner(x)) or None when x is outside the checked range."""
    if inner == 'SIN':
        d = HALF_PI - abs(x)
        return [x] if d >= 0 and not (0 < d < 0.01) else None
    if inner == 'COS':
        if not (0 <= x <= PI) or 0 < x < 0.01 or 0 < PI - x < 0.01:
            return None
        return [x]
    if inner == 'TAN':
        return [x] if abs(x) < HALF_PI and abs(math.cos(x)) >= SING else None
    if inner == 'COT':
        if not (0 < x < PI) or abs(math.sin(x)) < SING:
            return None
        return [x] if x <= HALF_PI else [x, x - PI]
    if inner == 'SINH':
        return [x] if abs(x) <= 700 else None
    if inner == 'COSH':
        return [x] if 0 <= x <= 700 and not (0 < x < 0.01) else None
    if inner == 'TANH':
        return [x] if abs(x) <= 4 else None
    if inner == 'EXP':
        return [x] if abs(x) <= 700 else None
    if inner in ('RADIANS', 'DEGREES'):
        return [x]
    raise KeyError(inner)


def _fwd_range(outer, inner, x):
    """f(f^-1(x)) = x where f^-1 = inner is defined (and the composition is well conditioned)."""
    if inner in ('ASIN', 'ACOS'):
        return abs(x) <= 1
    if inner in ('ATAN', 'ACOT'):
        return abs(x) <= 1000
    if inner == 'ASINH':
        return True
    if inner == 'ACOSH':
        return x >= 1
    if inner == 'ATANH':
        return abs(x) < 1
    if inner == 'LN':
        return x > 0
    raise KeyError(inner)


INV = [('ASIN', 'SIN'), ('ACOS', 'COS'), ('ATAN', 'TAN'), ('ACOT', 'COT'), ('ASINH', 'SINH'),
       ('ACOSH', 'COSH'), ('ATANH', 'TANH'), ('LN', 'EXP'), ('DEGREES', 'RADIANS'), ('RADIANS', 'DEGREES')]
FWD = [('SIN', 'ASIN'), ('COS', 'ACOS'), ('TAN', 'ATAN'), ('COT', 'ACOT'), ('SINH', 'ASINH'),
       ('COSH', 'ACOSH'), ('TANH', 'ATANH'), ('EXP', 'LN')]


class Identities(Sub):
    name = 'c16.identities'
    rule = ('sin^2+cos^2=1, TAN=SIN/COS, COT=1/TAN, LOG(x,b)=LN x/LN b (pieces evaluated by the library, '
            'combined exactly as written), EXP(LN x)=x, g(f(x))=x on the principal range and f(g(x))=x on the '
            'domain of g as nested formulas, for every grid value and every multiple of pi/12 where the '
            'identity applies; non-trivial = x not in {0,1}')
    min_cases = 1500
    min_nontrivial = 1200
    min_classes = 20

    def cases(self, tier, unit):
        xs = uniq(grid(tier) + [nz(k * PI / d) for k, d in pigrid(tier)])
        for x in xs:
            yield ['pyth', x]
            if abs(math.cos(x)) >= SING:
                yield ['tan', x]
                if abs(math.sin(x)) >= SING:
                    yield ['cot', x]
            if 1 < abs(x) <= 1000:
                yield ['coth', x]
            for g, f in INV:
                if _inv_range(g, f, x) is not None:
                    yield ['inv', g, f, x]
            for f, g in FWD:
                if _fwd_range(f, g, x):
                    yield ['fwd', f, g, x]
        for x in LOGX + ([] if tier == 'quick' else EXTRA):
            for b in LOGB + ([] if tier == 'quick' else EXTRA):
                if x > 0 and b > 0 and abs(b - 1) >= SING:
                    yield ['logbase', x, b]

    def num(self, env, formula, vars_, fails, what):
        out = env.evo(formula, vars_)
        v = number_of(env, out)
        if v is None or isinstance(v, bool) or math.isnan(v) or math.isinf(v):
            fails.append(fail('%s: %s should be a finite number (the identity applies here), got %s' % (
                what, formula, short(out)), 'a number', out))
            return None
        return float(v)

    def check(self, env, case):
        kind = case[0]
        x = case[-1] if kind != 'logbase' else case[1]
        if x not in (0, 1):
            env.nt()
        fails = []
        V = {'xa': x}
        tag = 'xa=%r' % (x,)
        if kind == 'pyth':
            env.note('pyth')
            s = self.num(env, 'SIN(xa)', V, fails, tag)
            c = self.num(env, 'COS(xa)', V, fails, tag)
            if s is not None and c is not None and not close(s * s + c * c, 1):
                fails.append(fail('SIN(xa)^2+COS(xa)^2 = %r, expected 1 (%s)' % (s * s + c * c, tag), 1,
                                  s * s + c * c))
        elif kind == 'tan':
            env.note('tan')
            s = self.num(env, 'SIN(xa)', V, fails, tag)
            c = self.num(env, 'COS(xa)', V, fails, tag)
            t = self.num(env, 'TAN(xa)', V, fails, tag)
            if None not in (s, c, t) and not close(t, s / c):
                fails.append(fail('TAN(xa) = %r but SIN(xa)/COS(xa) = %r (%s)' % (t, s / c, tag), s / c, t))
        elif kind == 'cot':
            env.note('cot')
            t = self.num(env, 'TAN(xa)', V, fails, tag)
            c = self.num(env, 'COT(xa)', V, fails, tag)
            if None not in (t, c) and t != 0 and not close(c, 1 / t):
                fails.append(fail('COT(xa) = %r but 1/TAN(xa) = %r (%s)' % (c, 1 / t, tag), 1 / t, c))
        elif kind == 'coth':
            env.note('coth(ACOTH)')
            t = self.num(env, 'TANH(ACOTH(xa))', V, fails, tag)
            if t is not None and (t == 0 or not close(1 / t, x)):
                fails.append(fail('1/TANH(ACOTH(xa)) = %r, expected xa (%s)' % (1 / t if t else 'inf', tag), x, t))
        elif kind == 'logbase':
            env.note('logbase')
            b = case[2]
            V = {'xa': x, 'xb': b}
            tag = 'xa=%r, xb=%r' % (x, b)
            lg = self.num(env, 'LOG(xa,xb)', V, fails, tag)
            lx = self.num(env, 'LN(xa)', V, fails, tag)
            lb = self.num(env, 'LN(xb)', V, fails, tag)
            if None not in (lg, lx, lb) and lb != 0 and not close(lg, lx / lb):
                fails.append(fail('LOG(xa,xb) = %r but LN(xa)/LN(xb) = %r (%s)' % (lg, lx / lb, tag), lx / lb, lg))
        elif kind == 'inv':
            g, f = case[1], case[2]
            env.note('%s(%s)' % (g, f))
            acc = _inv_range(g, f, x)
            formula = '%s(%s(xa))' % (g, f)
            r = self.num(env, formula, V, fails, tag)
            if r is not None and not any(close(r, a) for a in acc):
                fails.append(fail('%s = %r, expected xa (%s, principal range)' % (formula, r, tag), x, r))
        elif kind == 'fwd':
            f, g = case[1], case[2]
            env.note('%s(%s)' % (f, g))
            formula = '%s(%s(xa))' % (f, g)
            r = self.num(env, formula, V, fails, tag)
            if r is not None and not close(r, x):
                fails.append(fail('%s = %r, expected xa (%s)' % (formula, r, tag), x, r))
        else:
            raise KeyError(kind)
        return fails


# --------------------------------------------------------------------------------------------
# PV

PV_Q = dict(rates=[0, 0.05, 0.01, 0.5, 1, -0.5, 1e-6, 1e-9, 1e-12, 1e-15, -1e-9], periods=[0, 1, 2, 10, 2.5, 360], pays=[0, 100, -250.5],
            futs=[0, 1000, -1000])
PV_T = dict(rates=[0, 0.05, 0.01, 0.5, 1, -0.5, 0.001, 0.1, 2, -0.25, -0.9, 1e-6, 1e-9, 1e-12, 1e-15, 1e-17, -1e-9, -1e-13],
            periods=[0, 1, 2, 10, 2.5, 360, -2, 30], pays=[0, 100, -250.5, 1],
            futs=[0, 1000, -1000, 0.5])


class PowerWhole(Sub):
    name = 'c16.power_whole'
    rule = ('POWER of two whole numbers is the whole number a^b on both sides of the largest double (2^1023, 2^1024, 10^308, 10^309, '
            '(-2)^1025, 3^700, 7^400 ...), the same value the ^ operator gives between the two literals, through variables and literals; non-trivial = all')
    min_cases = 20
    min_nontrivial = 20
    PAIRS = [(2, 10), (2, 1023), (2, 1024), (2, 1025), (10, 308), (10, 309), (-2, 1023), (-2, 1024), (-2, 1025), (3, 646), (3, 647), (3, 700), (7, 400),
             (-10, 309), (10, 400), (2, 4000), (1, 10 ** 6), (-1, 10 ** 6 + 1), (0, 5000), (12, 300)]

    def cases(self, tier, unit):
        for i in range(len(self.PAIRS)):
            yield [i]

    def check(self, env, case):
        a, b = self.PAIRS[case[0]]
        env.nt()
        want = a ** b
        # (the ^ operator stands between two number literals only)
        for f, vars_ in (('POWER(xa,xb)', {'xa': a, 'xb': b}), ('POWER(%s,%d)' % (numlit(a), b), {})) + ((('%d^%d' % (a, b), {}),) if a >= 0 else ()):
            o = env.evo(f, vars_)
            v = o[1] if o[0] == 'v' else None
            if isinstance(v, dict) and '$int' in v:
                v = int(v['$int'], 0)
            if not (isinstance(v, (int, float)) and not isinstance(v, bool) and v == want):
                return fail('%s%s = %s, expected the whole number %d^%d (%d bits)' % (
                    f, ' with xa=%d, xb=%d' % (a, b) if vars_ else '', short(o), a, b, want.bit_length()), 'a^b', short(o))
        return None


class Pv(Sub):
    name = 'c16.pv'
    rule = ('PV on the full product rates x periods x payments x (future omitted | futures x type in {omitted,'
            '0,1}), as variables and as literals: annuity residual pv(1+r)^n + pmt(1+r*type)((1+r)^n-1)/r + fv '
            '(linear form at r=0) in exact Fractions; on a 4 x 4 x 2 x 2 x 2 sub-product also with every argument as numeric text, '
            'with the type as numeric text ("0", "1", "1.0") and as a logical, and with a type that is not a number (text, error '
            'values: an error is demanded); non-trivial = r != 0, n != 0 and (pmt != 0 or fv != 0)')
    min_cases = 1500
    min_nontrivial = 700
    min_classes = 4

    def cases(self, tier, unit):
        p = PV_Q if tier == 'quick' else PV_T
        for form in ('v', 'l'):
            for r in p['rates']:
                for n in p['periods']:
                    for pay in p['pays']:
                        yield [form, r, n, pay, None, None]
                        for fv in p['futs']:
                            for t in (None, 0, 1):
                                yield [form, r, n, pay, fv, t]
        # small rates that are dyadic (1 + r is exact, (1+r)^n - 1 cancels) and tiny period counts
        for r in (2.0 ** -30, 2.0 ** -16, 2.0 ** -10, -2.0 ** -20):
            for n in (2, 12, 360):
                for pay, fv, t in ((-100, None, None), (-100, 1000, 1), (0, 1, None)):
                    yield ['v', r, n, pay, fv, t]
        for r, n, pay, fv, t in ((1, 0.0001, -100, None, None), (1, 1e-10, -100, None, None), (-0.5, 0.001, -100, 0, 1), (0.05, 0.5, -100, None, None),
                                 (0.1, 1e-70, 1, None, None), (0.1, 1e-50, 1, None, None), (0.05 / 12, 1e-49, 1000, 0, 1), (0.1, -1e-200, -5, None, None),
                                 (2.0 ** -30, 1e-60, 7, 0, 1), (1e-70, 1e-70, 1, None, None), (-1e-90, 3e-80, -250, None, None), (1e-50, 1e-55, 3, 0, 1),
                                 (1e-200, 1e-100, -1, None, None)):
            yield ['v', r, n, pay, fv, t]
        # at rate 0 the equation is linear: the solution is returned wherever it is a number, also when payment * periods alone is not
        for n, pay, fv in ((1.9, 1e308, -1e308), (2, 1.5e308, -1.7e308), (0.5, -1.7e308, 1e308), (3, 1e308, -1.7e308)):
            yield ['v', 0, n, pay, fv, None]
            yield ['v', 0, n, pay, fv, 1]
        # growth factors that are exact doubles (1 + r a small dyadic number): where the solution -fv/(1+r)^n is itself a double it is
        # hit to a few units in the last place - a formula that goes through exp(n*log(1+r)) multiplies its rounding by n*ln(1+r)
        for r in (1, -0.5, 3, 0.25, -0.75):
            for n in (1, 2, 10, 12, 20, 52, 500, 1000):
                for fv in (1, 1024, -3):
                    yield ['exact', r, n, 0, fv, None]
        # intermediate products beyond the double range: a number (finite) or an error, never an infinity
        for r, n, pay, fv in ((0.1, 7400, 100, None), (1, 1000, 20000000, None), (0.25, 3176, 0, 1000), (0.5, -1800, 1, None), (0, 10, 1e308, None),
                              (0, 10, 1.7e308, 1e308)):
            yield ['v', r, n, pay, fv, None]
        for r in (0, 0.05, -0.5, 1e-9):
            for n in (0, 1, 10, 2.5):
                for pay in (100, -250.5):
                    for fv in (0, 1000):
                        for t in (0, 1):
                            for form in ('s', 'z', 'b'):
                                yield [form, r, n, pay, fv, t]
                        yield ['bad', r, n, pay, fv, 0]

    def check(self, env, case):
        form, r, n, pay, fv, t = case
        args = [r, n, pay] + ([fv] if fv is not None else []) + ([t] if t is not None else [])
        names = ['xr', 'xn', 'xp', 'xf', 'xt'][:len(args)]
        if form == 'exact':
            want = -Fraction(fv) / (1 + Fraction(r)) ** n
            try:
                wf = float(want)
            except OverflowError:
                return None
            if Fraction(wf) != want or wf == 0 or abs(wf) < 1e-300:
                env.note('not-demanded:solution is not a double')
                return None
            f = call('PV', names[:4])
            out = env.evo(f, dict(zip(names[:4], [r, n, 0, fv])))
            env.nt()
            pv = number_of(env, out)
            if pv is None or abs(pv - wf) > 16 * math.ulp(wf):
                return fail('%s with xr=%r, xn=%r, xp=0, xf=%r = %s; the solution -fv/(1+r)^n = %r is a double (1+r and its power are exact): '
                            'expected to 16 units in the last place' % (f, r, n, fv, short(out), wf), wf, out)
            return None
        if form == 'bad':
            # the payment-timing argument is an argument like the others: not a number -> an error, never a number
            for bad in ('"x"', '1/0', 'SQRT(-1)', '"0x"'):
                f = call('PV', names[:4] + [bad])
                out = env.evo(f, dict(zip(names[:4], args[:4])))
                env.nt()
                if out[0] != 'e':
                    return fail('%s with %s: the type argument is not a number, expected an error value, got %s' % (
                        f, ', '.join('%s=%r' % nv for nv in zip(names, args)), short(out)), ['e', 'any'], out)
            return None
        if form in ('s', 'z', 'b'):
            # numeric text and logicals are numbers here as well: every argument as text / the type as text / the type as a logical
            given = list(args)
            if form == 's':
                given = [repr(a) for a in args]
            elif form == 'z':
                given[4] = ('%d' if n != 10 else '%d.0') % t
            else:
                given[4] = bool(t)
            f = call('PV', names)
            out = env.evo(f, dict(zip(names, given)))
            what = '%s with %s' % (f, ', '.join('%s=%r' % nv for nv in zip(names, given)))
        elif form == 'v':
            f = call('PV', names)
            out = env.evo(f, dict(zip(names, args)))
            what = '%s with %s' % (f, ', '.join('%s=%r' % nv for nv in zip(names, args)))
        else:
            f = call('PV', [numlit(a) for a in args])
            out = env.evo(f)
            what = f
        if r != 0 and n != 0 and (pay != 0 or fv):
            env.nt()
        env.note('rate%s:type-%s' % ('=0' if r == 0 else '!=0', t))
        fv = fv or 0
        t = t or 0
        # (1+r)^n (or the solution) beyond the double range: not demanded
        growth = Fraction(1) if r == 0 else Fraction(1 + Fraction(r)) ** n if isinstance(n, int) else Fraction(math.pow(1 + r, n))
        if not (1 / BIG <= growth <= BIG):
            env.note('not-demanded:(1+r)^n outside 1e-300..1e300')
            if not_a_number(out):
                return fail('%s: got %s - an infinity / NaN is not a number (an error value is expected where the result cannot '
                            'be computed)' % (what, out[1]['$f']), ['e', 'any error'], out)
            return None
        pv = number_of(env, out)
        if out[0] == 'e' and isinstance(n, int):
            # the solution itself beyond the largest double: an error is the answer
            R0, g0 = Fraction(r), (1 + Fraction(r)) ** n
            sol = -((Fraction(pay) * n if R0 == 0 else Fraction(pay) * (1 + R0 * Fraction(t or 0)) * (g0 - 1) / R0) + Fraction(fv)) / g0
            if abs(sol) > Fraction(1.7976931348623157e308):
                env.note('not-demanded:solution beyond the largest double')
                return None
        if pv is None or isinstance(pv, float) and (math.isnan(pv) or math.isinf(pv)):
            return fail('%s: expected a finite number, got %s' % (what, short(out)), 'a number', out)
        if isinstance(n, int) or r == 0:
            # (at r = 0 the equation is linear: exact whatever the number of periods)
            R, P, F, T, V = Fraction(r), Fraction(pay), Fraction(fv), Fraction(t), Fraction(pv)
            g = (1 + R) ** n if R != 0 else Fraction(1)
            annuity = P * Fraction(n) if R == 0 else P * (1 + R * T) * (g - 1) / R
        else:
            R, P, F, T, V = float(r), float(pay), float(fv), float(t), float(pv)
            g = math.pow(1 + R, n)
            # (g - 1) / R without cancellation for tiny rates
            annuity = P * n if R == 0 else P * (1 + R * T) * math.expm1(n * math.log1p(R)) / R
        residual = V * g + annuity + F
        scale = abs(V * g) + abs(annuity) + abs(F)
        # where the growth factor stays within e^+-50 nothing amplifies the rounding of a sound formula: held to 1e-12 of the terms
        # (a difference of two numbers close to 1 - (1+r)^n - 1 for a small r - is the classic way to lose that)
        mild = abs(n * math.log1p(float(r))) <= 50 if r > -1 else False
        if isinstance(residual, Fraction):
            tol = scale * Fraction(1, 10 ** (12 if mild else 9)) + Fraction(1, 10 ** 300)
        else:
            tol = scale * (1e-12 if mild else 1e-9) + 1e-300
        if abs(residual) <= tol:
            return None
        expected = -(annuity + F) / g
        return fail('%s = %r does not satisfy the annuity equation (residual %.6g, scale %.6g); the solution is '
                    '%r' % (what, pv, float(residual), float(scale), float(expected)), float(expected), out)


# --------------------------------------------------------------------------------------------
# RAND / RANDBETWEEN under the environment seam (DESIGN 4.5)

R_ANSWERS_Q = [0.0, 2.0 ** -53, 0.5, 1 - 2.0 ** -53]
R_ANSWERS_T = R_ANSWERS_Q + [5e-324, 0.25, 0.75, 0.1, 0.9]
MAX_WIDTH = 64


class Source(object):
    """Stand-in for the `random` module (and, being callable, for the function random.random):
    random() answers a fixed float, randint/randrange/choice answer the j-th element of the requested
    range; every request is recorded.  Anything else is delegated to the real module and recorded
    as a bypass."""

    def __init__(self, real, r, j):
        self._real = real
        self._r = r
        self._j = j
        self.calls = []
        self.width = 0
        self.bypass = []

    def __call__(self):
        return self.random()

    def random(self):
        self.calls.append('random')
        return self._r

    def _pick(self, lo, n, step=1):
        self.width = max(self.width, n)
        return lo + step * (self._j % n)

    def randint(self, a, b):
        a, b = operator.index(a), operator.index(b)      # the real source rejects non-integers too
        self.calls.append('randint(%d,%d)' % (a, b))
        if b < a:
            raise ValueError('empty range for randint() (%d, %d)' % (a, b))
        return self._pick(a, b - a + 1)

    def randrange(self, start, stop=None, step=1):
        start = operator.index(start)
        if stop is None:
            start, stop = 0, start
        stop, step = operator.index(stop), operator.index(step)
        self.calls.append('randrange(%d,%d,%d)' % (start, stop, step))
        if step == 0:
            raise ValueError('zero step for randrange()')
        n = (stop - start + step - (1 if step > 0 else -1)) // step
        if n <= 0:
            raise ValueError('empty range for randrange()')
        return self._pick(start, n, step)

    def uniform(self, a, b):
        self.calls.append('uniform')
        return a + (b - a) * self._r

    def choice(self, seq):
        self.calls.append('choice')
        return seq[self._j % len(seq)]

    def __getattr__(self, name):
        if name.startswith('__'):
            raise AttributeError(name)
        self.bypass.append(name)
        return getattr(self._real, name)


class Seam(object):
    """with Seam(r, j) as src: ...   (src is None when the module has no replaceable attribute)."""
    NAMES = ('random', 'randint', 'randrange')

    def __init__(self, r, j):
        self.r, self.j = r, j
        self.saved = {}
        self.mod = None

    def __enter__(self):
        import random as real
        try:
            self.mod = importlib.import_module('hotxlfp.formulas.mathtrig')
        except Exception:
            self.mod = None
            return None
        cur = self.mod.__dict__.get('random')
        if not (isinstance(cur, types.ModuleType) or callable(cur)):
            return None
        src = Source(real, self.r, self.j)
        for name in self.NAMES:
            if name in self.mod.__dict__:
                old = self.mod.__dict__[name]
                if name != 'random' and not callable(old):
                    continue
                self.saved[name] = old
                setattr(self.mod, name, src if name == 'random' else getattr(src, name))
        return src

    def __exit__(self, *exc):
        for name, old in self.saved.items():
            setattr(self.mod, name, old)
        self.saved = {}
        return False


class Rand(Sub):
    name = 'c16.rand'
    rule = ('RAND() under every enumerated answer of the random source (0, 2^-53, 0.5, 1-2^-53, ...): a number '
            'in [0,1); non-trivial = every answer')
    min_cases = 4
    min_nontrivial = 4
    min_classes = 1

    def cases(self, tier, unit):
        answers = R_ANSWERS_Q if tier == 'quick' else R_ANSWERS_T
        for r in answers:
            for f in ('RAND()', 'RAND()*1', '0+RAND()'):
                yield [f, r, 0]

    def check(self, env, case):
        f, r, j = case
        env.nt()
        with Seam(r, j) as src:
            out = env.evo(f)
        if src is None:
            env.note('no-seam: one draw of the real source, range only')
        elif not src.calls:
            env.note('seam-unused: one draw of an unknown source, range only')
        else:
            env.note('seam:' + ','.join(sorted(set(c.split('(')[0] for c in src.calls))))
            if src.bypass:
                env.note('seam-bypass:' + ','.join(sorted(set(src.bypass))))
        v = number_of(env, out)
        if v is None or isinstance(v, bool) or not (0 <= v < 1):
            return fail('%s with the random source answering %r: expected a number in [0,1), got %s' % (
                f, r, short(out)), '0 <= v < 1', out)
        return None


class RandBetween(Sub):
    name = 'c16.randbetween'
    rule = ('RANDBETWEEN(a,b) for every integer pair a<=b of the pool, as variables and as literals, under every '
            'answer of the random source (every integer of the range the library requests x every random() '
            'answer): an integer in [a,b]; non-trivial = a<b')
    min_cases = 90
    min_nontrivial = 72
    min_classes = 1

    def cases(self, tier, unit):
        top = 4 if tier == 'quick' else 8
        pairs = [[a, b] for a in range(-top, top + 1) for b in range(a, top + 1)]
        pairs += [[999999, 1000003], [-2147483650, -2147483646], [0, 9]]
        # fractional bounds: the integers of [a,b] are ceil(a)..floor(b); none at all -> an error, never a number outside
        pairs += [[0.5, 2.5], [-2.5, 2.5], [1, 2.5], [1.5, 3], [-2.5, -1], [-1.5, -0.5], [0.5, 0.9], [-1.5, -1.2], [2.25, 2.75]]
        for form in ('v', 'l'):
            for a, b in pairs:
                yield [form, a, b, 'q' if tier == 'quick' else 't']

    def one(self, env, form, a, b, r, j):
        with Seam(r, j) as src:
            if form == 'v':
                out = env.evo('RANDBETWEEN(xa,xb)', {'xa': a, 'xb': b})
            else:
                out = env.evo('RANDBETWEEN(%s,%s)' % (numlit(a), numlit(b)))
        return out, src

    def verdict(self, form, a, b, r, j, out, env, src):
        v = number_of(env, out)
        if math.ceil(a) > math.floor(b):
            ok = out[0] == 'e'
        else:
            ok = v is not None and not isinstance(v, bool) and float(v).is_integer() and a <= v <= b
        if ok:
            return None
        how = ('' if src is None or not src.calls else
               ' (source: %s; random() answers %r, integer requests answer element %d)' % (
                   ', '.join(src.calls[:3]), r, j))
        f = 'RANDBETWEEN(%s,%s)' % (a, b)
        return fail('%s%s: expected an integer in [%r,%r]%s, got %s' % (
            f, how, a, b, ' (there is none: an error)' if math.ceil(a) > math.floor(b) else '', short(out)),
            'integer in [%r,%r]' % (a, b), out, case=['one', form, a, b, r, j])

    def check(self, env, case):
        if case[0] == 'one':
            _, form, a, b, r, j = case
            out, src = self.one(env, form, a, b, r, j)
            return self.verdict(form, a, b, r, j, out, env, src)
        form, a, b, tier = case
        answers = R_ANSWERS_Q if tier == 'q' else R_ANSWERS_T
        if a < b:
            env.nt()
        fails = []
        out, src = self.one(env, form, a, b, answers[0], 0)
        x = self.verdict(form, a, b, answers[0], 0, out, env, src)
        if x:
            fails.append(x)
        if src is None or not src.calls:
            env.note('no-seam: one draw of the real source per (a,b), type/range only' if src is None else
                     'seam-unused: one draw of an unknown source per (a,b), type/range only')
            return fails
        env.note('seam:' + ','.join(sorted(set(c.split('(')[0] for c in src.calls))))
        if src.bypass:
            env.note('seam-bypass:' + ','.join(sorted(set(src.bypass))))
        width = src.width
        if width > MAX_WIDTH:
            env.note('range wider than %d: first %d answers + last' % (MAX_WIDTH, MAX_WIDTH))
        js = list(range(min(width, MAX_WIDTH))) + ([width - 1] if width > MAX_WIDTH else [])
        uses_r = any(c in ('random', 'uniform') for c in src.calls)
        rs = answers if uses_r else answers[:1]
        for r in rs:
            for j in (js or [0]):
                if r == answers[0] and j == 0:
                    continue
                out, s2 = self.one(env, form, a, b, r, j)
                x = self.verdict(form, a, b, r, j, out, env, s2)
                if x:
                    fails.append(x)
        env.note('answers', len(rs) * len(js or [0]))
        return fails


NEEDS_ZYGOTE = True


class ElementarySiblings(Siblings):
    name = 'c16.siblings'
    GROUPS = [
        (['ABS({0})', 'SQRT({0})', 'EXP({0})', 'LN({0})', 'LOG({0})', 'LOG10({0})', 'SIN({0})', 'COS({0})', 'TAN({0})',
          'COT({0})', 'SEC({0})', 'CSC({0})', 'ASIN({0})', 'ACOS({0})', 'ATAN({0})', 'ACOT({0})', 'SINH({0})', 'COSH({0})',
          'TANH({0})', 'COTH({0})', 'ASINH({0})', 'ACOSH({0})', 'ATANH({0})', 'ACOTH({0})', 'RADIANS({0})', 'DEGREES({0})'],
         [(0,), (0.5,), (1,), (2,), (-1,), (10,), ('0.5',), (True,), ('abc',)]),
        (['POWER({0},{1})', 'LOG({0},{1})', 'ATAN2({0},{1})', 'ATAN2({1},{0})', 'PV({0},{1},1)', 'PV(0.1,{0},{1})'],
         [(2, 3), (3, 2), (1, 1), (0, 0), (0, 1), (10, 10), (-1, 2), (0.5, 2)]),
    ]


SUBS = [PowerWhole(), Unary(), Extremes(), Coercion(), Binary(), Atan2(), Identities(), Pv(), Rand(), RandBetween(), ElementarySiblings()]
