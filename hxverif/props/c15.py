# -*- coding: utf-8 -*-
"""C15 - text functions (K3: bounded-exhaustive enumeration of inputs against a reference).

Every string of a bounded length over a 12-character alphabet (ASCII letters of both cases,
accented letters, a CJK letter, a digit, space, punctuation, TAB and BEL) plus a list of
structured strings of up to 60 characters is pushed through LEFT / RIGHT / MID / LEN / UPPER /
LOWER / PROPER / TRIM / CLEAN by `Parser.parse`, with every count 0..len+5 and -1, -2.  Each
result is compared with a reference written with plain Python string operations, and the laws
of the statement are evaluated *as formulas* through the parser:
    LEFT(s,n)&RIGHT(s,LEN(s)-n) = s      MID(s,1,n) = LEFT(s,n)      LEN(a&b) = LEN(a)+LEN(b)
    F(F(s)) = F(s) for UPPER, LOWER, PROPER, TRIM, CLEAN             CODE(CHAR(n)) = n
SUBSTITUTE is swept over every text of a bounded length over {a, b, space} x old x new x k,
CONCATENATE / TEXTJOIN over every item list over {"a", "b c", blank} regrouped into scalars,
host lists, nested host lists and literal arrays.

Strings reach the formula as variables (a string literal cannot contain its own quote) and,
where they can be spelled, as literals too; counts reach it as literals and as variables.

A case is either a *block* (['blk', alphabet, length, prefix], ['st', i], ...) or a single
input ['one', ...]; block checks run the very same `one()` on every input they contain and
report failures with the narrow ['one', ...] case, so each failing input is individually
replayable and matchable.  Per block at most one failure per (function, situation) signature
is reported (the sweep itself is never cut short), and blocks are dealt over many work items."""
import itertools

from ..core import Siblings, WholeFloats, Sub, fail, lit, scale

# --------------------------------------------------------------------------
# the string spaces

ALPHA = ['a', 'B', 'z', u'\xe9', u'\xd6', u'漢', '1', ' ', '-', ',', '\t', '\x07']
ALPHW = ['a', 'B', ' ', '\t']          # whitespace-rich alphabet for TRIM / CLEAN / PROPER
ALPHAS = {'A': ALPHA, 'W': ALPHW}

STRUCT = [
    'Sale Price', 'Fluid Flow', 'aBcDe', '76budGet',
    'a' * 60, ' ' * 7, '1234567890' * 6,
    '  leading and   trailing  spaces  ',
    ' x', 'x ', 'a  b', 'a   b    c', 'word1 word2  w3',
    '\ttab first', 'tab last\t', 'line\nbreak', '\nnl first', 'cr\r\nlf end\n',
    'bel\x07in\x1fside\x01', '\x07\x08\x0b\x0c\x1f', 'del\x7fkept?',
    ' \t mixed \t  white \n space \t ',
    u'\xdcn\xefc\xf6d\xe9 \xe7\xe0 et l\xe0 \xd1AND\xda',
    u'漢字テキスト', u'漢a字B c漢', u'mixed 漢字 and latin 123',
    u'café noir',
    "it's o'neil-smith, j.r. 3rd", 'say "hi"', 'both \' and "', 'back\\slash', 'trail\\',
    '!#$%&()*+,-./:;<=>?@[]^_`{|}~',
    '=A1+B2', '#N/A', 'TRUE', '123', '1e5', '-0.5', '{1,2;3,4}', 'xs', 'LEFT(xs,1)',
    'ALL CAPS HERE', 'all lower here', 'mIxEd CaSe wOrDs', 'a,b;c d-e_f.g',
    u'\xe9\xe9\xe9 \xd6\xd6 漢 11 -- ,, \t\t \x07\x07 aBz',
]
assert all(len(s) <= 60 for s in STRUCT) and len(set(STRUCT)) == len(STRUCT)

# explicit case table (the reference never calls str.upper / lower / title)
_PAIRS = [(chr(ord('a') + i), chr(ord('A') + i)) for i in range(26)] + [
    (u'\xe9', u'\xc9'), (u'\xf6', u'\xd6'), (u'\xfc', u'\xdc'), (u'\xef', u'\xcf'), (u'\xe7', u'\xc7'),
    (u'\xe0', u'\xc0'), (u'\xf1', u'\xd1'), (u'\xfa', u'\xda')]
LOW2UP = dict(_PAIRS)
UP2LOW = dict((u, l) for l, u in _PAIRS)


def _sanity():
    # harness sanity only: every cased character of the space is in the table
    for s in STRUCT + ALPHA + ALPHW:
        for c in s:
            if (c.upper() != c or c.lower() != c) and c not in LOW2UP and c not in UP2LOW:
                raise AssertionError('cased character %r missing from the case table' % c)


_sanity()

# TRIM is demanded to leave TAB / LF / other control characters at the ends of the text alone
# ("TRIM and CLEAN change only surplus spaces and control characters *respectively*").  Set to
# False to exclude texts containing non-space whitespace from the TRIM value check.
DEMAND_TRIM_KEEPS_CONTROL_WHITESPACE = True

# delivery-channel and host-type differential (core.Env): of every 6 evaluations that bind variables, one is repeated with the
# values handed in by the cell/range listeners, one with the values returned by custom functions and one with every value an
# instance of a trivial subclass of its type (numpy.float64, IntEnum, rich-text str ... are such); outcomes must agree
CHANNELS = 6

BOUNDS = {
    'quick': 'every string of length <= 3 over a 12-character alphabet (1 885) + %d structured strings of '
             'length <= 60; counts -2..len+5, MID starts 1..len+2; string/count passing modes var+literal, '
             'var+var, literal+literal; LEN law on all ordered pairs of (strings of length <= 2 + structured); '
             'case/TRIM/CLEAN also on every string of length <= 5 over {a,B,space,TAB}; CODE(CHAR(n)) '
             'n = 1..255; SUBSTITUTE texts of length <= 4 over {a,b,space} x 5 old x 4 new x 5 k + structured '
             'texts x their characters and two-character substrings x 4 new x 3 k; CONCATENATE/TEXTJOIN item '
             'lists of length <= 3 over {"a","b c",blank,","} and of length 4 over {"a","b c",blank} x every '
             'regrouping x 3 delimiters x 2 ignore flags' % len(STRUCT),
    'thorough': 'every string of length <= 4 over the 12-character alphabet (22 621) + structured strings; '
                'LEN law on (length <= 2 + structured) x (length <= 3 + structured); case/TRIM/CLEAN also on '
                'length <= 7 over {a,B,space,TAB}; CODE(CHAR(n)) for every code point 1..1114111 except '
                'surrogates; SUBSTITUTE texts of length <= 7; item lists of length <= 5 over '
                '{"a","b c",blank,","}',
}
ASSUMPTIONS = [
    'LEN counts code points; only BMP characters are used (Excel counts UTF-16 units)',
    'not demanded: non-integer counts, MID with start < 1 or an omitted count, LEFT/RIGHT with an omitted '
    'count, non-text first arguments',
    'UPPER / LOWER are demanded to produce the upper / lower case form of every letter of an explicit '
    'table (ASCII + 8 accented pairs) and to leave every other character alone',
    'PROPER is demanded to change letter case only, to upper-case a letter at the start of the text or '
    'after a space and to lower-case a letter after a letter; letters after digits, punctuation, control '
    'characters or uncased letters may have either case',
    'TRIM: only U+0020 is a space; TAB/LF and other control characters are not spaces (they are CLEAN\'s '
    'business) and must survive TRIM wherever they stand',
    'CLEAN: code points < 32 are removed, DEL (127) may be kept or removed, everything else is kept',
    'CODE(CHAR(n)) = n is demanded for 1..255; above 255 an error result is accepted (Excel rejects such n), '
    'a different number is not; n = 0 and surrogates are not demanded',
    'CONCATENATE / TEXTJOIN(.., FALSE, ..) render a blank item as empty text; items are text, blanks and whole numbers '
    '(joined as their digits); rendering of other numbers, logicals and "" items under ignore_empty are not demanded',
    'blank items reach the functions as None variables, None members of host lists and single empty '
    'positions of literal arrays; runs of empty positions ({"a",,,"b"}), leading/trailing empty positions '
    'and empty function arguments are argument-list syntax and are not used',
    'SUBSTITUTE: old text never overlaps itself; instance numbers are positive integers',
    'string comparison by = is only used between two values that must be identical, so case sensitivity of '
    '= is irrelevant',
]

VALUE = ['e', '#VALUE!']


# --------------------------------------------------------------------------
# helpers

def can_lit(s):
    return '\\' not in s and '\x00' not in s and not ('"' in s and "'" in s)


def is_true(o):
    return o[0] == 'v' and o[1] is True


def is_text(o, s):
    return o[0] == 'v' and isinstance(o[1], str) and o[1] == s


def is_int(o, n):
    return o[0] == 'v' and isinstance(o[1], (int, float)) and not isinstance(o[1], bool) and o[1] == n


def block_cases(alpha, maxlen):
    """Blocks ['blk', alpha, length, prefix] covering every string of length <= maxlen."""
    A = ALPHAS[alpha]
    for length in range(0, maxlen + 1):
        plen = max(0, length - 1) if alpha == 'A' else max(0, length - 3)
        for pre in itertools.product(A, repeat=plen):
            yield ['blk', alpha, length, ''.join(pre)]


def block_strings(case):
    if case[0] == 'blk':
        _, alpha, length, prefix = case
        for t in itertools.product(ALPHAS[alpha], repeat=length - len(prefix)):
            yield prefix + ''.join(t)
    elif case[0] == 'st':
        yield STRUCT[case[1]]
    else:
        raise ValueError('unknown block %r' % (case,))


def struct_cases():
    for i in range(len(STRUCT)):
        yield ['st', i]


class Sharded(Sub):
    """Cases are dealt over several units (on top of the per-worker stride) so that one work item
    holds few blocks - the runner stores a bounded number of failures per work item."""
    UNITS = {'quick': 8, 'thorough': 32}

    def units(self, tier):
        return list(range(self.UNITS[tier]))

    def cases(self, tier, unit):
        u = self.UNITS[tier]
        for i, c in enumerate(self.all_cases(tier)):
            if unit is None or i % u == unit:
                yield c


class Coll(object):
    """Failure collector of one block: one failure per signature, the sweep is never cut."""

    def __init__(self, cap=10):
        self.out = []
        self.seen = set()
        self.cap = cap

    def add(self, sig, f):
        if f is None:
            return
        if sig in self.seen or len(self.out) >= self.cap:
            return
        self.seen.add(sig)
        self.out.append(f)


def bind(mode, s, nums):
    """mode 'vl': string variable, literal numbers; 'vv': all variables; 'll': all literals.
    -> (S, [N...], vars)"""
    vars = {}
    if mode[0] == 'v':
        S = 'xs'
        vars['xs'] = s
    else:
        S = lit(s)
    N = []
    names = ('xn', 'xm')
    for i, n in enumerate(nums):
        if mode[1] == 'v':
            N.append(names[i])
            vars[names[i]] = n
        else:
            N.append(lit(n))
    return S, N, vars


def modes_for(s):
    return ('vl', 'vv', 'll') if can_lit(s) else ('vl', 'vv')


def counts_for(s):
    return [-2, -1] + list(range(0, len(s) + 6))


def count_class(s, n):
    if n < 0:
        return 'neg'
    if n == 0:
        return 'zero'
    if n < len(s):
        return 'part'
    if n == len(s):
        return 'full'
    return 'over'


# --------------------------------------------------------------------------
# reference (plain Python string operations)

def ref_left(s, n):
    return s if n >= len(s) else s[:n]


def ref_right(s, n):
    if n == 0:
        return ''
    return s if n >= len(s) else s[len(s) - n:]


def ref_mid(s, start, n):
    chars = []
    for pos in range(start, start + n):       # 1-based positions requested
        if 1 <= pos <= len(s):
            chars.append(s[pos - 1])
    return ''.join(chars)


def ref_upper(s):
    return ''.join(LOW2UP.get(c, c) for c in s)


def ref_lower(s):
    return ''.join(UP2LOW.get(c, c) for c in s)


def is_letter(c):
    return c in LOW2UP or c in UP2LOW


def proper_problem(s, r):
    """None when r is an acceptable PROPER(s) (see ASSUMPTIONS), else a description."""
    if len(r) != len(s):
        return 'length changed'
    for i, (a, b) in enumerate(zip(s, r)):
        if not is_letter(a):
            if a != b:
                return 'non-letter %r at %d changed to %r' % (a, i, b)
            continue
        up, lo = LOW2UP.get(a, a), UP2LOW.get(a, a)
        if b not in (up, lo):
            return 'letter %r at %d became %r (not a case change)' % (a, i, b)
        prev = s[i - 1] if i else None
        if prev is None or prev == ' ':
            if b != up:
                return 'letter %r starting a word at %d is not upper case' % (a, i)
        elif is_letter(prev):
            if b != lo:
                return 'letter %r inside a word at %d is not lower case' % (a, i)
    return None


def ref_trim(s):
    return ' '.join(w for w in s.split(' ') if w != '')


def ref_clean(s):
    return ''.join(c for c in s if ord(c) >= 32)


def ref_substitute(text, old, new, k):
    pos = []
    i = 0
    while i + len(old) <= len(text):
        if text[i:i + len(old)] == old:
            pos.append(i)
            i += len(old)
        else:
            i += 1
    if k is not None:
        if k > len(pos):
            return text, len(pos)
        pos = [pos[k - 1]]
    out = []
    at = 0
    for p in pos:
        out.append(text[at:p])
        out.append(new)
        at = p + len(old)
    out.append(text[at:])
    return ''.join(out), len(pos)


def flatten(x, acc):
    if isinstance(x, list):
        for y in x:
            flatten(y, acc)
    else:
        acc.append(x)
    return acc


# --------------------------------------------------------------------------

class Slices(Sharded):
    name = 'c15.slices'
    rule = ('every string of the space x LEFT/RIGHT with every count -2..len+5 in 2-3 argument passing modes '
            'and MID with every start 1..len+2 x every count (string variable + literal numbers; starts 1 and '
            'len+1 also with variable numbers and with all-literal arguments), against Python slicing; '
            'non-trivial = non-empty string')
    min_cases = 100
    min_nontrivial = 1000
    min_classes = 14

    def all_cases(self, tier):
        for c in block_cases('A', 3 if tier == 'quick' else 4):
            yield c
        for c in struct_cases():
            yield c

    def check(self, env, case):
        if case[0] == 'one':
            return self.one(env, case)
        coll = Coll()
        for s in block_strings(case):
            cs = counts_for(s)
            for mode in modes_for(s):
                for n in cs:
                    for fn in ('LEFT', 'RIGHT'):
                        coll.add((fn, count_class(s, n)), self.one(env, ['one', fn, s, n, None, mode]))
                    # MID: every start in mode 'vl'; first start and first start past the end otherwise
                    for st in (range(1, len(s) + 3) if mode == 'vl' else (1, len(s) + 1)):
                        coll.add(('MID', count_class(s, n), st > len(s)),
                                 self.one(env, ['one', 'MID', s, st, n, mode]))
        return coll.out

    def one(self, env, case):
        _, fn, s, a, b, mode = case
        if fn == 'MID':
            S, N, vars = bind(mode, s, [a, b])
            formula = 'MID(%s,%s,%s)' % (S, N[0], N[1])
            n = b
            exp = VALUE if n < 0 else ['v', ref_mid(s, a, n)]
            env.note('MID:%s%s' % (count_class(s, n), ':past' if a > len(s) else ''))
        else:
            S, N, vars = bind(mode, s, [a])
            formula = '%s(%s,%s)' % (fn, S, N[0])
            n = a
            exp = VALUE if n < 0 else ['v', (ref_left if fn == 'LEFT' else ref_right)(s, n)]
            env.note('%s:%s' % (fn, count_class(s, n)))
        if s:
            env.nt()
        o = env.evo(formula, vars=vars)
        ok = (o == VALUE) if n < 0 else is_text(o, exp[1])
        if not ok:
            return fail('%s with %s gives %r, expected %r' % (formula, _show(vars), o, exp), exp, o, case=case)
        return None


def _show(vars):
    return ', '.join('%s=%r' % (k, vars[k]) for k in sorted(vars)) or 'no variables'


class SliceLaws(Sharded):
    name = 'c15.slice_laws'
    rule = ('every string of the space: LEFT(s,n)&RIGHT(s,LEN(s)-n) evaluated as a formula gives s (and "=s" '
            'gives TRUE) for every n in 0..len; MID(s,1,n) and LEFT(s,n) have the same outcome for every n '
            'in -2..len+5 (and "MID(..)=LEFT(..)" gives TRUE for n >= 0); non-trivial = non-empty string')
    min_cases = 100
    min_nontrivial = 1000
    min_classes = 8

    def all_cases(self, tier):
        for c in block_cases('A', 3 if tier == 'quick' else 4):
            yield c
        for c in struct_cases():
            yield c

    def check(self, env, case):
        if case[0] == 'one':
            return self.one(env, case)
        coll = Coll()
        for s in block_strings(case):
            for mode in modes_for(s):
                for n in range(0, len(s) + 1):
                    coll.add(('LR', count_class(s, n)), self.one(env, ['one', 'LR', s, n, mode]))
                for n in counts_for(s):
                    coll.add(('ML', count_class(s, n)), self.one(env, ['one', 'ML', s, n, mode]))
        return coll.out

    def one(self, env, case):
        _, law, s, n, mode = case
        S, N, vars = bind(mode, s, [n])
        N = N[0]
        if s:
            env.nt()
        env.note('%s:%s' % (law, count_class(s, n)))
        if law == 'LR':
            cat = 'LEFT(%s,%s)&RIGHT(%s,LEN(%s)-%s)' % (S, N, S, S, N)
            o = env.evo(cat, vars=vars)
            if not is_text(o, s):
                return fail('%s with %s gives %r, expected the text itself %r' % (cat, _show(vars), o, s),
                            ['v', s], o, case=case)
            eq = '%s=%s' % (cat, S)
            o = env.evo(eq, vars=vars)
            if not is_true(o):
                return fail('%s with %s gives %r, expected TRUE' % (eq, _show(vars), o), ['v', True], o,
                            case=case)
            return None
        m = 'MID(%s,1,%s)' % (S, N)
        l = 'LEFT(%s,%s)' % (S, N)
        om = env.evo(m, vars=vars)
        ol = env.evo(l, vars=vars)
        if om != ol or om[0] not in ('v', 'e'):
            return fail('%s gives %r but %s gives %r (%s)' % (m, om, l, ol, _show(vars)), ol, om, case=case)
        if n >= 0:
            eq = '%s=%s' % (m, l)
            o = env.evo(eq, vars=vars)
            if not is_true(o):
                return fail('%s with %s gives %r, expected TRUE' % (eq, _show(vars), o), ['v', True], o,
                            case=case)
        return None


class LenConcat(Sharded):
    name = 'c15.len_concat'
    rule = ('every ordered pair (a, b) of strings of the pair space: LEN(a&b), LEN(a)+LEN(b) and '
            '"LEN(a&b)=(LEN(a)+LEN(b))" evaluated as formulas, against len(a)+len(b); LEN(a) against len(a); '
            'non-trivial = both strings non-empty')
    min_cases = 100
    min_nontrivial = 1000
    min_classes = 2

    def all_cases(self, tier):
        lb = 2 if tier == 'quick' else 3
        for blk in block_cases('A', 2):
            for a in block_strings(blk):
                yield ['row', a, lb]
        for a in STRUCT:
            yield ['row', a, lb]

    def check(self, env, case):
        if case[0] == 'one':
            return self.one(env, case)
        _, a, lb = case
        coll = Coll()
        for mode in (('v', 'l') if can_lit(a) else ('v',)):
            coll.add(('LEN', mode), self.one(env, ['one', a, None, mode]))
        bs = itertools.chain((b for blk in block_cases('A', lb) for b in block_strings(blk)), STRUCT)
        for b in bs:
            coll.add(('pair', b == ''), self.one(env, ['one', a, b, 'v']))
            if can_lit(a) and can_lit(b):
                coll.add(('pair', b == ''), self.one(env, ['one', a, b, 'l']))
        return coll.out

    def one(self, env, case):
        _, a, b, mode = case
        if b is None:
            S, _n, vars = bind(mode + 'l', a, [])
            f = 'LEN(%s)' % S
            o = env.evo(f, vars=vars)
            if not is_int(o, len(a)):
                return fail('%s with %s gives %r, expected %d' % (f, _show(vars), o, len(a)), ['v', len(a)], o,
                            case=case)
            return None
        if mode == 'v':
            A, B, vars = 'xa', 'xb', {'xa': a, 'xb': b}
        else:
            A, B, vars = lit(a), lit(b), {}
        if a and b:
            env.nt()
        env.note('both' if a and b else 'one empty')
        want = len(a) + len(b)
        f1 = 'LEN(%s&%s)' % (A, B)
        f2 = 'LEN(%s)+LEN(%s)' % (A, B)
        f3 = '%s=(%s)' % (f1, f2)
        for f in (f1, f2):
            o = env.evo(f, vars=vars)
            if not is_int(o, want):
                return fail('%s with %s gives %r, expected %d' % (f, _show(vars), o, want), ['v', want], o,
                            case=case)
        o = env.evo(f3, vars=vars)
        if not is_true(o):
            return fail('%s with %s gives %r, expected TRUE' % (f3, _show(vars), o), ['v', True], o, case=case)
        return None


class CaseTrimClean(Sharded):
    name = 'c15.case_trim_clean'
    rule = ('every string of the space x UPPER/LOWER/PROPER/TRIM/CLEAN: value against the reference (case '
            'table, space splitting, code point < 32 filter), F(F(s)) has the outcome of F(s), and '
            '"F(F(s))=F(s)" gives TRUE; string as variable and as literal; non-trivial = the function has '
            'something to change in the string')
    min_cases = 100
    min_nontrivial = 1000
    min_classes = 10
    FNS = ('UPPER', 'LOWER', 'PROPER', 'TRIM', 'CLEAN')

    def all_cases(self, tier):
        for c in block_cases('A', 3 if tier == 'quick' else 4):
            yield c
        for c in block_cases('W', 5 if tier == 'quick' else 7):
            yield c
        for c in struct_cases():
            yield c

    def check(self, env, case):
        if case[0] == 'one':
            return self.one(env, case)
        coll = Coll()
        for s in block_strings(case):
            for mode in (('v', 'l') if can_lit(s) else ('v',)):
                for fn in self.FNS:
                    coll.add((fn, self.work(fn, s)), self.one(env, ['one', fn, s, mode]))
        return coll.out

    @staticmethod
    def work(fn, s):
        """Is there something for fn to do in s (non-triviality / class)?"""
        if fn == 'UPPER':
            return any(c in LOW2UP for c in s)
        if fn == 'LOWER':
            return any(c in UP2LOW for c in s)
        if fn == 'PROPER':
            return any(is_letter(c) for c in s)
        if fn == 'TRIM':
            return ref_trim(s) != s
        return ref_clean(s) != s

    def one(self, env, case):
        _, fn, s, mode = case
        S, _n, vars = bind(mode + 'l', s, [])
        w = self.work(fn, s)
        if w:
            env.nt()
        env.note('%s:%s' % (fn, 'changes' if w else 'fixpoint'))
        f1 = '%s(%s)' % (fn, S)
        o1 = env.evo(f1, vars=vars)
        if o1[0] != 'v' or not isinstance(o1[1], str):
            return fail('%s with %s gives %r, expected text' % (f1, _show(vars), o1), 'text', o1, case=case)
        r = o1[1]
        exp = None
        problem = None
        if fn == 'UPPER':
            exp = ref_upper(s)
        elif fn == 'LOWER':
            exp = ref_lower(s)
        elif fn == 'PROPER':
            problem = proper_problem(s, r)
        elif fn == 'TRIM':
            if DEMAND_TRIM_KEEPS_CONTROL_WHITESPACE or not any(c.isspace() and c != ' ' for c in s):
                exp = ref_trim(s)
        elif fn == 'CLEAN':
            exp = ref_clean(s).replace('\x7f', '')
            if r.replace('\x7f', '') != exp:
                problem = 'differs from the text without its code points < 32'
            exp = None
        if exp is not None and r != exp:
            return fail('%s with %s gives %r, expected %r' % (f1, _show(vars), r, exp), ['v', exp], o1, case=case)
        if problem:
            return fail('%s with %s gives %r: %s' % (f1, _show(vars), r, problem), problem, o1, case=case)
        f2 = '%s(%s(%s))' % (fn, fn, S)
        o2 = env.evo(f2, vars=vars)
        if o2 != o1:
            return fail('%s is not idempotent: %s gives %r but %s gives %r (%s)' % (fn, f2, o2, f1, o1, _show(vars)),
                        o1, o2, case=case)
        f3 = '%s=%s' % (f2, f1)
        o3 = env.evo(f3, vars=vars)
        if not is_true(o3):
            return fail('%s with %s gives %r, expected TRUE' % (f3, _show(vars), o3), ['v', True], o3, case=case)
        return None


class CaseSpecial(Sub):
    name = 'c15.case_special'
    rule = ('every letter below U+3000 whose upper-, lower- or title-case form is longer than one character or is not a fixed '
            'point of the same mapping (dotted capital I, the ligatures, sharp s ...; selected with the interpreter\'s own tables, '
            'which are not used as an oracle), embedded as "a"+c+"b", c+"a", "x "+c and alone: UPPER, LOWER and PROPER are '
            'idempotent - f(f(s)) = f(s) - and the result is text; non-trivial = all')
    min_cases = 20
    min_nontrivial = 20

    @staticmethod
    def letters():
        out = []
        for cp in range(0x80, 0x3000):
            c = chr(cp)
            if not c.isalpha():
                continue
            forms = (c.upper(), c.lower(), c.title())
            if any(len(f) > 1 for f in forms) or c.upper().upper() != c.upper() or c.lower().lower() != c.lower() or \
                    c.title().title() != c.title():
                out.append(c)
        return out

    def cases(self, tier, unit):
        for c in self.letters():
            yield [c]

    def check(self, env, case):
        c = case[0]
        env.nt()
        for s in ('a' + c + 'b', c + 'a', 'x ' + c, c):
            for fn in ('UPPER', 'LOWER', 'PROPER'):
                o1 = env.evo('%s(xs)' % fn, vars={'xs': s})
                o2 = env.evo('%s(%s(xs))' % (fn, fn), vars={'xs': s})
                if o1[0] != 'v' or not isinstance(o1[1], str):
                    return fail('%s(xs) with xs=%r gives %r, expected text' % (fn, s, o1), 'text', o1)
                if o2 != o1:
                    return fail('%s is not idempotent: %s(%s(xs)) gives %r but %s(xs) gives %r with xs = %r (U+%04X inside)' % (
                        fn, fn, fn, o2, fn, o1, s, ord(c)), o1, o2)
        return None


class CodeChar(Sharded):
    name = 'c15.code_char'
    rule = ('every n of the bound, as literal and (below 65536) as variable: CODE(CHAR(n)) gives n and (below '
            '65536) "CODE(CHAR(n))=n" gives TRUE; above 255 an error is accepted too; non-trivial = n >= 128')
    min_cases = 16
    min_nontrivial = 128
    min_classes = 2

    def all_cases(self, tier):
        if tier == 'quick':
            for lo in range(1, 256, 8):
                yield ['rng', lo, min(255, lo + 7)]
        else:
            for lo in range(1, 256, 15):
                yield ['rng', lo, min(255, lo + 14)]
            lo = 256
            while lo <= 0x10FFFF:
                hi = min(0x10FFFF, lo + 2047)
                if not (0xD800 <= lo <= 0xDFFF):
                    yield ['rng', lo, hi]
                lo = hi + 1

    def check(self, env, case):
        if case[0] == 'one':
            return self.one(env, case)
        _, lo, hi = case
        coll = Coll(6)
        for n in range(lo, hi + 1):
            for mode in (('l', 'v') if n < 65536 else ('l',)):
                coll.add(('n',), self.one(env, ['one', n, mode]))
        return coll.out

    def one(self, env, case):
        _, n, mode = case
        if mode == 'v':
            N, vars = 'xn', {'xn': n}
        else:
            N, vars = str(n), {}
        if n >= 128:
            env.nt()
        f = 'CODE(CHAR(%s))' % N
        o = env.evo(f, vars=vars)
        if n > 255 and o[0] == 'e':
            env.note('>255 rejected (accepted)')
            return None
        env.note('ascii' if n < 128 else 'latin1' if n < 256 else 'bmp' if n < 65536 else 'astral')
        if not is_int(o, n):
            return fail('%s with %s gives %r, expected %d' % (f, _show(vars), o, n), ['v', n], o, case=case)
        if n >= 65536:
            return None
        f = 'CODE(CHAR(%s))=%s' % (N, N)
        o = env.evo(f, vars=vars)
        if not is_true(o):
            return fail('%s with %s gives %r, expected TRUE' % (f, _show(vars), o), ['v', True], o, case=case)
        return None


# --------------------------------------------------------------------------
# CONCATENATE / TEXTJOIN

def compositions(n):
    """All ways to cut 0..n into consecutive non-empty groups -> lists of (lo, hi)."""
    for cuts in itertools.product((0, 1), repeat=n - 1):
        groups = []
        lo = 0
        for i, c in enumerate(cuts):
            if c:
                groups.append((lo, i + 1))
                lo = i + 1
        groups.append((lo, n))
        yield groups


def renderings(items):
    """Argument lists (lists of descriptors) whose flattening is `items`:
    ['s', x] scalar variable, ['L', x] scalar literal, ['h', nested list] host list variable,
    ['A', row] one-row literal array, ['A2', rows] literal array with rows."""
    n = len(items)
    seen = set()
    out = []

    def push(args):
        k = repr(args)
        if k not in seen:
            seen.add(k)
            out.append(args)

    for groups in compositions(n):
        a1, a2 = [], []
        for lo, hi in groups:
            g = items[lo:hi]
            if len(g) == 1:
                a1.append(['s', g[0]])
                a2.append(['h', [g[0]]])
            else:
                a1.append(['h', list(g)])
                a2.append(['h', [g[0], list(g[1:])]] if len(g) == 2 else ['h', [g[0], [g[1], list(g[2:])]]])
        push(a1)
        push(a2)
    if n >= 2:
        h = n // 2
        push([['h', [list(items[:h]), list(items[h:])]]])
        push([['h', [[x] for x in items]]])
    if all(x is not None for x in items):
        push([['L', x] for x in items])
    adjacent_blanks = any(items[i] is None and items[i + 1] is None for i in range(n - 1))
    if items[0] is not None and items[-1] is not None and not adjacent_blanks:
        push([['A', list(items)]])
        if n >= 2:
            push([['L', items[0]], ['A', list(items[1:])]] if items[1] is not None else [['A', list(items)]])
        if n in (2, 4) and all(x is not None for x in items):
            h = n // 2
            push([['A2', [list(items[:h]), list(items[h:])]]])
    return out


ARGNAMES = ('va', 'vb', 'vc', 'vd', 've', 'vf')


def render_args(args):
    """-> (list of formula fragments, vars)"""
    frags = []
    vars = {}
    for i, (kind, v) in enumerate(args):
        if kind in ('s', 'h'):
            frags.append(ARGNAMES[i])
            vars[ARGNAMES[i]] = v
        elif kind == 'L':
            frags.append(lit(v))
        elif kind == 'A':
            frags.append('{' + ','.join('' if x is None else lit(x) for x in v) + '}')
        elif kind == 'A2':
            frags.append('{' + ';'.join(','.join('' if x is None else lit(x) for x in row) for row in v) + '}')
        else:
            raise ValueError(kind)
    return frags, vars


class Join(Sharded):
    name = 'c15.join'
    rule = ('every item list of the bound over text items, a whole number and blanks x every regrouping into scalar '
            'arguments, host lists, nested host lists and literal arrays: CONCATENATE and TEXTJOIN x 3 '
            'delimiters x ignore TRUE/FALSE (delimiter/flag as literals and as variables) against a '
            'flatten-and-join reference; non-trivial = the list contains a blank or an argument is an array')
    min_cases = 100
    min_nontrivial = 1000
    min_classes = 6
    DELIMS = ('', ',', ', ')

    def all_cases(self, tier):
        pool = ['a', 'b c', None, ',', 7, 0]      # 7: an item that is a whole number joins as its digits (as under &); 0: an item, no blank
        top = 3 if tier == 'quick' else 5
        for n in range(1, top + 1):
            for items in itertools.product(pool, repeat=n):
                yield ['list', list(items)]
        if tier == 'quick':
            for items in itertools.product(pool[:3], repeat=4):
                yield ['list', list(items)]

    def check(self, env, case):
        if case[0] == 'one':
            return self.one(env, case)
        items = case[1]
        coll = Coll()
        blank = any(x is None for x in items)
        for args in renderings(items):
            comma = ',' in items or 7 in items or 0 in items
            coll.add(('C', blank, comma), self.one(env, ['one', 'CONCATENATE', args, None, None, 'l']))
            for d in self.DELIMS:
                for ig in (True, False):
                    for dm in ('l', 'v'):
                        coll.add(('T', blank, comma, ig),
                                 self.one(env, ['one', 'TEXTJOIN', args, d, ig, dm]))
        return coll.out

    def one(self, env, case):
        _, fn, args, delim, ignore, dmode = case
        flat = []
        for kind, v in args:
            flatten(v, flat)
        frags, vars = render_args(args)
        blank = any(x is None for x in flat)
        if blank or any(a[0] in ('h', 'A', 'A2') for a in args):
            env.nt()
        if fn == 'CONCATENATE':
            exp = ''.join('' if x is None else str(x) for x in flat)
            formula = 'CONCATENATE(%s)' % ','.join(frags)
            env.note('CONCATENATE:%s' % ('blank' if blank else 'text'))
        else:
            if ignore:
                exp = delim.join(str(x) for x in flat if x is not None)
            else:
                exp = delim.join('' if x is None else str(x) for x in flat)
            if dmode == 'v':
                vars['dl'] = delim
                vars['ig'] = ignore
                head = 'dl,ig'
            else:
                head = '%s,%s' % (lit(delim), 'TRUE' if ignore else 'FALSE')
            formula = 'TEXTJOIN(%s,%s)' % (head, ','.join(frags))
            env.note('TEXTJOIN:%s:%s' % ('skip' if ignore else 'keep', 'blank' if blank else 'text'))
        o = env.evo(formula, vars=vars)
        if not is_text(o, exp):
            return fail('%s with %s gives %r, expected %r' % (formula, _show(vars), o, exp), ['v', exp], o,
                        case=case)
        return None


# --------------------------------------------------------------------------

class Substitute(Sharded):
    name = 'c15.substitute'
    rule = ('every text of the bound over {a,b,space} x old in {a,b,ab,ba,space} x new in {"",x,ab,a} x '
            'k in {omitted,1,2,3,5} (+ structured texts x their characters / two-character substrings), all '
            'arguments as variables and as literals, against a left-to-right occurrence scan; non-trivial = '
            'old occurs in the text')
    min_cases = 100
    min_nontrivial = 1000
    min_classes = 8
    OLDS = ('a', 'b', 'ab', 'ba', ' ')
    NEWS = ('', 'x', 'ab', 'a')
    KS = (None, 1, 2, 3, 5)

    def all_cases(self, tier):
        top = 4 if tier == 'quick' else 7
        for n in range(0, top + 1):
            for t in itertools.product('ab ', repeat=n):
                yield ['t', ''.join(t)]
        for c in struct_cases():
            yield c
        # texts / old texts / new texts made of characters that are special to regular expressions and to
        # replacement templates (an implementation going through re.sub must escape both)
        for n in range(1, (3 if tier == 'quick' else 4) + 1):
            for t in itertools.product('a.*\\', repeat=n):
                yield ['m', ''.join(t)]

    MOLDS = ('.', '*', 'a', '\\', '.*', 'a.')
    MNEWS = ('', 'x', '\\n', '\\1', '\\', '&', '\\g<0>', '$1')

    def check(self, env, case):
        if case[0] == 'one':
            return self.one(env, case)
        coll = Coll()
        if case[0] == 't':
            text = case[1]
            olds, news, ks = self.OLDS, self.NEWS, self.KS
        elif case[0] == 'm':
            text = case[1]
            olds, news, ks = self.MOLDS, self.MNEWS, (None, 1, 2)
        else:
            text = STRUCT[case[1]]
            olds = []
            for c in text:
                if c not in olds:
                    olds.append(c)
            for i in range(len(text) - 1):
                p = text[i:i + 2]
                if p[0] != p[1] and p not in olds:
                    olds.append(p)
            olds = olds[:24]
            news, ks = ('', u'漢', 'xy', ','), (None, 1, 2)
        for old in olds:
            for new in news:
                for k in ks:
                    for mode in ('v', 'l'):
                        if mode == 'l' and not (can_lit(text) and can_lit(old) and can_lit(new)):
                            continue
                        coll.add((new == '', ',' in (old, new), k is None),
                                 self.one(env, ['one', text, old, new, k, mode]))
        return coll.out

    def one(self, env, case):
        _, text, old, new, k, mode = case
        exp, hits = ref_substitute(text, old, new, k)
        # hits: occurrences replaced (all, or 1 for the k-th) / 0
        occurs = ref_substitute(text, old, new, None)[1]
        if occurs:
            env.nt()
        if not occurs:
            cls = 'no occurrence'
        elif k is None:
            cls = 'all'
        elif k <= occurs:
            cls = 'k-th'
        else:
            cls = 'k beyond'
        env.note('%s:%s' % (cls, 'delete' if new == '' else 'replace'))
        if mode == 'v':
            vars = {'xs': text, 'xo': old, 'xw': new}
            a = ['xs', 'xo', 'xw']
            if k is not None:
                vars['xk'] = k
                a.append('xk')
        else:
            vars = {}
            a = [lit(text), lit(old), lit(new)]
            if k is not None:
                a.append(lit(k))
        formula = 'SUBSTITUTE(%s)' % ','.join(a)
        o = env.evo(formula, vars=vars)
        if not is_text(o, exp):
            return fail('%s with %s gives %r, expected %r' % (formula, _show(vars), o, exp), ['v', exp], o,
                        case=case)
        return None


class TextWholeFloats(WholeFloats):
    name = 'c15.whole_floats'
    TEMPLATES = [
        ('LEFT("abcdef",{0})', [(0,), (2,), (6,), (9,)]),
        ('RIGHT("abcdef",{0})', [(0,), (2,), (6,), (9,)]),
        ('MID("abcdef",{0},{1})', [(1, 2), (3, 0), (6, 4), (7, 1)]),
        ('CODE(CHAR({0}))', [(65,), (255,), (32,)]),
        ('SUBSTITUTE("aXbXc","X","-",{0})', [(1,), (2,), (3,)]),
        ('LEFT("abc",{0})&RIGHT("abc",LEN("abc")-{0})', [(0,), (1,), (3,)]),
        ('TEXTJOIN(",",{0},"a",,"b")', [(1,), (0,)]),
    ]


class ArgumentKinds(Sub):
    name = 'c15.argument_kinds'
    rule = ('what the other text functions and & take as text, every text function takes: a one-cell range ([[v]]) or one-item array '
            'in the place of a text, a count, an instance number or a delimiter is its item (differential against the bare value); a '
            'whole number in the place of a text is its digits whether it arrives as an integer or as a whole float (UPPER(10/2) is '
            '"5" as LEN(10/2) is 1) - for 17 call forms x 6 texts / 4 numbers; SUBSTITUTE with numbers as old / new text; a blank '
            'text under LEFT / RIGHT / MID is the empty text; non-trivial = all')
    min_cases = 50
    min_nontrivial = 50
    FORMS = ['LEN({0})', 'UPPER({0})', 'LOWER({0})', 'PROPER({0})', 'TRIM({0})', 'CLEAN({0})', 'LEFT({0},2)', 'RIGHT({0},2)', 'MID({0},2,2)',
             'SUBSTITUTE({0},"l","L")', 'SUBSTITUTE({0},"l","L",2)', 'CODE({0})', 'LEFT("hello",{1})', 'MID("hello",{1},{1})',
             'SUBSTITUTE("hello","l","L",{1})', 'TEXTJOIN({2},TRUE,"a","b")', 'CODE(CHAR({3}))']
    TEXTS = ['hello', 'a b', 'x', 'Hello World', 'll', '12']

    def cases(self, tier, unit):
        for fi in range(len(self.FORMS)):
            for ti in range(len(self.TEXTS)):
                yield ['cell', fi, ti]
        for fi in range(12):
            for n in (5, 120, 0, 12345):
                yield ['num', fi, n]
        yield ['misc', 0, 0]

    def check(self, env, case):
        kind, fi, x = case
        env.nt()
        if kind == 'cell':
            t = self.TEXTS[x]
            f = self.FORMS[fi].format('xa', 'xn', 'xd', 'xc')
            bare = {'xa': t, 'xn': 2, 'xd': ',', 'xc': 65}
            base = env.evo(f, vars=bare)
            for how, wrap in (('a one-cell range', lambda v: [[v]]), ('a one-item array', lambda v: [v])):
                o = env.evo(f, vars=dict((k, wrap(v)) for k, v in bare.items()))
                if o != base:
                    return fail('%s with every argument %s %r gives %r, with the bare values %r it gives %r' % (
                        f, how, dict((k, wrap(v)) for k, v in bare.items()), o, bare, base), base, o)
            return None
        if kind == 'num':
            f = self.FORMS[fi].format('xa')
            a = env.evo(f, vars={'xa': x})
            b = env.evo(f, vars={'xa': float(x)})
            c = env.evo(f, vars={'xa': str(x)})
            if a != b:
                return fail('%s with xa = %r gives %r, with xa = %r (the same whole number as a float) it gives %r' % (f, x, a, float(x), b), a, b)
            if fi < 11 and a != c and not (self.FORMS[fi].startswith('TRIM') and a == ['v', x]):      # TRIM may hand a number on as it is
                return fail('%s with the whole number xa = %r gives %r, with its digits as text %r it gives %r' % (f, x, a, str(x), c), c, a)
            return None
        for f, want in (('SUBSTITUTE("a1a","1",2)', 'a2a'), ('SUBSTITUTE("a1a",1,"x")', 'axa'), ('SUBSTITUTE(12345,"3","x")', '12x45'),
                        ('LEFT(xb,1)', ''), ('RIGHT(xb,2)', ''), ('MID(xb,1,1)', ''), ('LEFT(xb,0)&RIGHT(xb,LEN(xb)-0)=xb&""', True),
                        ('LEFT(12345,2)&RIGHT(12345,LEN(12345)-2)', '12345'), ('MID(12345,1,2)', '12'), ('LEN(UPPER(10/2))=LEN(10/2)', True)):
            o = env.evo(f, vars={'xb': None})
            if o != ['v', want]:
                return fail('%s%s gives %r, expected %r' % (f, ' with xb blank' if 'xb' in f else '', o, want), ['v', want], o)
        # a blank delimiter is the empty text like every other blank text argument; an error value given as the delimiter or as the
        # skip-blanks flag is the result (nobody asked to skip blanks: an error is not an answer to that question)
        for f, want in (('TEXTJOIN(xb,TRUE,"a","b")', ['v', 'ab']), ('TEXTJOIN(,FALSE,"a","b")', ['v', 'ab']), ('TEXTJOIN(xr,TRUE,"a","b")', ['v', 'ab']),
                        ('TEXTJOIN(",",1/0,"a",,"b")', ['e', '#DIV/0!']), ('TEXTJOIN(",",xe,"a",,"b")', ['e', '#N/A']),
                        ('TEXTJOIN(1/0,TRUE,"a","b")', ['e', '#DIV/0!']), ('TEXTJOIN(xe,FALSE,"a","b")', ['e', '#N/A'])):
            o = env.evo(f, vars={'xb': None, 'xr': [[None]], 'xe': [[env.err.XLError('#N/A')]]})
            if o != want:
                return fail('%s (xb blank, xr a one-cell range holding a blank, xe a one-cell range holding #N/A) gives %r, expected %r' % (f, o, want), want, o)
        return None


NEEDS_ZYGOTE = True


class TextSiblings(Siblings):
    name = 'c15.siblings'
    GROUPS = [
        (['LEFT({0},{1})', 'RIGHT({0},{1})', 'MID({0},1,{1})', 'MID({0},{1},{1})', 'MID({0},{1},1)', 'LEFT({0})', 'RIGHT({0})',
          'UPPER({0})', 'LOWER({0})', 'PROPER({0})', 'TRIM({0})', 'CLEAN({0})', 'LEN({0})', 'CODE({0})',
          'CONCATENATE({0},{1})', 'TEXTJOIN({0},TRUE,{1},{0})', 'TEXTJOIN({0},FALSE,{1},{0})', 'SUBSTITUTE({0},"a",{1})',
          'SUBSTITUTE({0},"a","x",{1})', 'LEFT({0},{1})&RIGHT({0},LEN({0})-{1})'],
         [('abcab', 2), (' a  b ', 3), ('Ab', 0), ('abcab', 1), ('aaaa', 2), ('', 1), ('ab', 5), ('hello world', 5)]),
        (['CHAR({0})', 'CODE(CHAR({0}))', 'LEFT("abcdef",{0})', 'RIGHT("abcdef",{0})', 'MID("abcdef",{0},2)',
          'MID("abcdef",2,{0})', 'SUBSTITUTE("abcabc","b","-",{0})', 'LEN(CHAR({0}))'],
         [(65,), (97,), (200,), (1,), (2,), (3,), (32,), (255,)]),
    ]



class TextScale(Sub):
    name = 'c15.scale'
    rule = ('size ladder (1..13, then around 16, 32, 64, 100, 128, 256, 512, 1000, 1024 [2048, 4096]) of the text length / '
            'item count n: LEN, LEFT/RIGHT/MID at the far end, LEFT&RIGHT = s, UPPER(LOWER), TRIM of a run of n spaces, '
            'SUBSTITUTE of every / the last / the k-th occurrence, CONCATENATE and TEXTJOIN of n items (host list, and n <= 257 '
            'literal arguments), LEN(a&b); against Python string operations; non-trivial = all')
    min_cases = 40
    min_nontrivial = 40

    def cases(self, tier, unit):
        for n in scale(tier):
            yield [n]

    def check(self, env, case):
        n = case[0]
        s = ''.join('abcdefghij'[i % 10] for i in range(n))
        env.nt()
        items = ['i%d' % i for i in range(n)]
        na = s.count('a')
        probes = [('LEN(xs)', n), ('LEFT(xs,%d)' % n, s), ('LEFT(xs,%d)' % (n - 1), s[:n - 1]), ('RIGHT(xs,%d)' % n, s),
                  ('RIGHT(xs,1)', s[-1:]), ('MID(xs,%d,1)' % n, s[-1:]), ('MID(xs,1,%d)' % n, s), ('MID(xs,%d,5)' % (n + 1), ''),
                  ('LEFT(xs,%d)&RIGHT(xs,1)' % (n - 1), s), ('UPPER(xs)', s.upper()), ('LOWER(UPPER(xs))', s),
                  ('PROPER(xs)', s[:1].upper() + s[1:]), ('TRIM(xs&xsp&xs)', s + ' ' + s), ('LEN(TRIM(xsp))', 0),
                  ('LEN(CLEAN(xs))', n), ('SUBSTITUTE(xs,"a","")', s.replace('a', '')), ('LEN(SUBSTITUTE(xs,"a","xyz"))', n + 2 * na),
                  ('LEN(xs&xs)', 2 * n), ('LEN(CONCATENATE(xs,xs,"q"))', 2 * n + 1), ('CONCATENATE(xl)', ''.join(items)),
                  ('TEXTJOIN(",",TRUE,xl)', ','.join(items)), ('LEN(TEXTJOIN("",FALSE,xl,xs))', len(''.join(items)) + n),
                  ('CODE(RIGHT(xs,1))', ord(s[-1])), ('xs=xs&""', True)]
        if na:
            last = s.rfind('a')
            probes += [('SUBSTITUTE(xs,"a","Z",%d)' % na, s[:last] + 'Z' + s[last + 1:]), ('SUBSTITUTE(xs,"a","Z",%d)' % (na + 1), s)]
        # n blank items and then one that is not (a sparsely filled column): nothing after the blanks may get lost
        probes += [('CONCATENATE(xb)', 'x'), ('TEXTJOIN(",",TRUE,xb)', 'x'), ('TEXTJOIN(",",FALSE,xb)', ',' * n + 'x'),
                   ('CONCATENATE("h",xb,xb)', 'hxx'), ('TEXTJOIN("-",TRUE,"h",xb,"t")', 'h-x-t'), ('LEN(CONCATENATE(xb,xl,xb))', len(''.join(items)) + 2)]
        if n <= 257:
            probes += [('CONCATENATE(%s)' % ','.join('"%s"' % x for x in items), ''.join(items)),
                       ('TEXTJOIN("-",TRUE,%s)' % ','.join('"%s"' % x for x in items), '-'.join(items))]
        out = []
        vars_ = {'xs': s, 'xsp': ' ' * n, 'xl': items, 'xb': [None] * n + ['x']}
        for f, want in probes:
            o = env.evo(f, vars_)
            if o != ['v', want]:
                out.append(fail('%s with xs = a text of %d characters (abcdefghij repeated), xsp = %d spaces, xl = %d items gives %s, '
                                'expected %s' % (f if len(f) < 120 else f[:117] + '...', n, n, n, repr(o)[:100], repr(want)[:100]),
                                repr(want)[:300], repr(o)[:300]))
                if len(out) >= 3:
                    break
        return out


SUBS = [Slices(), SliceLaws(), LenConcat(), CaseTrimClean(), CaseSpecial(), CodeChar(), Join(), Substitute(), TextWholeFloats(), ArgumentKinds(), TextSiblings(), TextScale()]
