# -*- coding: utf-8 -*-
"""C08 - error values propagate through operators and can be trapped (K3).

Space: error-producing subexpressions (by operator, by a function returning an error, by a
function raising one, host-supplied error values, error literals) x every operator context
(left / right / both, unary minus, two nesting levels) x every observer (top level, ISERROR,
ISERR, ISNA, IFERROR, IFNA, ERROR.TYPE, an aggregate under IFERROR).
Oracle: the reference error algebra of the statement (operators strict, left operand wins,
literal aborts the formula, traps see every error value)."""
import itertools

from ..core import Sub, fail, CANON_CODES, scale

ETYPE = {'#NULL!': 1, '#DIV/0!': 2, '#VALUE!': 3, '#REF!': 4, '#NAME?': 5, '#NUM!': 6, '#N/A': 7,
         '#GETTING_DATA': 8}
CODES8 = sorted(ETYPE, key=lambda c: ETYPE[c])
ARITH = ('+', '-', '*', '/')
CMPS = ('=', '<>', '<', '>', '<=', '>=')
OPS = ARITH + ('&',) + CMPS

# delivery-channel and host-type differential (core.Env): of every 3 evaluations that bind variables, one is repeated with the
# values handed in by the cell/range listeners, one with the values returned by custom functions and one with every value an
# instance of a trivial subclass of its type (numpy.float64, IntEnum, rich-text str ... are such); outcomes must agree
CHANNELS = 3

BOUNDS = {
    'quick': '72 error producers (incl. fresh error objects returned by a custom function or supplied as variable / cell value) (3 operator-made, 4 returned by built-ins, 3 raised by built-ins, 8 raised + 8 returned '
             'by a custom function, 8 raised as fresh error objects, 8 host variables, 8 host cells; 7 literals separately) x 11 operators x '
             '{left,right} + unary minus + 8 two-level contexts, x 8 observers; all ordered pairs of 8 codes x 11 operators '
             'for the left-wins rule; non-error controls',
    'thorough': 'same space plus three-level contexts and both-sides pairs over all producer kinds',
}
ASSUMPTIONS = ['which code a Python exception inside a function maps to is not demanded (any canonical code); it must be '
               'an error value the trap functions see',
               'undefined variables are not operators or function calls: trapping them is not demanded',
               'ERROR.TYPE of #ERROR! is not documented and not checked']


def producers(env):
    """-> list of dict(text, code|None, kind) ; bindings are global (see BIND)"""
    P = []
    P.append(dict(text='1/0', code='#DIV/0!', kind='operator'))
    P.append(dict(text='"a"+1', code='#VALUE!', kind='operator'))
    P.append(dict(text='1-DATE(2019,1,1)', code='#NUM!', kind='operator'))
    P.append(dict(text='NA()', code='#N/A', kind='fn-returns'))
    P.append(dict(text='CHOOSE(9,1)', code='#VALUE!', kind='fn-returns'))
    P.append(dict(text='INDEX({1,2},5)', code='#REF!', kind='fn-returns'))
    P.append(dict(text='DATEDIF(2,1,"d")', code='#NUM!', kind='fn-returns'))
    P.append(dict(text='SUM(1/0)', code='#DIV/0!', kind='fn-raises'))
    P.append(dict(text='MAX(NA(),1)', code='#N/A', kind='fn-raises'))
    P.append(dict(text='SQRT(0-1)', code=None, kind='fn-raises-python'))
    # operators that fail below the level of error values (a Python exception inside the operator) still produce an
    # error VALUE: trappable, propagating, whatever its code
    P.append(dict(text='-"abc"', code=None, kind='operator-python'))
    P.append(dict(text='DATE(9999,12,31)*2', code=None, kind='operator-python'))
    P.append(dict(text='DATE(9999,12,31)+DATE(9999,12,31)*400', code=None, kind='operator-python'))
    # ... the same for a comparison that cannot be made (an array or a complex number against a scalar)
    P.append(dict(text='{1,2}<1', code=None, kind='operator-python'))
    P.append(dict(text='{1,2}>=2', code=None, kind='operator-python'))
    P.append(dict(text='COMPLEX(1,2)<1', code=None, kind='operator-python'))
    # an operator given operands it cannot combine (a complex number with a date): an error VALUE, whatever its code
    P.append(dict(text='(DATE(2020,1,1)+COMPLEX(1,2))', code=None, kind='operator-python'))
    P.append(dict(text='(COMPLEX(1,2)*"1/2/2020")', code=None, kind='operator-python'))
    P.append(dict(text='(DATE(2020,1,1)-COMPLEX(1,2))', code=None, kind='operator-python'))
    # an error inside a one-item array or one-cell range under a comparison is that error (the array is its item)
    P.append(dict(text='({1/0}=1)', code='#DIV/0!', kind='operator-python'))
    P.append(dict(text='({NA()}<2)', code='#N/A', kind='operator-python'))
    # ... at any depth
    P.append(dict(text='(' + '{' * 9 + '1/0' + '}' * 9 + '=1)', code='#DIV/0!', kind='operator-python'))
    P.append(dict(text='(' + '{' * 12 + 'NA()' + '}' * 12 + '+1)', code='#N/A', kind='operator-python'))
    P.append(dict(text='{' * 40 + '1/0' + '}' * 40, code='#DIV/0!', kind='operator-python'))
    # a percent literal beyond the largest number: an error value like the quotient it is (not an abort of the formula)
    P.append(dict(text='(1' + '0' * 311 + '%)', code=None, kind='operator-python'))
    for i, c in enumerate(CODES8):
        P.append(dict(text='FRAISE(%d)' % i, code=c, kind='custom-raises'))
        P.append(dict(text='FRET(%d)' % i, code=c, kind='custom-returns'))
        P.append(dict(text='ev%s' % 'abcdefgh'[i], code=c, kind='host-variable'))
        P.append(dict(text='$E$%d' % (i + 1), code=c, kind='host-cell'))
    for i, c in enumerate(CODES8):
        # a custom function raising an error object OF ITS OWN MAKING (same code, not the library's shared object)
        P.append(dict(text='FRAISEF(%d)' % i, code=c, kind='custom-raises-fresh'))
    for i, c in enumerate(CODES8):
        # ... or RETURNING one, or the host handing one in as a variable / cell value
        P.append(dict(text='FRETF(%d)' % i, code=c, kind='custom-returns-fresh'))
        P.append(dict(text='fv%s' % 'abcdefgh'[i], code=c, kind='host-variable-fresh'))
        P.append(dict(text='$F$%d' % (i + 1), code=c, kind='host-cell-fresh'))
    for i, c in enumerate(CODES8):
        # ... a name answered by the callVariable LISTENER with a host-made error, and a host-made error sitting inside a host
        # list that a built-in hands on unchanged (INDEX picks it, CHOOSE / IF / IFERROR return it)
        P.append(dict(text='lv%s' % 'abcdefgh'[i], code=c, kind='listener-variable-fresh'))
        P.append(dict(text='INDEX(xerrs,%d)' % (i + 1), code=c, kind='picked-from-host-list'))
    for i, c in enumerate(CODES8):
        # an error inside a one-item list, a one-cell range, three lists deep (shared object / of the host's own making): the
        # one value such an operand is - under every operator, on either side, whatever the other operand
        P.append(dict(text='ow%s' % 'abcdefgh'[i], code=c, kind='one-item-list'))
        P.append(dict(text='oc%s' % 'abcdefgh'[i], code=c, kind='one-cell-fresh'))
        P.append(dict(text='od%s' % 'abcdefgh'[i], code=c, kind='nested3-fresh'))
    for i, c in enumerate(CODES8):
        # a host function answering with a row as a database driver hands it over: a one-item tuple (of a one-item tuple) holding the error
        P.append(dict(text='FRETT(%d)' % i, code=c, kind='custom-returns-tuple'))
        P.append(dict(text='FRETTT(%d)' % i, code=c, kind='custom-returns-tuple'))
    P.append(dict(text='CHOOSE(2,1,INDEX(xerrs,7))', code='#N/A', kind='picked-from-host-list'))
    P.append(dict(text='IF(TRUE,INDEX(xerrs,7),1)', code='#N/A', kind='picked-from-host-list'))
    P.append(dict(text='IFERROR(1/0,INDEX(xerrs,7))', code='#N/A', kind='picked-from-host-list'))
    P.append(dict(text='INDEX(xgrid,2,1)', code='#N/A', kind='picked-from-host-list'))
    return P


NPRODUCERS = 147


LITERALS = ['#NULL!', '#DIV/0!', '#VALUE!', '#REF!', '#NAME?', '#NUM!', '#N/A', '#ERROR!', '#GETTING_DATA']


def bind(env):
    errs = [env.dec({'$err': c}) for c in CODES8]

    def fraise(i):
        raise errs[int(i)]

    def fret(i):
        return errs[int(i)]

    def fraisef(i):
        raise env.err.XLError(CODES8[int(i)])

    def fretf(i):
        return env.err.XLError(CODES8[int(i)])
    def frett(i):
        return (errs[int(i)],)

    def frettt(i):
        return ((env.err.XLError(CODES8[int(i)]),),)
    vars = dict(('ev%s' % 'abcdefgh'[i], errs[i]) for i in range(8))
    vars['vok'] = 5
    vars['vblank'] = None
    vars['vtext'] = 'some text'
    cells = dict(('$E$%d' % (i + 1), errs[i]) for i in range(8))
    cells.update(dict(('E%d' % (i + 1), errs[i]) for i in range(8)))
    for i in range(8):
        vars['fv%s' % 'abcdefgh'[i]] = env.err.XLError(CODES8[i])
        cells['$F$%d' % (i + 1)] = env.err.XLError(CODES8[i])
    for i in range(8):
        vars['ow%s' % 'abcdefgh'[i]] = [errs[i]]
        vars['oc%s' % 'abcdefgh'[i]] = [[env.err.XLError(CODES8[i])]]
        vars['od%s' % 'abcdefgh'[i]] = [[[env.err.XLError(CODES8[i])]]]
    vars['vempty'] = []
    vars['xerrs'] = [env.err.XLError(c) for c in CODES8]
    vars['xgrid'] = [[1, 2], [env.err.XLError('#N/A'), 4]]
    for i in range(8):
        cells['var:lv%s' % 'abcdefgh'[i]] = env.err.XLError(CODES8[i])
    return vars, {'FRAISE': fraise, 'FRET': fret, 'FRAISEF': fraisef, 'FRETF': fretf, 'FRETT': frett, 'FRETTT': frettt}, cells


OTHERS = ['"abc"', '""', '"5"', 'TRUE', 'vblank', '0.5', '{1,2}', '"2020-01-31"', 'SUM(1,2)', '("a"&"b")', 'vtext', 'vempty']


def benign(op):
    return '"a"' if op == '&' else '3'


def contexts(tier):
    """-> list of (name, template with {x}) ; x is always parenthesised by the caller"""
    C = [('bare', '{x}')]
    for op in OPS:
        C.append(('L%s' % op, '{x}%s%s' % (op, benign(op))))
        C.append(('R%s' % op, '%s%s{x}' % (benign(op), op)))
    # the OTHER operand must not matter: text that is no number, empty text, numeric text, a logical, a blank, a float,
    # an array, date text, a function call - whether it would be acceptable to the operator on its own or not
    for k, other in enumerate(OTHERS):
        for op in OPS:
            C.append(('L%s~%d' % (op, k), '{x}%s%s' % (op, other)))
            C.append(('R%s~%d' % (op, k), '%s%s{x}' % (other, op)))
    C.append(('neg', '-{x}'))
    C.append(('negneg', '--{x}'))
    C += [('n2a', '({x}+1)*2'), ('n2b', '2*(1+{x})'), ('n2c', '-({x}+1)'), ('n2d', '({x}=1)+1'),
          ('n2e', '({x}&"a")&"b"'), ('n2f', '(1<{x})&"z"'), ('n2g', '1-(-{x})'), ('n2h', '(2/{x})>=1')]
    if tier == 'thorough':
        C += [('n3a', '(({x}-1)/2)<>4'), ('n3b', '"p"&((1+{x})*2)'), ('n3c', '-(-(-{x}))'), ('n3d', '((3>{x})=TRUE)&"q"'),
              ('n3e', 'SUM(1,2)+({x}*SUM(3,4))'), ('n3f', '(ABS(0-1)/{x})-vok')]
    return C


OBSERVERS = ('top', 'ISERROR', 'ISERR', 'ISNA', 'IFERROR', 'IFNA', 'ERROR.TYPE', 'AGG')


def observe(env, expr, code, B):
    """evaluate every observer around `expr`, which the reference algebra says is an error with `code`
    (None = some error).  -> failure message or None"""
    vars, funcs, cells = B
    ev = lambda f: env.evo(f, vars=vars, funcs=funcs, cells=cells)
    out = ev(expr)
    if out[0] != 'e' or out[1] not in CANON_CODES or (code is not None and out[1] != code):
        return '%r: expected error %s at the top level, got %r' % (expr, code or '(any code)', out)
    got_code = out[1]
    r_iserror = ev('ISERROR(%s)' % expr)
    if r_iserror != ['v', True]:
        return 'ISERROR(%s) = %r, expected TRUE (the argument is the error %s)' % (expr, r_iserror, got_code)
    r_iserr = ev('ISERR(%s)' % expr)
    r_isna = ev('ISNA(%s)' % expr)
    if r_iserr[0] != 'v' or r_isna[0] != 'v' or not isinstance(r_iserr[1], bool) or not isinstance(r_isna[1], bool) \
            or (r_iserr[1] or r_isna[1]) is not True:
        return 'ISERROR = ISERR or ISNA violated for %s: ISERR=%r ISNA=%r ISERROR=TRUE' % (expr, r_iserr, r_isna)
    if code is not None:
        if r_isna[1] != (code == '#N/A') or r_iserr[1] != (code != '#N/A'):
            return 'for %s (= %s): ISERR=%r ISNA=%r' % (expr, code, r_iserr, r_isna)
    r = ev('IFERROR(%s,"trap")' % expr)
    if r != ['v', 'trap']:
        return 'IFERROR(%s,"trap") = %r, expected "trap" (the argument is the error %s)' % (expr, r, got_code)
    r = ev('IFNA(%s,"trap")' % expr)
    if got_code == '#N/A':
        if r != ['v', 'trap']:
            return 'IFNA(%s,"trap") = %r, expected "trap"' % (expr, r)
    elif r != ['e', got_code]:
        return 'IFNA(%s,"trap") = %r, expected the error %s to pass through' % (expr, r, got_code)
    if got_code in ETYPE:
        r = ev('ERROR.TYPE(%s)' % expr)
        if r != ['v', ETYPE[got_code]]:
            return 'ERROR.TYPE(%s) = %r, expected %d for %s' % (expr, r, ETYPE[got_code], got_code)
    r = ev('IFERROR(SUM(1,%s),"trap")' % expr)
    if r != ['v', 'trap']:
        return 'IFERROR(SUM(1,%s),"trap") = %r, expected "trap"' % (expr, r)
    r = ev('ISERROR(MAX(%s,2))' % expr)
    if r != ['v', True]:
        return 'ISERROR(MAX(%s,2)) = %r, expected TRUE' % (expr, r)
    return None


class Propagate(Sub):
    name = 'c08.propagate'
    rule = ('producer x context: the context expression is strict in its error operand, so it is that error; checked at '
            'the top level and under 8 observers; non-trivial = context other than bare')
    min_cases = 500
    min_nontrivial = 400
    min_classes = 5

    def cases(self, tier, unit):
        for pi in range(NPRODUCERS):
            for ci, (cname, _) in enumerate(contexts(tier)):
                yield [pi, cname]

    def check(self, env, case):
        pi, cname = case
        P = producers(env)
        prod = P[pi]
        tmpl = dict(contexts('thorough'))[cname]
        expr = tmpl.replace('{x}', '(%s)' % prod['text'])
        env.note(prod['kind'])
        if cname != 'bare':
            env.nt()
        msg = observe(env, expr, prod['code'], bind(env))
        if msg:
            return fail(msg, prod['code'] or 'an error', None)
        return None


class LeftWins(Sub):
    name = 'c08.left_wins'
    rule = ('ordered pairs of producers with different codes under each of the 11 operators: the result is the left '
            'error; non-trivial = every pair')
    min_cases = 500
    min_nontrivial = 500

    def kinds(self, tier):
        return ('host-variable', 'custom-returns', 'one-cell-fresh') if tier == 'quick' else \
            ('host-variable', 'custom-returns', 'custom-raises', 'host-cell', 'one-item-list', 'one-cell-fresh', 'nested3-fresh')

    def cases(self, tier, unit):
        for lk in self.kinds(tier):
            for rk in self.kinds(tier):
                for i in range(8):
                    for j in range(8):
                        if i != j:
                            for op in OPS:
                                yield [lk, rk, i, j, op]

    def check(self, env, case):
        lk, rk, i, j, op = case
        P = producers(env)
        l = [p for p in P if p['kind'] == lk][i]
        r = [p for p in P if p['kind'] == rk][j]
        env.nt()
        env.note(op)
        expr = '(%s)%s(%s)' % (l['text'], op, r['text'])
        vars, funcs, cells = bind(env)
        out = env.evo(expr, vars=vars, funcs=funcs, cells=cells)
        if out != ['e', l['code']]:
            return fail('%r: left operand is %s, right operand is %s, expected the left error, got %r' % (
                expr, l['code'], r['code'], out), l['code'], out)
        out = env.evo('ERROR.TYPE(%s)' % expr, vars=vars, funcs=funcs, cells=cells)
        if out != ['v', ETYPE[l['code']]]:
            return fail('ERROR.TYPE(%s) = %r, expected %d (%s, the left operand)' % (expr, out, ETYPE[l['code']], l['code']),
                        ETYPE[l['code']], out)
        return None


class Literals(Sub):
    name = 'c08.literals'
    rule = ('each error literal at the top level, under every operator (either side), under unary minus, nested, and as '
            'an argument of a non-trapping function: the whole formula reports that code; non-trivial = all')
    min_cases = 100
    min_nontrivial = 100

    def cases(self, tier, unit):
        for lit in LITERALS:
            for cname, _ in contexts(tier):
                yield [lit, cname]
            for extra in ('SUM({x},1)', 'SUM(1,{x})', 'LEN({x})', 'IF(TRUE,{x},2)', 'ABS({x})+1', '{{1,{x}}}',
                          # the statement: a literal makes the WHOLE formula report it - also under a trapping
                          # function, in an untaken branch, or as an ignored argument
                          'IFERROR({x},"x")', 'IFERROR(1,{x})', 'IFNA({x},1)', 'ISERROR({x})', 'ISNA({x})',
                          'ERROR.TYPE({x})', 'IF(TRUE,1,{x})', 'ISTEXT({x})', 'IFERROR(2*({x}),0)', 'FOKL({x})'):
                yield [lit, extra]

    def check(self, env, case):
        lit, cname = case
        ctx = dict(contexts('thorough'))
        tmpl = ctx.get(cname, cname)
        expr = tmpl.replace('{x}', lit).replace('{{', '{').replace('}}', '}')
        env.nt()
        vars, funcs, cells = bind(env)
        funcs = dict(funcs, FOKL=lambda *a: 1)
        out = env.evo(expr, vars=vars, funcs=funcs, cells=cells)
        if out != ['e', lit]:
            return fail('%r contains the literal %s; expected the whole formula to report it, got %r' % (expr, lit, out),
                        lit, out)
        return None


CONTROLS = [('1', 1), ('"a"', 'a'), ('TRUE', True), ('2*3', 6), ('SUM(1,2)', 3), ('vok', 5), ('"a"&"b"', 'ab'),
            ('1<2', True), ('-vok', -5), ('FOK(4)', 4), ('""', ''), ('0', 0), ('FALSE', False),
            # TEXT that merely spells an error code is not an error value
            ('"#N/A"', '#N/A'), ('"#DIV/0!"', '#DIV/0!'), ('"#N"&"/A"', '#N/A'), ('vtna', '#N/A'), ('FOK("#REF!")', '#REF!'),
            ('IFERROR(1/0,"#N/A")', '#N/A'), ('T("#VALUE!")', '#VALUE!'),
            # a blank is not an error either, and stays a blank
            ('vblank', None), ('Z99', None), ('FOK(vblank)', None), ('0.0', 0.0), ('2.5', 2.5)]


class Controls(Sub):
    name = 'c08.controls'
    rule = ('non-error arguments: IFERROR(x,y) = x, IFNA(x,y) = x, ISERROR/ISERR/ISNA(x) = FALSE (IFERROR yields y '
            '*exactly* when x is an error); non-trivial = all')
    min_cases = 10
    min_nontrivial = 10

    def cases(self, tier, unit):
        for i in range(len(CONTROLS)):
            yield [i]

    def check(self, env, case):
        text, val = CONTROLS[case[0]]
        env.nt()
        vars, funcs, cells = bind(env)
        funcs = dict(funcs, FOK=lambda x: x)
        vars = dict(vars, vtna='#N/A')
        ev = lambda f: env.evo(f, vars=vars, funcs=funcs, cells=cells)
        if isinstance(val, str) and val.startswith('#'):
            out = ev('ERROR.TYPE(%s)' % text)
            if out != ['e', '#N/A']:
                return fail('ERROR.TYPE(%s) = %r; the argument is text, not an error value: expected #N/A' % (text, out),
                            ['e', '#N/A'], out)
            out = ev('ISTEXT(%s)' % text)
            if out != ['v', True]:
                return fail('ISTEXT(%s) = %r' % (text, out), True, out)
        for f, want in (('IFERROR(%s,"trap")', val), ('IFNA(%s,"trap")', val), ('ISERROR(%s)', False),
                        ('ISERR(%s)', False), ('ISNA(%s)', False), ('IFERROR(%s,1/0)', val)):
            out = ev(f % text)
            ok = out[0] == 'v' and out[1] == want and type(out[1]) is type(want)
            if not ok:
                return fail('%s = %r, expected %r (the argument %s is not an error)' % (f % text, out, want, text),
                            want, out)
        # IFERROR(x,y) = y when x is an error: y comes back as it is (a blank as a blank, 0 as 0, "" as "")
        for f in ('IFERROR(1/0,%s)', 'IFNA(NA(),%s)', 'IFERROR(FRAISE(2),%s)', 'IFERROR(eva,%s)'):
            out = ev(f % text)
            ok = out[0] == 'v' and out[1] == val and type(out[1]) is type(val)
            if not ok:
                return fail('%s = %r, expected the second argument %r unchanged (the first is an error)' % (f % text, out, val),
                            val, out)
        if val is None:
            for f in ('ISBLANK(IFERROR(1/0,%s))', 'ISBLANK(IFERROR(%s,1))', 'ISBLANK(IFNA(%s,1))', 'ISBLANK(IFNA(NA(),%s))'):
                out = ev(f % text)
                if out != ['v', True]:
                    return fail('%s = %r, expected TRUE: the blank argument comes back as a blank' % (f % text, out), True, out)
        return None


TREE_OPS = ('+', '*', '-', '=', '<', '>=')


class Trees(Sub):
    name = 'c08.trees'
    rule = ('all expression trees with <= 2 (quick) / 3 (thorough) operators from {+,*,-,=,<,>=} in which every subset of '
            'leaves is replaced by an error value (two different codes, from a host variable or a raising custom '
            'function): the value is the left-most error leaf, observed at the top level and through ISERROR / IFERROR / '
            'ERROR.TYPE; with no error leaf the formula is not an error; non-trivial = tree with >= 1 error leaf')
    min_cases = 20
    min_nontrivial = 500
    min_classes = 2

    def cases(self, tier, unit):
        from .. import formula as F
        maxn = 2 if tier == 'quick' else 3
        for n in range(1, maxn + 1):
            for si, _ in enumerate(F.shapes(n)):
                for op0 in TREE_OPS:
                    for src in ('var', 'raise'):
                        yield ['blk', n, si, op0, src]

    def check(self, env, case):
        from .. import formula as F
        vars, funcs, cells = bind(env)
        if case[0] == 'one':
            return self.one(env, case[1], case[2], (vars, funcs, cells))
        _, n, si, op0, src = case
        sh = list(F.shapes(n))[si]
        A, B = ('evb', '#DIV/0!'), ('evg', '#N/A')
        if src == 'raise':
            A, B = ('FRAISE(3)', '#REF!'), ('FRET(5)', '#NUM!')
        out = []
        for ops in itertools.product(TREE_OPS, repeat=n):
            if ops[0] != op0:
                continue
            base = F.build(sh, ops, ('int',), ())
            for marks in itertools.product((0, 1, 2), repeat=n + 1):
                t = base
                first = None
                for pos, m in enumerate(marks):
                    if m:
                        t = _replace(t, pos, ['f', (A, B)[m - 1][0], 0])
                        if first is None:
                            first = (A, B)[m - 1][1]
                f = self.one(env, F.render_min(t), first, (vars, funcs, cells))
                if f:
                    out.append(f)
                    if len(out) > 5:
                        return out
        return out

    def one(self, env, text, code, Bnd):
        vars, funcs, cells = Bnd
        ev = lambda f: env.evo(f, vars=vars, funcs=funcs, cells=cells)
        narrow = ['one', text, code]
        out = ev(text)
        if code is None:
            env.note('no-error')
            if out[0] != 'v':
                return fail('%r has no error operand but evaluates to %r' % (text, out), 'a value', out, case=narrow)
            r = ev('ISERROR(%s)' % text)
            if r != ['v', False]:
                return fail('ISERROR(%s) = %r for a non-error' % (text, r), False, r, case=narrow)
            return None
        env.nt()
        env.note('error')
        if out != ['e', code]:
            return fail('%r: the left-most error operand is %s, got %r' % (text, code, out), code, out, case=narrow)
        r = ev('IFERROR(%s,"trap")' % text)
        if r != ['v', 'trap']:
            return fail('IFERROR(%s,"trap") = %r' % (text, r), 'trap', r, case=narrow)
        r = ev('ERROR.TYPE(%s)' % text)
        if r != ['v', ETYPE[code]]:
            return fail('ERROR.TYPE(%s) = %r, expected %d' % (text, r, ETYPE[code]), ETYPE[code], r, case=narrow)
        return None


def _replace(t, pos, repl):
    from .c04 import _replace_leaf
    return _replace_leaf(t, pos, repl)



class ErrorScale(Sub):
    name = 'c08.scale'
    rule = ('size ladder of the length n of an operator chain / argument list / nesting depth with ONE error value at the first, '
            'middle or last place: 1+1+...+E+...+1 (also & and =), SUM of n arguments, n nested ABS(...) / -(...) around the '
            'error, IFERROR nested n deep; the formula is that error, trappable by IFERROR and seen by ISERROR / ISNA; '
            'non-trivial = all')
    min_cases = 40
    min_nontrivial = 40

    def cases(self, tier, unit):
        for n in scale(tier):
            yield [n]

    def check(self, env, case):
        n = case[0]
        env.nt()
        vars, funcs, cells = bind(env)
        out = []
        deep = min(n, 300)
        for etext, code in (('1/0', '#DIV/0!'), ('evg', '#N/A'), ('FRAISE(3)', '#REF!')):
            P = []
            for pos in sorted(set((0, n // 2, n - 1))):
                terms = ['1'] * n
                terms[pos] = '(%s)' % etext
                P += ['+'.join(terms), '&'.join(terms), 'SUM(%s)' % ','.join(terms) if n <= 1025 else '+'.join(terms),
                      '*'.join(terms) + '=1']
            P += ['ABS(' * deep + etext + ')' * deep, '-(' * deep + etext + ')' * deep,
                  '(' * deep + etext + ')' * deep + '+1']
            for f in P:
                o = env.evo(f, vars=vars, funcs=funcs, cells=cells)
                t = env.evo('IFERROR(%s,"trap")' % f, vars=vars, funcs=funcs, cells=cells)
                s_ = env.evo('ISNA(%s)' % f, vars=vars, funcs=funcs, cells=cells)
                if o != ['e', code] or t != ['v', 'trap'] or s_ != ['v', code == '#N/A']:
                    out.append(fail('a formula of size %d holding the error %s once (%s ... %s): top level %r, IFERROR(..,"trap") %r, ISNA(..) %r; '
                                    'expected %s, "trap", %s' % (n, etext, f[:30], f[-20:], o, t, s_, code, code == '#N/A'), code, o))
                    break
            if out:
                break
        f = 'IFERROR(' * deep + '1/0' + ',1/0)' * (deep - 1) + ',"inner")'
        o = env.evo(f, vars=vars, funcs=funcs, cells=cells)
        if o != ['v', 'inner']:
            out.append(fail('IFERROR nested %d deep around 1/0 with the innermost fallback "inner" gives %r' % (deep, o), 'inner', o))
        return out


class ListenerFunctions(Sub):
    name = 'c08.listener_functions'
    rule = ('a function that the host implements through a callFunction listener and that fails - the listener raises one of the 8 '
            'error values (the shared object or one of its own making) or an ordinary exception - is a function call that produced an '
            'error: IFERROR / ISERROR / ISNA / ERROR.TYPE observe it, operators hand it on; non-trivial = all')
    min_cases = 16
    min_nontrivial = 16

    def cases(self, tier, unit):
        for i in range(len(CODES8)):
            for how in ('shared', 'fresh'):
                yield [i, how]
        yield [0, 'exception']

    def check(self, env, case):
        i, how = case
        code = CODES8[i]
        env.nt()
        p = env.new_parser()

        def listener(name, args, setter):
            if name == 'HOSTFN':
                if how == 'exception':
                    raise KeyError('no such row')
                raise (env.dec({'$err': code}) if how == 'shared' else env.err.XLError(code))
        p.on('callFunction', listener)
        want_code = '#ERROR!' if how == 'exception' else code
        probes = [('IFERROR(HOSTFN(1),5)', ['v', 5]), ('ISERROR(HOSTFN(1))', ['v', True]), ('ISNA(HOSTFN(1))', ['v', want_code == '#N/A']),
                  ('HOSTFN(1)+1', ['e', want_code]), ('IF(ISERROR(HOSTFN(1)&"x"),"trapped","no")', ['v', 'trapped']), ('IFERROR(1,HOSTFN(1))', ['v', 1])]
        for f, want in probes:
            env.evals += 1
            o = env.out(p.parse(f))
            if o != want:
                return fail('%s with a callFunction listener that raises %s for HOSTFN gives %r, expected %r' % (
                    f, 'KeyError' if how == 'exception' else '%s (%s object)' % (code, how), o, want), want, o)
        return None


SUBS = [ListenerFunctions(), Propagate(), LeftWins(), Literals(), Controls(), Trees(), ErrorScale()]
