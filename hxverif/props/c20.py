# -*- coding: utf-8 -*-
"""C20 - event emitter (K1: explicit-state exploration of operation histories).

Every operation sequence up to depth D over a 2-name / 10-callback alphabet is replayed on a
fresh real Emitter and on a fresh executable reference model; the complete listener call
logs (callback, arguments, context, nesting depth) must be identical, including a final
probe (two emits per name).  A second search de-duplicates on the *model* state and goes
deeper.  Callbacks include ones that subscribe / unsubscribe / emit during delivery."""
from ..core import Sub, fail, jkey, scale

NAMES = ('a', 'b')
SCRIPTS = {
    'S_onA': ['on', 'a', 'R2', None],       # subscribe during delivery
    'S_onB': ['on', 'b', 'R2', None],
    'S_onceA': ['once', 'a', 'R2', None],
    'S_offA': ['off', 'a', None],           # unsubscribe a whole name during delivery
    'S_offself': ['off', 'a', 'SELF'],
    'S_offR1': ['off', 'a', 'R1'],
    'S_emitB': ['emit', 'b', 7],            # cross-name emit during delivery
    'S_emitA': ['emit', 'a', 8],            # same-name re-entrant emit, guarded to depth 2
    'S_raise': ['raise'],                   # a listener that fails: the emit is aborted, the caller catches the exception
}
CTX = {'k': 1}
RETURNS = {'R1': False, 'R2': 0, 'F0': '', 'M': False, 'S_onB': False, 'S_emitB': True}

BOUNDS = {
    'quick': 'all operation sequences of length <= 3 over 41 operations (tree, no state merging) + final probe; '
             'graph search over model states to closure (18 operations, listener lists <= 2 per name)',
    'thorough': 'all operation sequences of length <= 4 over 41 operations (2.3 M histories); graph search to '
                'closure with listener lists <= 3 per name',
}
ASSUMPTIONS = ['a callback carrying an attribute named `_` (what tiny-emitter marks its once-wrappers with) is a callback like any other: off(name, cb) does not remove a callable whose `_` equals cb',
               'callbacks are compared by identity; contexts are keyword dictionaries; listeners return False, 0, "", True or None - a return value never matters',
               'graph search merges histories whose *reference-model* states are equal; the implementation is '
               'replayed from one representative history per model state and probed by two emits per name']


def alphabet():
    ops = []
    for n in NAMES:
        ops.append(['emit', n, 1])
    for cb in ('R1', 'R2'):
        ops.append(['on', 'a', cb, None])
    ops.append(['on', 'b', 'R1', None])
    ops.append(['on', 'a', 'R1', CTX])
    ops.append(['once', 'a', 'R1', None])
    ops.append(['once', 'a', 'R2', None])
    ops.append(['once', 'b', 'R2', None])
    ops.append(['once', 'a', 'R2', CTX])
    ops.append(['off', 'a', None])
    ops.append(['off', 'b', None])
    ops.append(['off', 'a', 'R1'])
    ops.append(['off', 'a', 'R2'])
    ops.append(['off', 'b', 'R1'])
    for s in sorted(SCRIPTS):
        ops.append(['on', 'a', s, None])
        ops.append(['once', 'a', s, None])
    ops.append(['on', 'a', 'F0', None])     # a callable that is falsy (len 0)
    ops.append(['off', 'a', 'F0'])
    ops.append(['on', 'a', 'M', None])      # a bound method: a new, equal object at every mention
    ops.append(['once', 'a', 'M', None])
    ops.append(['off', 'a', 'M'])
    ops.append(['on', 'a', 'K', None])      # a callable OBJECT with attributes of its own (called = True, like a used Mock)
    ops.append(['once', 'a', 'K', None])
    ops.append(['off', 'a', 'K'])
    ops.append(['on', 'a', 'W', None])      # a functools.wraps product around R1 (W.__wrapped__ is R1): a listener of its own
    ops.append(['off', 'a', 'W'])
    ops.append(['on', 'a', 'U', None])      # a decorated function that keeps the function it wraps (R1) under the attribute `_`
    ops.append(['once', 'a', 'U', None])
    return ops


OPS = alphabet()

# reduced alphabet for the state-merging search (10 distinct listener records for name a, 2 for b,
# so the set of model states with bounded list length is small enough to be closed completely)
GOPS = [['emit', 'a', 1], ['emit', 'b', 1],
        ['on', 'a', 'R1', None], ['on', 'a', 'R2', None], ['on', 'b', 'R1', None],
        ['once', 'a', 'R1', None], ['once', 'a', 'R2', None], ['once', 'b', 'R2', None],
        ['off', 'a', None], ['off', 'b', None], ['off', 'a', 'R1'], ['off', 'a', 'R2'],
        ['on', 'a', 'S_emitA', None], ['once', 'a', 'S_emitA', None], ['on', 'a', 'S_offself', None],
        ['on', 'a', 'S_onA', None], ['once', 'a', 'S_offR1', None], ['on', 'a', 'S_emitB', None]]


class ListenerFailed(Exception):
    pass


class ModelEmitter(object):
    """Executable reference model of the statement."""

    def __init__(self):
        self.e = {}

    def on(self, name, cb, ctx=None, once=False):
        self.e.setdefault(name, []).append({'cb': cb, 'ctx': dict(ctx or {}), 'once': once, 'fired': False})
        return self

    def once(self, name, cb, ctx=None):
        return self.on(name, cb, ctx, once=True)

    def off(self, name, cb=None):
        if cb is None:
            self.e[name] = []
        else:
            self.e[name] = [r for r in self.e.get(name, []) if r['cb'] != cb]
        return self

    def emit(self, name, *args):
        # a once-listener is called on the FIRST emit that finds it subscribed, with that emit's arguments: the emit claims the
        # once-listeners of its snapshot before it delivers anything, so that an emit of the same name from inside an earlier
        # listener does not deliver them as well - or instead (an earlier version of this model consumed a once-listener when it
        # was called, as the implementation did: the nested emit then called it with ITS arguments and the first emit not at all).
        # A claimed once-listener leaves the list when it is called; when a listener in front of it fails, the emit ends and the
        # claim is given up: it was not called, so it is still subscribed, in its old place.
        snap = list(self.e.get(name, []))
        mine = [r for r in snap if r['once'] and not r['fired']]
        for r in mine:
            r['fired'] = True
        called = set()
        try:
            for r in snap:
                if r['once']:
                    if not any(r is m for m in mine):
                        continue
                    self.e[name] = [x for x in self.e.get(name, []) if x is not r]
                    called.add(id(r))
                r['cb'](*args, **r['ctx'])
        finally:
            for r in mine:
                if id(r) not in called:
                    r['fired'] = False
        return self

    def canon(self, names_of):
        return [[n, [[cbname(r['cb'], names_of), sorted(r['ctx'].items()), r['once']] for r in self.e.get(n, [])]]
                for n in NAMES]


def cbname(cb, names_of):
    if isinstance(getattr(cb, '__self__', None), Holder):
        return 'M'
    return names_of[id(cb)]


class Holder(object):
    """`holder.m` is a NEW bound-method object at every access: equal, not identical"""

    def __init__(self, rec):
        self.rec = rec

    def m(self, *a, **k):
        return self.rec(*a, **k)


class Spy(object):
    """a callable object that carries attributes an emitter might be tempted to read: `called` (truthy after first use, like
    unittest.mock.Mock), `fn`, `ctx`, `once`"""

    def __init__(self, rec):
        self.rec = rec
        self.called = True
        self.fn = None
        self.ctx = {'bogus': 1}
        self.once = True

    def __call__(self, *a, **k):
        return self.rec(*a, **k)


class Falsy(object):
    def __init__(self, rec):
        self.rec = rec

    def __len__(self):
        return 0

    def __call__(self, *a, **k):
        return self.rec(*a, **k)


class World(object):
    """One emitter (real or model) + its callbacks + the call log."""

    def __init__(self, emitter):
        self.em = emitter
        self.log = []
        self.depth = 0
        self.active = {}
        self.cbs = {}
        for name in ('R1', 'R2'):
            self.cbs[name] = self._recorder(name, None)
        for name, script in SCRIPTS.items():
            self.cbs[name] = self._recorder(name, script)
        self.cbs['F0'] = Falsy(self._recorder('F0', None))
        self.cbs['K'] = Spy(self._recorder('K', None))
        import functools
        wrec = self._recorder('W', None)
        self.cbs['W'] = functools.wraps(self.cbs['R1'])(lambda *a, **k: wrec(*a, **k))
        urec = self._recorder('U', None)
        self.cbs['U'] = lambda *a, **k: urec(*a, **k)
        self.cbs['U']._ = self.cbs['R1']
        self.holder = Holder(self._recorder('M', None))
        self.names_of = dict((id(v), k) for k, v in self.cbs.items())

    def cb(self, name):
        if name == 'M':
            return self.holder.m        # a fresh bound method each time
        return self.cbs[name]

    def _recorder(self, name, script):
        def cb(*args, **kwargs):
            self.log.append([name, list(args), sorted(kwargs.items()), self.depth])
            if script is not None:
                act = self.active.get(name, 0)
                if script[0] == 'emit' and act >= 1:
                    return      # re-entrancy guard: a scripted emitter fires its emit once per nesting
                self.active[name] = act + 1
                try:
                    self.apply(script, self_cb=cb)
                finally:
                    self.active[name] = act
            # what a listener returns is nobody's business (a DOM-style "return False stops propagation" would show)
            return RETURNS.get(name)
        cb.__name__ = name
        return cb

    def apply(self, op, self_cb=None):
        kind = op[0]
        if kind == 'raise':
            self.log.append(['#', 'raising'])
            raise ListenerFailed()
        if kind == 'emit':
            self.depth += 1
            try:
                self.em.emit(op[1], op[2])
            except ListenerFailed:
                # whoever emitted catches the failure of a listener (as Parser does for its events): the emit is over, listeners
                # behind the failing one were not called - and a once-listener among them is still subscribed
                self.log.append(['#', 'caught'])
            finally:
                self.depth -= 1
        elif kind in ('on', 'once'):
            cb = self.cb(op[2])
            if op[3] is None:
                getattr(self.em, kind)(op[1], cb)
            else:
                getattr(self.em, kind)(op[1], cb, dict(op[3]))
        elif kind == 'off':
            if op[2] is None:
                self.em.off(op[1])
            else:
                cb = self_cb if op[2] == 'SELF' else self.cb(op[2])
                self.em.off(op[1], cb)
        self.log.append(['#', kind])

    def probe(self):
        for _ in range(2):
            for n in NAMES:
                self.apply(['emit', n, 9])


def run_history(env, ops, probe=True, use_parser=False):
    """-> (failure or None, model world)"""
    from hotxlfp.tinyemitter import Emitter
    real = World(env.new_parser() if use_parser else Emitter())
    model = World(ModelEmitter())
    for i, op in enumerate(ops):
        try:
            real.apply(op)
        except Exception as e:
            return fail('operation %d %r raised %s: %s' % (i, op, type(e).__name__, e)), model
        model.apply(op)
        if real.log != model.log:
            return _diff(ops[:i + 1], real, model), model
    if probe:
        try:
            real.probe()
        except Exception as e:
            return fail('probe after %r raised %s: %s' % (ops, type(e).__name__, e)), model
        model_state = None
        model.probe()
        if real.log != model.log:
            return _diff(ops, real, model, probe=True), model
    return None, model


def _diff(ops, real, model, probe=False):
    k = 0
    while k < min(len(real.log), len(model.log)) and real.log[k] == model.log[k]:
        k += 1
    calls = lambda lg: [x for x in lg if x[0] != '#']
    return fail('listener call log differs from the reference model%s after %s: at entry %d impl=%r model=%r' % (
        ' (in the final probe)' if probe else '', jkey(ops), k,
        real.log[k] if k < len(real.log) else None, model.log[k] if k < len(model.log) else None),
        calls(model.log), calls(real.log), case=['h', ops])


class Tree(Sub):
    name = 'c20.histories'
    rule = ('every operation sequence up to the depth bound on a fresh Emitter, compared step by step with the '
            'reference model; non-trivial = history with an emit that delivered to >= 1 listener')
    min_cases = 30
    min_nontrivial = 100
    min_classes = 3

    def cases(self, tier, unit):
        depth = 3 if tier == 'quick' else 4
        # a case = a prefix of length depth-2 (or 1); the check enumerates the last two levels
        plen = max(1, depth - 2)
        def rec(prefix):
            if len(prefix) == plen:
                yield ['p', depth, [OPS.index(o) for o in prefix]]
                return
            for o in OPS:
                for x in rec(prefix + [o]):
                    yield x
        for x in rec([]):
            yield x
        if plen > 1:        # histories shorter than the prefix length, each with its own probe
            for o in OPS:
                yield ['h', [o]]
        yield ['h', []]

    def check(self, env, case):
        if case[0] == 'h':
            f, _ = run_history(env, case[1])
            env.evals += 1
            return f
        _, depth, pidx = case
        prefix = [OPS[i] for i in pidx]
        out = []
        # all histories extending the prefix up to total length `depth` (shorter ones are covered by
        # step-by-step comparison of longer ones plus the probe at each length for the first two levels)
        def rec(h):
            if len(out) > 3:
                return
            f, model = run_history(env, h)
            env.evals += 1
            env.cov['traces_validated_against_impl'] = env.cov.get('traces_validated_against_impl', 0) + 1
            env.cov['transitions'] = env.cov.get('transitions', 0) + 1
            delivered = sum(1 for x in model.log if x[0] != '#')
            if delivered:
                env.nt()
            env.note('delivered%d' % min(delivered, 9))
            if f:
                out.append(f)
                return
            if len(h) < depth:
                for o in OPS:
                    rec(h + [o])
        rec(prefix)
        return out


class Graph(Sub):
    name = 'c20.graph'
    rule = ('breadth-first search to closure over reference-model states (per name: ordered (callback, ctx, once) '
            'lists, length <= 2 quick / 3 thorough, 18-operation alphabet); each transition replays representative-history + operation + probe on a fresh real Emitter; '
            'non-trivial = every distinct model state')
    stride = False
    min_cases = 1
    min_nontrivial = 50

    def cases(self, tier, unit):
        yield ['g', 40, 2 if tier == 'quick' else 3]

    def check(self, env, case):
        if case[0] == 'h':
            f, _ = run_history(env, case[1])
            return f
        _, maxdepth, maxlen = case
        seen = {}
        frontier = [[]]
        seen[jkey(World(ModelEmitter()).em.canon({}))] = []
        transitions = 0
        out = []
        depth = 0
        while frontier and depth < maxdepth and not out:
            nxt = []
            for hist in frontier:
                for op in GOPS:
                    h = hist + [op]
                    f, model = run_history(env, h)
                    env.evals += 1
                    transitions += 1
                    if f:
                        out.append(f)
                        if len(out) > 3:
                            break
                        continue
                    # the model was probed (state changed); recompute the un-probed state for the key
                    _, m2 = run_history_model_only(h)
                    st = m2.em.canon(m2.names_of)
                    if any(len(lst) > maxlen for _, lst in st):
                        continue
                    k = jkey(st)
                    if k not in seen:
                        seen[k] = h
                        nxt.append(h)
                if len(out) > 3:
                    break
            frontier = nxt
            depth += 1
        env.cov['states'] = len(seen)
        env.cov['transitions'] = env.cov.get('transitions', 0) + transitions
        env.cov['traces_validated_against_impl'] = env.cov.get('traces_validated_against_impl', 0) + transitions
        env.cov['graph_depth_completed'] = depth
        env.cov['graph_frontier_left'] = len(frontier)
        env.nt(len(seen))
        env.note('states')
        return out


def run_history_model_only(ops):
    model = World(ModelEmitter())
    for op in ops:
        model.apply(op)
    return None, model


class ParserAsEmitter(Sub):
    name = 'c20.parser_as_emitter'
    rule = ('hotxlfp.Parser is the emitter the host actually uses: every operation sequence of length <= 2 on a fresh '
            'Parser object (event names a/b do not collide with the parser\'s own events), compared with the model; '
            'non-trivial = history with a delivery')
    min_cases = 30
    min_nontrivial = 100

    def cases(self, tier, unit):
        for i in range(len(OPS)):
            yield ['p', i]

    def check(self, env, case):
        if case[0] == 'h':
            f, _ = run_history(env, case[1], use_parser=True)
            return f
        first = OPS[case[1]]
        out = []
        for h in [[first]] + [[first, o] for o in OPS]:
            f, model = run_history(env, h, use_parser=True)
            env.evals += 1
            env.cov['traces_validated_against_impl'] = env.cov.get('traces_validated_against_impl', 0) + 1
            if any(x[0] != '#' for x in model.log):
                env.nt()
            if f:
                out.append(f)
                if len(out) > 3:
                    break
        return out



class EmitterScale(Sub):
    name = 'c20.scale'
    rule = ('size ladder of the number n of listeners on one name (plain, every third a once-listener, every fifth with a '
            'context): the first emit calls all n in subscription order, the second all but the once-listeners; off(name, cb) of '
            'the middle one removes exactly it; listeners on another name are untouched; off(name) removes all; non-trivial = all')
    min_cases = 40
    min_nontrivial = 40

    def cases(self, tier, unit):
        for n in scale(tier):
            yield [n]

    def check(self, env, case):
        from hotxlfp.tinyemitter import Emitter
        n = case[0]
        env.nt()
        e = Emitter()
        log = []
        cbs = []
        for i in range(n):
            def cb(*a, _i=i, **k):
                log.append((_i, a, tuple(sorted(k.items()))))
            cbs.append(cb)
            ctx = {'k': i} if i % 5 == 4 else None
            if i % 3 == 2:
                e.once('a', cb, ctx) if ctx else e.once('a', cb)
            else:
                e.on('a', cb, ctx) if ctx else e.on('a', cb)
        e.on('b', lambda *a: log.append(('b', a, ())))
        env.evals += 1

        def expect(alive, arg):
            return [(i, (arg,), (('k', i),) if i % 5 == 4 else ()) for i in alive]
        e.emit('a', 1)
        all_ = list(range(n))
        if log != expect(all_, 1):
            return fail('%d listeners on one name: the first emit produced %d calls, expected %d in subscription order (first '
                        'difference at call %d)' % (n, len(log), n, next((k for k in range(min(len(log), n)) if log[k] != expect(all_, 1)[k]),
                                                                           min(len(log), n))))
        del log[:]
        alive = [i for i in all_ if i % 3 != 2]
        e.emit('a', 2)
        if log != expect(alive, 2):
            return fail('%d listeners on one name, every third a once-listener: the second emit produced %d calls, expected %d' % (
                n, len(log), len(alive)))
        if alive:
            del log[:]
            mid = alive[len(alive) // 2]
            e.off('a', cbs[mid])
            alive = [i for i in alive if i != mid]
            e.emit('a', 3)
            if log != expect(alive, 3):
                return fail('%d listeners on one name: after off(name, listener %d) the emit produced %d calls, expected %d' % (
                    n, mid, len(log), len(alive)))
        del log[:]
        e.emit('b', 4)
        if log != [('b', (4,), ())]:
            return fail('%d listeners on name a: an emit of name b produced %r' % (n, log[:3]))
        del log[:]
        e.off('a')
        e.emit('a', 5)
        if log:
            return fail('%d listeners on one name: after off(name) an emit still produced %d calls' % (n, len(log)))
        return None


SUBS = [Tree(), Graph(), ParserAsEmitter(), EmitterScale()]
