# -*- coding: utf-8 -*-
"""C02 - evaluation is a pure, repeatable function of formula and bindings (K1 + K3).

I1  differential: after ANY history of operations the outcome of every probe formula equals its
    outcome on a fresh parser that carries the same current bindings (no expected values by hand)
I2  debug=True and debug=False agree
I3  host-supplied values (variables, cell/range values, custom function results, arguments) are
    deep-equal before and after every evaluation
I4  closure: the set of heap states (canonical fingerprint of hotxlfp/ply module globals + the
    parser) reachable by parse operations is finite and closed - decided by a breadth-first
    search that must reach a fixpoint; plus the number of live traceback/frame objects after
    gc is constant in the repetition count
I5  no evaluation changes the bindings or module state observably: the fingerprint restricted to
    the hotxlfp.* modules is unchanged by a successful evaluation (catches a scratch buffer
    hoisted to module scope)."""
import contextlib
import copy
import gc
import io
import itertools
import json
import os
import sys
import types

from ..core import Sub, fail, enc, jkey, lit, scale
from .. import heapfp

BOUNDS = {
    'quick': 'operation alphabet: parse(f) for 32 residue-leaving formulas, set_variable x 2 values, set_function x 2 bodies, '
             'on/off of a cell listener, the host changing every cell and range value (39 operations); all histories of length <= 2 x 27 probes, debug off and on, each '
             'history in a pristine process (fork server) against solo outcomes from pristine processes; closure '
             'search over heap fingerprints to a fixpoint (cap depth 5); repetition ladder 1,2,4,...,64 per formula for live '
             'traceback/frame counts; host-list immutability for every documented function x arity <= 2 x list-valued '
             'argument positions + operator paths; clock: 39 date texts x 14 formulas x 2 deliveries under 4 clocks',
    'thorough': 'histories of length <= 3 (19 683 x 18 probes x 2 debug settings); closure cap depth 8; immutability at arity 3',
}
ASSUMPTIONS = ['NOW/TODAY/RAND/RANDBETWEEN are evaluated under a seam that fixes clock and random source (attributes '
               '`random` of hotxlfp.formulas.mathtrig and `datetime` of hotxlfp.formulas.dateandtime replaced from outside); '
               'if a seam attribute is missing those probes are compared by type only',
               'identity (is) of results is not demanded; PLY leftovers (lexdata, state stacks) are part of the state key '
               'but not of the oracle',
               'the heap fingerprint treats stdlib objects and compiled regexes as opaque']


# --------------------------------------------------------------------------
# environment seams

class _FakeRandom(object):
    def random(self):
        return 0.25

    def randint(self, a, b):
        return a

    def randrange(self, a, b=None):
        return a if b is not None else 0

    def uniform(self, a, b):
        return a


@contextlib.contextmanager
def seams():
    import datetime as _dt
    from hotxlfp.formulas import mathtrig, dateandtime
    saved = []
    ok = {'random': False, 'clock': False}
    if hasattr(mathtrig, 'random'):
        saved.append((mathtrig, 'random', mathtrig.random))
        mathtrig.random = _FakeRandom()
        ok['random'] = True
    if isinstance(getattr(dateandtime, 'datetime', None), types.ModuleType):
        fixed = _dt.datetime(2021, 3, 4, 5, 6, 7)

        class FDT(_dt.datetime):
            @classmethod
            def now(cls, tz=None):
                return fixed

            @classmethod
            def today(cls):
                return fixed

        class FD(_dt.date):
            @classmethod
            def today(cls):
                return fixed.date()
        stub = types.ModuleType('datetime')
        stub.__dict__.update(_dt.__dict__)
        stub.datetime = FDT
        stub.date = FD
        saved.append((dateandtime, 'datetime', dateandtime.datetime))
        dateandtime.datetime = stub
        ok['clock'] = True
    try:
        yield ok
    finally:
        for mod, name, val in saved:
            setattr(mod, name, val)


# --------------------------------------------------------------------------
# operation alphabet

FORMULAS = ['SUM(1,2)+va', 'va*2', '1/0', 'nosuchvar+1', 'SUM(1/0,1)', 'MAX(NA())', '1+', '"abc', '#REF!', 'NOSUCHFN(1)',
            'FBOOM(1)', 'FSYN(1)', '{1,2}+1', 'DATE(2019,1,2)+1', 'YEAR(NOW())+RAND()', 'FN(va)&A1',
            'ABS(TRUE)&"|"&SUM("1")&"|"&INDEX({"a","b"},TRUE)', 'ABS(1.0)&"|"&SUM(1.0)&"|"&(0.0+FALSE)',
            'B2-A1+SUM(A1:B2)', 'SUM(B2:A1)+SUM($C$3:A2)', 'B9&"|"&ISBLANK(D8)', 'A1+C1',
            'IFERROR(SUM(1/0),5)&ISERROR(MAX(NA()))&IF(ISERROR(SUM(1/0)),"n/a",1)',
            'IFERROR(FNOARG(1),5)&ISERROR(FNOARG(2))', 'FNOARG(3)+1',
            # criteria of different kinds that are equal in the host language: what one evaluation compiled must not serve the other
            'COUNTIF({1,TRUE,1,"1"},TRUE)&"|"&SUMIF({0,FALSE,0},FALSE,{1,2,4})', 'COUNTIF({1,TRUE,1,"1"},2/2)&"|"&SUMIF({0,FALSE,0},1.5-1.5,{1,2,4})',
            'IFERROR(FBOOM(2),A1)', 'CONCATENATE(1/0,"x")', 'A1:B2', 'A1*B2+nosuchvar', 'SUM(A1:B2)+B2+(']
NPROBE = 27      # the first 27 are also probes
NEEDS_ZYGOTE = True


def boom(*a):
    raise ValueError('boom')


def syn(*a):
    raise SyntaxError('syn')


def noarg(*a):
    if a and a[0] == 2:
        assert False            # AssertionError()
    if a and a[0] == 3:
        next(iter(()))          # StopIteration()
    raise ValueError()          # an exception without arguments


FN_BODIES = [lambda x: x + 1, lambda x: x * 10]
VAR_VALUES = [5, 'v']


def op_alphabet():
    ops = [['parse', i] for i in range(len(FORMULAS))]
    ops += [['setvar', 0], ['setvar', 1], ['setfn', 0], ['setfn', 1], ['on'], ['off'], ['bump']]
    return ops


OPS = op_alphabet()


GEN = {'g': 0}       # the host's sheet: every 'bump' operation changes the value of every cell and range


def cell_listener(cell, setter):
    # the value identifies the cell that was asked for (by coordinates AND by label) and the current state of the
    # host's sheet; rows 8.. are blank
    if cell.row.index >= 7:
        return
    setter(100 * cell.row.index + cell.col.index + 1 + (1000 if cell.label.replace('$', '') != 'A1' else 0) + 5000 * GEN['g'])


def guard_listener(cell, setter):
    # a second listener on the same event that refuses one cell AFTER the first listener has answered
    if cell.label == 'C1':
        raise ValueError('access to C1 refused')


def range_listener(s, e, setter):
    setter([[s.row.index, s.col.index, len(s.label)], [e.row.index, e.col.index, len(e.label) + 7000 * GEN['g']]])


class World(object):
    """a parser plus the bindings the harness registered on it"""

    def __init__(self, env, debug=False):
        self.p = env.new_parser(debug=debug)
        GEN['g'] = 0
        self.p.set_function('FBOOM', boom)
        self.p.set_function('FSYN', syn)
        self.p.set_function('FNOARG', noarg)
        self.p.on('callRangeValue', range_listener)
        self.apply(['setvar', 0])
        self.apply(['setfn', 0])
        self.apply(['on'])      # the sheet answers from the start: a failing evaluation followed by an edit of the sheet
                                # (['parse', f], ['bump']) is then a history of length 2

    def apply(self, op):
        k = op[0]
        if k == 'parse':
            return self.parse(FORMULAS[op[1]])
        if k == 'setvar':
            self.p.set_variable('va', VAR_VALUES[op[1]])
        elif k == 'setfn':
            self.p.set_function('FN', FN_BODIES[op[1]])
        elif k == 'on':
            self.p.off('callCellValue')
            self.p.on('callCellValue', cell_listener)
            self.p.on('callCellValue', guard_listener)
        elif k == 'off':
            self.p.off('callCellValue')
        elif k == 'bump':
            GEN['g'] += 1       # the host edits its sheet between two evaluations
        return None

    def parse(self, text):
        err = io.StringIO()
        old = sys.stderr
        sys.stderr = err
        try:
            try:
                r = self.p.parse(text)
            except Exception as e:
                r = ('raised', e)
        finally:
            sys.stderr = old
        return r


def binding_ops(history):
    return [op for op in history if op[0] != 'parse']


def norm(env, r, seam_ok, formula):
    out = env.out(r)
    if ('NOW' in formula or 'RAND' in formula) and not (seam_ok['random'] and seam_ok['clock']):
        return [out[0], type(out[1]).__name__]
    return out


def pristine_history(payload):
    """Runs in a pristine grandchild of the zygote (a process that has evaluated nothing):
    replay `hist` on a new parser, then evaluate the probes in order; returns their outcomes."""
    from ..core import Env
    env = Env()
    with seams() as seam_ok:
        w = World(env, debug=payload.get('debug', False))
        for op in payload['hist']:
            w.apply(op)
        out = []
        for pi in payload['probes']:
            text = FORMULAS[pi]
            out.append(norm(env, w.parse(text), seam_ok, text))
        return out


class Histories(Sub):
    name = 'c02.histories'
    rule = ('every operation history up to the depth bound on one parser, then every probe formula: outcome equals the '
            'outcome on a fresh parser carrying the same bindings (I1), with debug output on and off (I2); histories '
            'include failing parses, raising callbacks and rebinding; non-trivial = history containing a failing parse')
    min_cases = 20
    min_nontrivial = 100

    def cases(self, tier, unit):
        self._tier = tier
        depth = 2 if tier == 'quick' else 3
        for i in range(len(OPS)):
            if depth == 2:
                yield ['pre', depth, [i]]
            else:
                for j in range(len(OPS)):
                    yield ['pre', depth, [i, j]]
        yield ['h', []]

    def run_history(self, env, hist, seam_ok):
        """-> failure or None.  History + probes run in a pristine process; the reference for each probe is its
        outcome as the ONLY evaluation of a pristine process whose parser carries the same bindings."""
        from .. import zygote
        bops = binding_ops(hist)
        refs = env.__dict__.setdefault('_c02refs', {})
        # A probe is itself an evaluation and may wipe what the history left behind, so the probes are also run
        # in other orders: reversed, and rotated so that different probes come FIRST after the history
        # (quick: 4 starting points chosen among the cell / blank-cell / function probes; thorough: every rotation)
        nat = list(range(NPROBE))
        if getattr(self, '_tier', 'quick') == 'thorough':
            orders = [(False, nat[k:] + nat[:k]) for k in sorted(set(list(range(0, NPROBE, 3)) + [15, 20, 22]))]
        else:
            orders = [(False, nat[k:] + nat[:k]) for k in (0, 22, 15, 20)]
        orders += [(True, nat), (False, nat[::-1])]
        for debug, order in orders:
            res = zygote.call('hxverif.props.c02', 'pristine_history', {'hist': hist, 'probes': order, 'debug': debug})
            got = dict(zip(order, res))
            env.evals += NPROBE + len(hist)
            for pi in order:
                key = (jkey(bops), pi)
                if key not in refs:
                    refs[key] = zygote.call('hxverif.props.c02', 'pristine_history',
                                            {'hist': bops, 'probes': [pi], 'debug': False})[0]
                    env.evals += 1
                if got[pi] != refs[key]:
                    return fail('after history %s (debug=%s) the probe %r gives %r; as the only evaluation of a fresh '
                                'process on a parser with the same bindings it gives %r' % (
                                    self.show(hist), debug, FORMULAS[pi], got[pi], refs[key]), refs[key], got[pi],
                                case=['h', hist])
        return None

    @staticmethod
    def show(hist):
        out = []
        for op in hist:
            if op[0] == 'parse':
                out.append('parse(%r)' % FORMULAS[op[1]])
            else:
                out.append(op[0] + (str(op[1]) if len(op) > 1 else ''))
        return '[' + ', '.join(out) + ']'

    def check(self, env, case):
        with seams() as seam_ok:
            if case[0] == 'h':
                return self.run_history(env, case[1], seam_ok)
            _, depth, pre = case
            prefix = [OPS[i] for i in pre]
            out = []
            rest = depth - len(prefix)
            for tail in itertools.product(OPS, repeat=rest):
                hist = prefix + list(tail)
                if any(op[0] == 'parse' and op[1] in (2, 3, 4, 5, 6, 7, 8, 9, 10, 11, 21, 22, 23, 24, 25, 26, 27, 28, 31) for op in hist):
                    env.nt()
                env.note('len%d' % len(hist))
                env.cov['traces_validated_against_impl'] = env.cov.get('traces_validated_against_impl', 0) + 1
                f = self.run_history(env, hist, seam_ok)
                if f:
                    out.append(f)
                    if len(out) > 3:
                        break
            # shorter histories: the prefix alone
            if not out:
                f = self.run_history(env, prefix, seam_ok)
                if f:
                    out.append(f)
            return out


# --------------------------------------------------------------------------
# closure of the reachable heap states (fork per expansion: a state cannot be copied, so the
# history reaching it is replayed in a child process forked from the pristine parent)

def _decode_child(data):
    """what a child wrote; a child that was killed (a machine out of memory or overloaded) leaves nothing or half a record"""
    if not data:
        return {'crash': 'no data from child', 'lost': True}
    try:
        return json.loads(data)
    except ValueError:
        return {'crash': 'unreadable record from child (%d characters)' % len(data), 'lost': True}


def _in_child(fn, retry=True):
    """run fn() in a forked child, return its JSON result (a child that was lost - not one that failed - is run once more)"""
    res = _in_child_once(fn)
    if retry and isinstance(res, dict) and res.get('lost'):
        res = _in_child_once(fn)
    return res


def _in_child_once(fn):
    r, w = os.pipe()
    pid = os.fork()
    if pid == 0:
        try:
            os.close(r)
            try:
                res = fn()
            except BaseException as e:      # noqa
                res = {'crash': '%s: %s' % (type(e).__name__, e)}
            with os.fdopen(w, 'w') as f:
                json.dump(res, f)
        finally:
            os._exit(0)
    os.close(w)
    with os.fdopen(r) as f:
        data = f.read()
    os.waitpid(pid, 0)
    return _decode_child(data)


def _skip_noise(modname, key):
    return False


def state_key(world):
    h, m = heapfp.fingerprint({'parser': world.p})
    return h, m


CLOSURE_OPS = [['parse', i] for i in range(len(FORMULAS))]


class Closure(Sub):
    name = 'c02.closure'
    rule = ('breadth-first search over canonical heap fingerprints (module globals of hotxlfp.* and ply.* + the parser): '
            'every state is expanded by parse(f) for all 19 formulas, each expansion replayed in a forked child from the '
            'pristine process; the search must reach a fixpoint (finite reachable set => no history of any length reaches '
            'a new state => nothing is retained per evaluation); non-trivial = every distinct state')
    stride = False
    min_cases = 1
    min_nontrivial = 5

    def cases(self, tier, unit):
        yield ['bfs', 5 if tier == 'quick' else 8, 400 if tier == 'quick' else 3000]

    def check(self, env, case):
        _, maxdepth, maxstates = case
        with seams():
            return self.search(env, maxdepth, maxstates)

    def search(self, env, maxdepth, maxstates):
        def state_after(hist):
            def body():
                w = World(env)
                w.apply(['on'])
                for op in hist:
                    w.apply(op)
                h, m = state_key(w)
                return {'h': h}
            return body

        def explain(hist):
            def body():
                w = World(env)
                w.apply(['on'])
                for op in hist[:-1]:
                    w.apply(op)
                h0, m0 = state_key(w)
                w.apply(hist[-1])
                h1, m1 = state_key(w)
                return {'diff': heapfp.diff(m0, m1, 6)}
            return _in_child(body)

        root = _in_child(state_after([]))
        if 'crash' in root:
            return fail('closure search crashed: %s' % root['crash'])
        seen = {root['h']: []}
        frontier = [[]]
        transitions = 0
        depth = 0
        newest = None
        while frontier and depth < maxdepth and len(seen) <= maxstates:
            hists = [h + [op] for h in frontier for op in CLOSURE_OPS]
            results = _parallel_children([state_after(h) for h in hists])
            nxt = []
            for h2, r in zip(hists, results):
                transitions += 1
                if 'crash' in r:
                    return fail('closure search: child crashed after %s: %s' % (Histories.show(h2), r['crash']))
                if r['h'] not in seen:
                    seen[r['h']] = h2
                    newest = h2
                    nxt.append(h2)
            frontier = nxt
            depth += 1
        env.cov['states'] = len(seen)
        env.cov['transitions'] = env.cov.get('transitions', 0) + transitions
        env.cov['closure_depth'] = depth
        env.cov['traces_validated_against_impl'] = env.cov.get('traces_validated_against_impl', 0) + transitions
        env.evals += transitions
        env.nt(len(seen))
        env.note('states')
        if frontier:
            dif = explain(newest).get('diff')
            return fail('the reachable heap states do not close: %d states after depth %d and still growing; e.g. history '
                        '%s reaches a new state, last change: %s' % (len(seen), depth, Histories.show(newest), dif),
                        'a fixpoint', '%d states, frontier %d' % (len(seen), len(frontier)))
        return None


def _parallel_children(fns, maxpar=None):
    """run each fn in its own forked child, up to maxpar at a time; results in order"""
    maxpar = maxpar or max(2, (os.cpu_count() or 4) - 2)
    results = [None] * len(fns)
    running = []
    i = 0

    def start(k):
        r, w = os.pipe()
        pid = os.fork()
        if pid == 0:
            try:
                os.close(r)
                try:
                    res = fns[k]()
                except BaseException as e:      # noqa
                    res = {'crash': '%s: %s' % (type(e).__name__, e)}
                with os.fdopen(w, 'w') as f:
                    json.dump(res, f)
            finally:
                os._exit(0)
        os.close(w)
        return (k, pid, r)

    while i < len(fns) or running:
        while i < len(fns) and len(running) < maxpar:
            running.append(start(i))
            i += 1
        k, pid, r = running.pop(0)
        with os.fdopen(r) as f:
            data = f.read()
        os.waitpid(pid, 0)
        results[k] = _decode_child(data)
    for k in range(len(results)):
        if isinstance(results[k], dict) and results[k].get('lost'):
            results[k] = _in_child_once(fns[k])      # a lost child (not a failed one) is run once more, alone
    return results


class Retention(Sub):
    name = 'c02.retention'
    rule = ('for every formula of the alphabet: live traceback/frame objects after gc.collect() and the heap fingerprint '
            'after k = 2,4,8,...,64 repetitions equal those after k = 1 (fingerprint: equal from the second repetition on); '
            'non-trivial = formula whose evaluation raises internally')
    min_cases = 15
    min_nontrivial = 5

    def cases(self, tier, unit):
        for i in range(len(FORMULAS)):
            yield i

    def check(self, env, case):
        text = FORMULAS[case]

        def body():
            with seams():
                w = World(env)
                w.apply(['on'])
                counts = []
                fps = []
                k = 0
                for target in (1, 2, 4, 8, 16, 32, 64):
                    while k < target:
                        w.parse(text)
                        k += 1
                    gc.collect()
                    n = sum(1 for o in gc.get_objects() if type(o) in (types.TracebackType, types.FrameType))
                    counts.append(n)
                    h, m = state_key(w)
                    fps.append(h)
                d = []
                if len(set(fps[1:])) > 1:
                    w2 = w
                    h_a, m_a = state_key(w2)
                    w2.parse(text)
                    h_b, m_b = state_key(w2)
                    d = heapfp.diff(m_a, m_b, 6)
                return {'counts': counts, 'fps': fps, 'diff': d}
        res = _in_child(body)
        env.evals += 64
        if 'crash' in res:
            return fail('retention probe crashed: %s' % res['crash'])
        if case in (2, 3, 4, 5, 6, 7, 8, 9, 10, 11, 21, 22, 23, 24):
            env.nt()
        counts, fps = res['counts'], res['fps']
        if len(set(counts[1:])) > 1 or counts[-1] > counts[0] + 2:
            return fail('repeating parse(%r): live traceback/frame objects after 1,2,4,..,64 repetitions = %r (grows with '
                        'the repetition count)' % (text, counts), 'constant', counts)
        if len(set(fps[1:])) > 1:
            return fail('repeating parse(%r): the heap state keeps changing with every repetition: %s' % (text, res['diff']),
                        'a fixpoint from the 2nd repetition', fps)
        return None


# --------------------------------------------------------------------------
# I3 host immutability

def host_lists(env=None):
    out = [[3, 1, 2], [[3, 1], [2, 'b']], [], ['b', 'a', None], [2.5, [1, [0]]], [[5, 4, 3, 2]],
           [[1, 2, 3], [4]],                                   # ragged rows
           [[1, 2]] * 3]                                       # three rows that are ONE list object (a host filling a block)
    if env is not None:
        out.append([1, env.err.XLError('#N/A'), 3])            # an error object of the host's own making among the items
    else:
        out.append([1, 3])
    return out


def snap(v):
    """comparable picture of a host value: structure, values, and for error objects what raising leaves on them"""
    if isinstance(v, list):
        return ['list', [snap(x) for x in v]]
    if isinstance(v, BaseException):
        n, tb = 0, v.__traceback__
        while tb is not None:
            n, tb = n + 1, tb.tb_next
        return ['exc', type(v).__name__, [str(a) for a in v.args], 'traceback frames: %d' % n,
                'context: %s' % (type(v.__context__).__name__ if v.__context__ is not None else None)]
    return ['val', enc(v), type(v).__name__]


SCALARS = [2, 'a', None]


class Immutable(Sub):
    name = 'c02.immutability'
    rule = ('every documented function x arity <= A x every argument tuple with >= 1 host list among the arguments (8 '
            'lists incl. ragged rows and one holding an error object of the host\'s own making, 3 scalars), the list supplied as variable value, as cell/range listener value and as custom-function '
            'result; plus operator paths with array operands: every host object is deep-equal (and inner lists identical '
            'objects) after the evaluation; non-trivial = all')
    min_cases = 150
    min_nontrivial = 1000

    def cases(self, tier, unit):
        from .c09 import supported_lists
        names = supported_lists()[0]
        maxa = 2 if tier == 'quick' else 3
        for ni in range(len(names)):
            for a in range(1, maxa + 1):
                yield ['fn', ni, a]
        for i in range(len(OPFORMS)):
            yield ['op', i]

    def check(self, env, case):
        from .c09 import supported_lists
        lists = host_lists(env)
        pool = lists + SCALARS
        out = []
        if case[0] == 'fn':
            name = supported_lists()[0][case[1]]
            arity = case[2]
            argn = ['xa', 'xb', 'xc'][:arity]
            for idxs in itertools.product(range(len(pool)), repeat=arity):
                if not any(i < len(lists) for i in idxs):
                    continue
                if arity == 3 and sum(1 for i in idxs if i < len(lists)) > 2:
                    continue
                for route in ('var', 'range', 'fnresult'):
                    f = self.one(env, name, argn, idxs, route)
                    if f:
                        out.append(f)
                        if len(out) > 3:
                            return out
            return out
        form = OPFORMS[case[1]]
        for i in range(len(lists)):
            for j in range(len(pool)):
                fresh = host_lists(env) + SCALARS
                vals = [fresh[i], copy.deepcopy(fresh[j]) if j < len(lists) - 1 else (host_lists(env) + SCALARS)[j]]
                before = snap(vals)
                r = env.ev(form, vars={'xa': vals[0], 'xb': vals[1]})
                r = env.ev(form, vars={'xa': vals[0], 'xb': vals[1]})       # twice: what accumulates shows
                env.nt()
                if snap(vals) != before:
                    out.append(fail('%r with xa=%r, xb=%r changed a host value: %r -> %r' % (form, enc(vals[0]), enc(vals[1]), before, snap(vals)),
                                    before, snap(vals)))
                    if len(out) > 3:
                        return out
        return out

    def one(self, env, name, argn, idxs, route):
        vals = [(host_lists(env) + SCALARS)[i] for i in idxs]      # fresh objects for every argument
        before = snap(vals)
        inner_ids = [[id(x) for x in v] if isinstance(v, list) else None for v in vals]
        env.nt()
        if route == 'var':
            text = '%s(%s)' % (name, ','.join(argn))
            env.ev(text, vars=dict(zip(argn, vals)))
        elif route == 'range':
            labels = ['A1:B2', 'C1:D2', 'E1:F2']
            args = [labels[k] if isinstance(v, list) else argn[k] for k, v in enumerate(vals)]
            text = '%s(%s)' % (name, ','.join(args))
            cells = dict((labels[k], v) for k, v in enumerate(vals) if isinstance(v, list))
            env.ev(text, vars=dict((argn[k], v) for k, v in enumerate(vals) if not isinstance(v, list)), cells=cells)
        else:
            text = '%s(%s)' % (name, ','.join('HOSTV(%d)' % k for k in range(len(vals))))
            env.ev(text, funcs={'HOSTV': lambda k: vals[int(k)]})
        after_ids = [[id(x) for x in v] if isinstance(v, list) else None for v in vals]
        if snap(vals) != before or after_ids != inner_ids:
            return fail('%s (route %s) mutated a host value: %r -> %r' % (text, route, before, snap(vals)),
                        before, snap(vals))
        return None


OPFORMS = ['xa+xb', 'xb-xa', 'xa*2', '1/xa', 'xa&"x"', 'xa=xb', 'xa<xb', '-xa', '{1,2}+xa', 'SUM(xa,xb)+COUNT(xa)',
           'LARGE(xa,1)', 'MEDIAN(xa)', 'INDEX(xa,1)', 'CONCATENATE(xa,xb)', 'TEXTJOIN(",",TRUE,xa,xb)', 'MATCH(2,xa,0)',
           'AND(xa)', 'xa', 'IF(TRUE,xa,xb)', 'IFERROR(xa,xb)', 'CHOOSE(1,xa,xb)', 'SUMIF(xa,">1")', 'MAXIFS(xa,xa,">0")',
           'AVERAGEIF(xa,">0",xa)', 'SLOPE(xa,xb)', 'MODE(xa)', 'AVEDEV(xa)', 'SWITCH(1,1,xa,xb)',
           'INDEX(xa,2,3)', 'INDEX(xa,2,2)', 'INDEX(xa,1,4)', 'xa*xb', 'xa/xb', 'xb+xa', 'MATCH(2,xa,1)', 'xa&xb', 'SUMIFS(xa,xa,">0")',
           'SUM(xa,xa)', 'CONCATENATE(xa,xa)', 'AND(xa,xa)', 'TEXTJOIN(",",FALSE,xa,xb,xa)', 'COUNT(xa,xb,xa)', 'MAX(xa,xa)+MIN(xa,xa)']


OTHER = 'COUNT({9,8},{7;6})&CONCATENATE("q",{"r","s"})&LARGE({5,6},1)&AVEDEV(1,2,4)'


class ModuleState(Sub):
    name = 'c02.module_state'
    rule = ('for each formula of the alphabet and each documented function at arity 1..2 over a small pool: the fingerprint '
            'of the hotxlfp.* module globals (error singletons\' traceback chains excluded - they are c02.retention\'s '
            'subject) is the same before and after the evaluation: no evaluation writes process-global state; '
            'non-trivial = all')
    stride = True
    min_cases = 100
    min_nontrivial = 100

    def cases(self, tier, unit):
        from .c09 import supported_lists
        for i in range(len(FORMULAS)):
            yield ['f', i]
        names = supported_lists()[0]
        for ni in range(len(names)):
            yield ['fn', ni]

    @staticmethod
    def modfp():
        w = heapfp._Walker()
        for name in sorted(sys.modules):
            if name == 'hotxlfp' or name.startswith('hotxlfp.'):
                d = sys.modules[name].__dict__
                for k in sorted(d):
                    if k.startswith('__') and k.endswith('__'):
                        continue
                    if k.endswith('_parsetab'):
                        continue
                    w.walk('M:%s.%s' % (name, k), d[k])
        out = {}
        for p, v in w.out.items():
            if v.startswith('exc:'):
                v = v.split(' tb=')[0]
            out[p] = v
        return out

    def check(self, env, case):
        with seams():
            w = getattr(env, '_c02w', None)
            if w is None:
                w = env._c02w = World(env)
                w.apply(['on'])
                for t in FORMULAS:
                    w.parse(t)      # warm-up: lazily created leftovers exist before the first measurement
            texts = []
            if case[0] == 'f':
                texts = [FORMULAS[case[1]]]
            else:
                from .c09 import supported_lists
                name = supported_lists()[0][case[1]]
                for args in ('1', '"a"', '{3,1,2}', '1,2', '{3,1,2},1', '"a",{2,1}', '{1,2},">1"'):
                    texts.append('%s(%s)' % (name, args))
            for text in texts:
                w.parse(text)       # first evaluation may create bounded leftovers
                w.parse(OTHER)      # a different evaluation in between: a scratch buffer now holds *its* data
                a = self.modfp()
                w.parse(text)
                b = self.modfp()
                env.evals += 3
                env.nt()
                if a != b:
                    return fail('evaluating %r changed module-level state of hotxlfp: %s' % (text, heapfp.diff(a, b, 6)),
                                None, heapfp.diff(a, b, 6))
        return None



class ProcessState(Sub):
    name = 'c02.process_state'
    rule = ('for each formula of the alphabet, each documented function at arity 1..2 over a small pool, and 12 formulas with '
            'operands of extreme size (integers of 5 000 digits, texts of 100 000 characters, 5 000 items): the interpreter-wide '
            'settings a library has no business changing - recursion limit, int/str digit limit, decimal context, locale, time '
            'zone, environment, warning filters, signal handlers, sys.path, stdout/stderr, thread count, float formatting - '
            'are the same before and after the evaluation; non-trivial = all')
    min_cases = 100
    min_nontrivial = 100
    BIG = ['xbig&"x"', 'LEN(xbig*xbig)', 'xbig+1', 'xbig*xbig', 'LEN(xlong&xlong)', 'UPPER(xlong)', 'SUM(xmany)', 'CONCATENATE(xmany)',
           'xbig=xbig+1', 'TEXTJOIN(",",TRUE,xmany)', 'ABS(xbig)', 'xbig/3']

    def cases(self, tier, unit):
        from .c09 import supported_lists
        for i in range(len(FORMULAS)):
            yield ['f', i]
        for i in range(len(self.BIG)):
            yield ['big', i]
        for ni in range(len(supported_lists()[0])):
            yield ['fn', ni]

    @staticmethod
    def snapshot():
        import decimal
        import locale
        import signal
        import threading
        import time
        import warnings
        return {
            'recursionlimit': sys.getrecursionlimit(),
            'int_max_str_digits': sys.get_int_max_str_digits() if hasattr(sys, 'get_int_max_str_digits') else None,
            'decimal': repr(decimal.getcontext()),
            'locale': repr(locale.setlocale(locale.LC_ALL)),
            'tzname': repr(time.tzname), 'timezone': time.timezone,
            'environ': sorted(os.environ.items()),
            'warnings': len(warnings.filters),
            'signals': [repr(signal.getsignal(s)) for s in (signal.SIGINT, signal.SIGTERM, signal.SIGALRM)],
            'sys.path': list(sys.path), 'stdout': id(sys.stdout), 'stderr': id(sys.stderr),
            'threads': threading.active_count(), 'switchinterval': sys.getswitchinterval(),
            'float_repr': repr(0.1 + 0.2), 'trace': repr(sys.gettrace()), 'excepthook': id(sys.excepthook),
            'displayhook': id(sys.displayhook), 'cwd': os.getcwd(), 'umask': None,
        }

    def check(self, env, case):
        with seams():
            w = getattr(env, '_c02pw', None)
            if w is None:
                w = env._c02pw = World(env)
                big = 7
                for _ in range(14):
                    big = big * big + 3          # ~ 14 000 bits ... grown without int<->str conversion
                big = big ** 2
                w.p.set_variable('xbig', big)
                w.p.set_variable('xlong', 'ab ' * 33334)
                w.p.set_variable('xmany', list(range(5000)))
            if case[0] == 'f':
                texts = [FORMULAS[case[1]]]
            elif case[0] == 'big':
                texts = [self.BIG[case[1]]]
            else:
                from .c09 import supported_lists
                name = supported_lists()[0][case[1]]
                texts = ['%s(%s)' % (name, args) for args in ('1', '"a"', '{3,1,2}', '1,2', 'xbig', 'xlong,1')]
            for text in texts:
                a = self.snapshot()
                w.parse(text)
                b = self.snapshot()
                env.evals += 1
                env.nt()
                if a != b:
                    diff = ['%s: %r -> %r' % (k, str(a[k])[:80], str(b[k])[:80]) for k in a if a[k] != b[k]]
                    return fail('evaluating %r changed interpreter-wide state: %s' % (text, '; '.join(diff[:4])), None, diff[:4])
        return None



class ResultAliasing(Sub):
    name = 'c02.result_aliasing'
    rule = ('for 24 formulas whose value is a list the library builds (array literals in the three separator styles, 2-D '
            'literals, array arithmetic, INDEX of a whole row / column, IF / CHOOSE / IFERROR handing a literal array on): the host '
            'mutates the result in place (reverse, append, clear, rows edited) and evaluates the same text again, on the same '
            'parser and on another one: the second outcome equals the first (a result is the caller\'s to keep, not a view of a '
            'cache); non-trivial = all')
    min_cases = 20
    min_nontrivial = 20
    TEXTS = ['{3,1,2}', '{3;1;2}', '{3\\1\\2}', '{1,,2}', '{5,3;4,1}', '{"b","a"}', '{1,2}+1', '2*{1,2;3,4}', '{1,2}&"x"', 'INDEX({5,3;4,1},0,1)',
             'INDEX({5,3;4,1},2,0)', 'IF(TRUE,{3,1,2},0)', 'CHOOSE(1,{3,1,2},{9})', 'IFERROR({3,1,2},0)', '{3,1,2}', ' {3,1,2}', '{ 3,1,2}',
             '{1}', '{}', 'SWITCH(1,1,{3,1,2})', '{1,2}={1,2}', '-{1,2}', '{TRUE,FALSE}', 'IFS(TRUE,{3,1,2})']

    def cases(self, tier, unit):
        for i in range(len(self.TEXTS)):
            for how in ('reverse', 'append', 'clear', 'rows'):
                yield [i, how]

    def check(self, env, case):
        i, how = case
        text = self.TEXTS[i]
        env.nt()
        p, q = env.new_parser(), env.new_parser()
        r1 = p.parse(text)
        first = env.out(r1)
        env.evals += 3
        v = r1.get('result') if isinstance(r1, dict) else None
        if not isinstance(v, list):
            env.note('not a list')
            return None
        if how == 'reverse':
            v.reverse()
        elif how == 'append':
            v.append('host was here')
        elif how == 'clear':
            del v[:]
        else:
            for row in v:
                if isinstance(row, list):
                    row.append('host was here')
            if v and not isinstance(v[0], list):
                v[0] = 'host was here'
        env.note(how)
        for who, parser in (('the same parser', p), ('another parser', q)):
            again = env.out(parser.parse(text))
            if again != first:
                return fail('%r evaluated to %r; after the host changed that result in place (%s) the same text evaluates to %r on %s' % (
                    text, first, how, again, who), first, again)
        return None



SCALE_FORMULAS = ['#N/A', '1+', 'nosuchvar+A1', 'A1*B2+(', '1/0', 'SUM(A1:B2)+va', 'FBOOM(1)', 'FN(va)&A1', '"abc', 'NOSUCHFN(A1)']


class EvaluationScale(Sub):
    name = 'c02.scale'
    rule = ('size ladder of the number n of evaluations on ONE parser: the same formula n times, for each of 10 '
            'residue-leaving formulas (error literal, syntax errors, unknown names after a cell was read, raising function, '
            'ordinary ones) and for their round-robin mixture, then every probe formula: outcomes equal those on a fresh parser '
            'with the same bindings (a counter, a bounded cache or a table that fills up after N evaluations shows); '
            'non-trivial = all')
    min_cases = 40
    min_nontrivial = 40

    def cases(self, tier, unit):
        for n in scale(tier):
            for k in list(range(len(SCALE_FORMULAS))) + ['mix']:
                yield [n, k]

    def check(self, env, case):
        n, k = case
        env.nt()
        with seams() as seam_ok:
            ref = World(env)
            want = [norm(env, ref.parse(FORMULAS[pi]), seam_ok, FORMULAS[pi]) for pi in range(NPROBE)]
            w = World(env)
            for i in range(n):
                f = SCALE_FORMULAS[i % len(SCALE_FORMULAS)] if k == 'mix' else SCALE_FORMULAS[k]
                w.parse(f)
            env.evals += n + 2 * NPROBE
            for pi in range(NPROBE):
                got = norm(env, w.parse(FORMULAS[pi]), seam_ok, FORMULAS[pi])
                if got != want[pi]:
                    return fail('after %d evaluations of %s on one parser the probe %r gives %r; on a fresh parser with the same '
                                'bindings %r' % (n, 'the 10 formulas in turn' if k == 'mix' else repr(SCALE_FORMULAS[k]), FORMULAS[pi], got,
                                                 want[pi]), want[pi], got)
        return None


CLOCKS = [(2021, 6, 15, 13, 0, 0), (2024, 2, 29, 23, 59, 58), (2025, 12, 31, 0, 0, 1), (2024, 7, 31, 12, 0, 0)]
CLOCK_TEXTS = {
    'full': ['2020-03-05', '5 March 2020', '3/5/2020 10:00', '2020-03-05T10:04:11', '29 Feb 2024', '1999-12-31 23:59:59'],
    'no-day': ['March 2020', '2020-03', 'Feb 2023', 'April 2021', '2019-11', 'Sep 1999 10:30', 'Jan 2021', '2024-01', 'January 2025', 'Jan 2024 08:00'],
    'time-only': ['10:04:11', '10:04', '12:00 PM', '00:00', '23:59:59', '1:30 am'],
    'no-year': ['Jan 5', '5 March', '31 Dec 10:00', 'March', '29 Feb', 'Monday'],
    'two-digit-year': ['1/2/76', '1/2/71', '5 March 25', '12/31/99 23:59', '1/2/30', '1/2/29', '3/4/00'],
}
CLOCK_FORMS = ['DATEVALUE(xt)', 'xt+0', 'DAY(xt)&"/"&MONTH(xt)&"/"&YEAR(xt)&" "&HOUR(xt)&":"&MINUTE(xt)&":"&SECOND(xt)', 'WEEKDAY(xt)', 'xt-1',
               'DAYS(xt,"1990-01-01")', 'EDATE(xt,1)', 'IF(xt>DATE(2020,1,1),"after","before")', 'DATEDIF("1950-01-01",xt,"d")', 'N(xt+1)',
               'TIMEVALUE(xt)', 'xt=xt', 'SUM(xt)', 'xt&""']


class Clock(Sub):
    name = 'c02.clock'
    rule = ('the clock of the host is an environment answer owned by the harness (the `datetime` module as hotxlfp\'s modules and the '
            'date parser see it): 39 texts that spell a date-time completely, without a day (also the first month of the year the clock says), or as a time of day only x 14 formulas '
            'without NOW / TODAY (text as variable and as literal) give the same outcome under 4 clocks (mid-month, 29 February '
            '23:59:58, 31 December, 31 July), and so do text without a year and text with a two-digit year (the date parser is put '
            'into the year of the clock, as if the process had been started then); NOW() itself must follow the clock, else the '
            'seam is void; non-trivial = all')
    min_cases = 20
    min_nontrivial = 20
    min_classes = 3

    def cases(self, tier, unit):
        for kind in sorted(CLOCK_TEXTS):
            for text in CLOCK_TEXTS[kind]:
                for how in ('var', 'lit'):
                    yield [kind, text, how]

    def check(self, env, case):
        from ..core import wall_clock
        kind, text, how = case
        env.nt()
        env.note(kind)
        seen = {}
        for ci, now in enumerate(CLOCKS):
            with wall_clock(now) as c:
                if ci == 0:
                    probe = env.evo('YEAR(NOW())&"-"&MONTH(NOW())&"-"&DAY(TODAY())')
                    if probe != ['v', '2021-6-15']:
                        env.note('clock seam not taken (%r, %r)' % (c.patched, probe))
                        env.cov['clock_seam_void'] = env.cov.get('clock_seam_void', 0) + 1
                        return None
                for f in CLOCK_FORMS:
                    if how == 'var':
                        o = env.evo(f, {'xt': text})
                    else:
                        o = env.evo(f.replace('xt', lit(text)))
                    seen.setdefault(f, []).append(o)
        for f in CLOCK_FORMS:
            outs = seen[f]
            pairs = [(0, 1), (0, 2), (0, 3)]
            for a, b in pairs:
                if outs[a] != outs[b]:
                    return fail('%s with xt = %r (%s) gives %r when the clock of the host says %s and %r when it says %s: the outcome of a '
                                'formula without NOW / TODAY depends on the clock' % (
                                    f, text, 'variable' if how == 'var' else 'literal', outs[a], '%04d-%02d-%02d %02d:%02d:%02d' % CLOCKS[a],
                                    outs[b], '%04d-%02d-%02d %02d:%02d:%02d' % CLOCKS[b]), outs[a], outs[b])
        return None


LOCALE_DIRECTIVES = ('%a', '%A', '%b', '%B', '%p', '%c', '%x', '%X')
TEXT_FORMATS = ['mmmm', 'mmm', 'mmmmm', 'dddd', 'ddd', 'am/pm', 'a/p', 'yyyy-mm-dd', 'd mmmm yyyy', 'ddd, dd mmm yy', 'hh:mm:ss am/pm', 'dd/mm/yyyy hh:mm',
                'mmmm d', 'yy']


class LocaleNames(Sub):
    name = 'c02.locale'
    rule = ('the language of the host process (LC_TIME) is an environment answer like the clock: the date classes that the library\'s '
            'modules see are replaced by subclasses that record every format handed to strftime; 14 date formats of TEXT x 6 dates: '
            'no directive whose output depends on the locale (%a %A %b %B %p %c %x %X) may be used - month and weekday names and '
            'AM/PM come out the same in every locale; the result must be text; non-trivial = all')
    min_cases = 14
    min_nontrivial = 14

    def cases(self, tier, unit):
        for i in range(len(TEXT_FORMATS)):
            yield [i]

    def check(self, env, case):
        import datetime as _dt
        import sys
        import types
        fmt = TEXT_FORMATS[case[0]]
        env.nt()
        seen = []

        class Any(type):
            def __instancecheck__(cls, inst):
                return isinstance(inst, _dt.datetime)

        class SpyDateTime(_dt.datetime, metaclass=Any):
            def strftime(self, f):
                seen.append(f)
                return _dt.datetime.strftime(self, f)
        stub = types.ModuleType('datetime')
        stub.__dict__.update(_dt.__dict__)
        stub.datetime = SpyDateTime
        saved = []
        for name in sorted(sys.modules):
            mod = sys.modules[name]
            if (name == 'hotxlfp' or name.startswith('hotxlfp.')) and mod is not None and getattr(mod, 'datetime', None) is _dt:
                saved.append(mod)
                mod.datetime = stub
        try:
            for d in (_dt.datetime(2020, 3, 1, 9, 5, 7), _dt.datetime(2021, 12, 31, 23, 59, 59), _dt.datetime(1999, 1, 4), _dt.datetime(2024, 2, 29, 12, 0),
                      _dt.datetime(2000, 8, 15, 0, 30), _dt.datetime(2010, 10, 10, 13, 1)):
                del seen[:]
                o = env.evo('TEXT(xd,xf)', {'xd': d, 'xf': fmt})
                bad = sorted(set(x for f in seen for x in LOCALE_DIRECTIVES if x in f.replace('%%', '')))
                if bad:
                    return fail('TEXT(xd,%r) with xd = %s formats through strftime%r: the directives %s print in the language of the host '
                                'process (LC_TIME), so the outcome depends on more than the formula and its bindings' % (
                                    fmt, d.isoformat(), tuple(seen), ', '.join(bad)), [], bad)
                if o[0] != 'v' or not isinstance(o[1], str):
                    return fail('TEXT(xd,%r) with xd = %s gives %r, expected text' % (fmt, d.isoformat(), o), 'text', o)
        finally:
            for mod in saved:
                mod.datetime = _dt
        return None


DECIMAL_FORMULAS = ['PV(0.05,10,-100)', 'PV(0.05,10,-100,50,1)', 'PV(1,10,-100)', 'PV(1e-9,360,-1,0,0)', 'PV(0.1/12,12*30,-1500.5)', 'ROUNDUP(2.675,2)',
                    'ROUNDDOWN(-1.005,2)', 'CEILING(0.7,0.1)', 'FLOOR(-2.5,0.3)', 'QUOTIENT(1,0.1)', 'MOD(1,0.1)', 'MOD(-7.5,2)', 'ROUND(2.675,2)',
                    'AVEDEV(1.1,2.2,3.7)', 'SLOPE({1.5,2.5,4},{1,2,3.5})', 'SUM(0.1,0.2,0.3)', 'AVERAGE(0.1,0.2,0.4)', 'TEXT(1234.5678,"0.00")', 'BASE(255.0,16)',
                    '0.1+0.2', '1/3', '2^0.5', '10^30+1', 'DOLLARDE(1.02,16)', 'VAR.S(1.5,2.5,4.25)', 'STDEV.P(1.5,2.5,4.25)', 'GEOMEAN(1.5,2.5)', 'HARMEAN(1.5,2.5)',
                    'MEDIAN(1.5,2.5)', 'FV(0.05,10,-100)', 'PMT(0.05,10,1000)', 'NPER(0.05,-100,1000)', 'DATE(2020,1,31)+0.5', 'ROUNDUP(xa,1)', 'PV(xa,3,-2)']


def _decimal_contexts():
    import decimal
    c1 = decimal.Context(prec=28)
    c1.traps[decimal.FloatOperation] = True
    c2 = decimal.Context(prec=28)
    c2.traps[decimal.Inexact] = True
    c2.traps[decimal.Rounded] = True
    c3 = decimal.Context(prec=3, rounding=decimal.ROUND_UP)
    c4 = decimal.Context(prec=9, Emax=9, Emin=-9, rounding=decimal.ROUND_DOWN)
    c5 = decimal.Context(prec=28, traps=[])
    return [('FloatOperation trapped', c1), ('Inexact and Rounded trapped', c2), ('3 digits, rounding up', c3), ('exponents within +-9, rounding down', c4),
            ('no signal trapped', c5)]


class DecimalContext(Sub):
    name = 'c02.decimal_context'
    rule = ('the decimal context of the calling thread (precision, rounding, exponent limits, trapped signals - per-thread state that a '
            'host doing its own money arithmetic sets) is an environment answer like the clock and the locale: %d numeric formulas '
            '(PV and the other financial functions, the rounding family, statistics, operators) x 6 contexts (one of them inherited from a changed decimal.DefaultContext) give what they give under '
            'the default context; non-trivial = all' % len(DECIMAL_FORMULAS))
    min_cases = 30
    min_nontrivial = 30

    def cases(self, tier, unit):
        for i in range(len(DECIMAL_FORMULAS)):
            yield [i]

    def check(self, env, case):
        import decimal
        f = DECIMAL_FORMULAS[case[0]]
        env.nt()
        saved = decimal.getcontext()
        try:
            decimal.setcontext(decimal.Context())
            base = env.evo(f, {'xa': 0.125})
            for label, ctx in _decimal_contexts() + [('decimal.DefaultContext changed before the thread started (3 digits, FloatOperation trapped)', None)]:
                keep = (decimal.DefaultContext.prec, decimal.DefaultContext.traps[decimal.FloatOperation])
                if ctx is None:
                    decimal.DefaultContext.prec = 3
                    decimal.DefaultContext.traps[decimal.FloatOperation] = True
                    ctx = decimal.Context()
                decimal.setcontext(ctx)
                try:
                    o = env.evo(f, {'xa': 0.125})
                finally:
                    decimal.DefaultContext.prec, decimal.DefaultContext.traps[decimal.FloatOperation] = keep
                    decimal.setcontext(decimal.Context())
                if o != base:
                    return fail('%s gives %r in a thread whose decimal context is: %s; under the default context it gives %r - the outcome depends '
                                'on more than the formula and its bindings' % (f, o, label, base), base, o)
        finally:
            decimal.setcontext(saved)
        return None


SUBS = [Histories(), Closure(), Retention(), Immutable(), ModuleState(), ProcessState(), ResultAliasing(), EvaluationScale(), Clock(), LocaleNames(), DecimalContext()]
