# -*- coding: utf-8 -*-
"""C05 - lexical conventions (K3): literal fidelity, whitespace, separators, blank slots, arrays,
case-insensitive cell references.  Everything goes through Parser.parse."""
import itertools
import math
from fractions import Fraction

from ..core import Siblings, Sub, fail, isnum, jkey, enc, scale
from .. import formula as F

SEP = '<,>'
STYLES = (',', ';', '\\')

# delivery-channel and host-type differential (core.Env): of every 3 evaluations that bind variables, one is repeated with the
# values handed in by the cell/range listeners, one with the values returned by custom functions and one with every value an
# instance of a trivial subclass of its type (numpy.float64, IntEnum, rich-text str ... are such); outcomes must agree
CHANNELS = 3

BOUNDS = {
    'quick': 'digit strings of length 1..3, int.frac with integer part 0..2 and fraction 1..2 digits, n% for n<1000, a^b '
             'for a,b<=12, 20/40/400-digit families; quoted strings of length <=2 over a 20-character alphabet (incl. full-width forms) + all of '
             'length 3 over 9 of them, both quote styles; 4 whitespace kinds at every token boundary of a 150-formula corpus; '
             '3 separator styles; all blank patterns of 1..6 slots x 3 separators; flat arrays 1..4 and two-row arrays '
             'with rows of 1..3; all case variants of 3 cell labels',
    'thorough': 'digit strings of length 1..4, fractions to 3 digits, strings of length <=3 over the 15-character alphabet, '
                'corpus of ~450 formulas, blank patterns of 1..7 slots',
}
ASSUMPTIONS = ['whitespace inside a numeric literal or between a function name and "(" is not demanded',
               'mixed separator kinds inside one call are not demanded; arrays with >= 3 rows are not demanded',
               'a rejected blank-slot pattern is allowed (only accepted calls are constrained); all-present patterns and '
               'everything else in the corpus must be accepted',
               '0^0 is not demanded; decimal/percent literals: correctly rounded double +- 1 ulp',
               'REC() with no separator may pass zero arguments or one blank']


def ulp_close(x, exact):
    """x is the correctly rounded double of the exact rational."""
    if not isnum(x):
        return False
    ref = exact.numerator / exact.denominator      # correctly rounded by int/int true division
    # a literal spells ONE number: the double nearest to it (a literal put together from separately rounded parts is one unit
    # in the last place off for 43 of the 1000 literals d.dd)
    return x == ref


class Numbers(Sub):
    name = 'c05.numbers'
    rule = ('every digit string / int.frac / n% / a^b literal of the bound, alone and embedded (1+X, -X, SUM(X,0)); '
            'non-trivial = literal with a leading zero, a fraction, % or ^')
    min_cases = 100
    min_nontrivial = 100

    def cases(self, tier, unit):
        maxd = 3 if tier == 'quick' else 4
        maxf = 2 if tier == 'quick' else 3
        for n in range(1, maxd + 1):
            for first in '0123456789':
                yield ['int', n, first]
        for ni in range(0, 3):
            for nf in range(1, maxf + 1):
                for first in '0123456789':
                    yield ['dec', ni, nf, first]
        for h in range(0, 10):
            yield ['pct', h]
        for a in range(0, 13):
            yield ['pow', a]
        for a in (2, 3, 7, 10, 17, 99):
            yield ['bigpow', a]
        yield ['long']

    def one(self, env, text, exact, kind):
        """exact: Fraction the literal spells; kind: 'int' exact integer, 'flt' +-1ulp"""
        if kind != 'int' or (len(text) > 1 and text[0] == '0'):
            env.nt()
        narrow = ['one', text, [exact.numerator, exact.denominator], kind]
        for form, adj in (('%s', lambda v: v), ('1+%s', lambda v: v + 1), ('-%s', lambda v: -v),
                          ('SUM(%s,0)', lambda v: v), ('%s*1', lambda v: v)):
            out = env.evo(form % text)
            want = adj(exact)
            if out[0] == 'v' and isinstance(out[1], dict) and '$int' in out[1]:
                out = ['v', env.dec(out[1])]
            ok = out[0] == 'v' and isnum(out[1])
            if ok:
                if kind == 'int':
                    ok = isinstance(out[1], int) and out[1] == want
                    if not ok and isinstance(out[1], float):
                        ok = Fraction(out[1]) == want     # an exactly equal float is the same number
                elif kind == 'pct' and form != '1+%s':
                    # n% spells n/100: the correctly rounded quotient (n*0.01 is one ulp off for 57%, 35%, ...)
                    ok = out[1] == want.numerator / want.denominator
                elif form == '1+%s':
                    ok = abs(out[1] - float(want)) <= 2 * math.ulp(float(want))      # one more rounding, of the sum
                else:
                    ok = ulp_close(out[1], want)        # the literal itself (negated, summed with 0, times 1): the nearest double
            if not ok:
                return fail('%r evaluates to %r, the literal spells %s' % (form % text, out, want), str(want), enc(out),
                            case=narrow)
        return None

    def check(self, env, case):
        if case[0] == 'one':
            return self.one(env, case[1], Fraction(case[2][0], case[2][1]), case[3])
        out = []
        if case[0] == 'int':
            n, first = case[1], case[2]
            for rest in itertools.product('0123456789', repeat=n - 1):
                t = first + ''.join(rest)
                f = self.one(env, t, Fraction(int(t)), 'int')
                if f:
                    out.append(f)
        elif case[0] == 'dec':
            ni, nf, first = case[1:]
            ints = [''] if ni == 0 else [''.join(x) for x in itertools.product('0123456789', repeat=ni)]
            for ip in ints:
                for rest in itertools.product('0123456789', repeat=nf - 1):
                    fp = first + ''.join(rest)
                    t = ip + '.' + fp
                    f = self.one(env, t, Fraction(int(ip or '0')) + Fraction(int(fp), 10 ** len(fp)), 'flt')
                    if f:
                        out.append(f)
        elif case[0] == 'pct':
            for n in range(case[1] * 100, case[1] * 100 + 100):
                f = self.one(env, '%d%%' % n, Fraction(n, 100), 'pct')
                if f:
                    out.append(f)
            if case[1] == 0:
                for t in ('007%', '00%', '100%', '2500%'):
                    f = self.one(env, t, Fraction(int(t[:-1]), 100), 'pct')
                    if f:
                        out.append(f)
        elif case[0] == 'pow':
            a = case[1]
            for b in range(0, 13):
                if a == 0 and b == 0:
                    continue
                f = self.one(env, '%d^%d' % (a, b), Fraction(a ** b), 'int')
                if f:
                    out.append(f)
        elif case[0] == 'bigpow':
            # integer^integer beyond 2^53: the literal spells an exact integer, not its nearest double
            a = case[1]
            for b in range(13, 61):
                f = self.one(env, '%d^%d' % (a, b), Fraction(a ** b), 'int')
                if f:
                    out.append(f)
            # ... and beyond the largest double, like the digit literal of the same number (2^1024, 10^342, 3^1023 ...)
            if a >= 2:
                for b in (341, 342, 512, 1023, 1024, 1025, 2000):
                    f = self.one(env, '%d^%d' % (a, b), Fraction(a ** b), 'int')
                    if f:
                        out.append(f)
        else:
            for nd in (20, 40, 400):
                for pat in ('1234567890', '9', '10', '7000000000'):
                    t = (pat * (nd // len(pat) + 1))[:nd]
                    f = self.one(env, t, Fraction(int(t)), 'int')
                    if f:
                        out.append(f)
                    fr = '0.' + t
                    f = self.one(env, fr, Fraction(int(t), 10 ** nd), 'flt')
                    if f:
                        out.append(f)
                    f = self.one(env, '12.' + t, 12 + Fraction(int(t), 10 ** nd), 'flt')
                    if f:
                        out.append(f)
        return out[:6]


ALPHA15 = ['a', 'Z', '7', ' ', '\t', '\n', 'Q', '\\', ',', '(', '#', 'é', '漢', '\U0001F600', '́',
           '\uff21', '\uff0c', '\u3000', '\uff02', '\u00a0']     # full-width A , ideographic space, full-width quote, NBSP
# 'Q' stands for "the other quote character"; NUL is added for length-1 strings
ALPHA7 = ['a', ' ', 'Q', '\\', '#', '漢', '\n', '\uff21', '\uff02']


class Strings(Sub):
    name = 'c05.strings'
    rule = ('every string of the bound (never containing its own delimiter) as a quoted literal in both quote styles, '
            'alone and under LEN() / &; non-trivial = string with a non-alphanumeric character')
    min_cases = 30
    min_nontrivial = 100

    def cases(self, tier, unit):
        yield ['blk', 0, '', 15]
        yield ['blk', 1, '', 15]
        for a in ALPHA15:
            yield ['blk', 2, a, 15]
        if tier == 'quick':
            for a in ALPHA7:
                for b in ALPHA7:
                    yield ['blk', 3, a + b, 7]
        else:
            for a in ALPHA15:
                for b in ALPHA15:
                    yield ['blk', 3, a + b, 15]
        yield ['blk', 1, '\x00', 15]

    def one(self, env, s, q):
        other = "'" if q == '"' else '"'
        content = s.replace('Q', other)
        narrow = ['one', s, q]
        if not content.isalnum():
            env.nt()
        lit = q + content + q
        out = env.evo(lit)
        if out != ['v', content]:
            return fail('literal %r evaluates to %r, expected exactly %r' % (lit, out, content), content, out, case=narrow)
        out = env.evo('LEN(%s)' % lit)
        if out != ['v', len(content)]:
            return fail('LEN(%r) = %r, expected %d' % (lit, out, len(content)), len(content), out, case=narrow)
        out = env.evo('%s&"|"&%s' % (lit, lit))
        if out != ['v', content + '|' + content]:
            return fail('%r&"|"&%r = %r' % (lit, lit, out), content + '|' + content, out, case=narrow)
        return None

    def check(self, env, case):
        if case[0] == 'one':
            return self.one(env, case[1], case[2])
        _, n, prefix, asize = case
        alpha = ALPHA15 if asize == 15 else ALPHA7
        out = []
        rest = n - len(prefix) if prefix != '\x00' else 0
        for t in itertools.product(alpha, repeat=max(rest, 0)):
            s = prefix + ''.join(t)
            for q in ('"', "'"):
                f = self.one(env, s, q)
                if f:
                    out.append(f)
        return out


# --------------------------------------------------------------------------
# token corpus

def tree_tokens(t):
    """token list of the minimal rendering of an expression tree"""
    k = t[0]
    if k == 'u':
        inner = tree_tokens(t[1])
        if t[1][0] == 'b':
            inner = ['('] + inner + [')']
        return ['-'] + inner
    if k == 'b':
        s = F.render_min(t)
        # re-tokenise structurally instead of parsing the string
        op = t[1]
        lv = F.LEVEL[op]
        l, r = tree_tokens(t[2]), tree_tokens(t[3])
        ll, rl = F._level(t[2]), F._level(t[3])
        lpar = ll < lv or (lv == 1 and ll == 1)
        rpar = rl <= lv
        if t[2][0] == 'u':
            lpar = False
        if lpar:
            l = ['('] + l + [')']
        if rpar:
            r = ['('] + r + [')']
        toks = l + [op] + r
        assert ''.join(toks) == s, (toks, s)
        return toks
    if k == 'f':
        # 'SUM(3,0)' -> 'SUM(' '3' SEP '0' ')'
        name, rest = t[1].split('(', 1)
        args = rest[:-1].split(',')
        toks = [name + '(']
        for i, a in enumerate(args):
            if i:
                toks.append(SEP)
            toks.append(a)
        return toks + [')']
    return [F.atom_text(t)]


HAND = [
    ['SUM(', '1', SEP, '2', SEP, '3', ')'],
    ['SUM(', 'A1', ':', 'B2', ')'],
    ['SUM(', '$A$1', ':', 'B$2', SEP, '4', ')'],
    ['IF(', '1', '<', '2', SEP, '"y es"', SEP, '"n,o"', ')'],
    ['IF(', 'va', '>=', 'vb', SEP, 'va', '-', 'vb', SEP, 'vb', '-', 'va', ')'],
    ['MAX(', '{', '1', SEP, '5', SEP, '3', '}', ')'],
    ['{', '1', SEP, '2', '}'],
    ['{', '1', SEP, '2', SEP, '3', SEP, '4', '}'],
    ['{', '1', ',', '2', ';', '3', ',', '4', '}'],
    ['{', '1', '\\', '2', ';', '3', '\\', '4', '}'],
    ['INDEX(', '{', '1', ',', '2', ';', '3', ',', '4', '}', SEP, '2', SEP, '1', ')'],
    ['"a b"', '&', '" c"'],
    ['"a"', '&', '1', '&', "'b'"],
    ['1', '<>', '2'],
    ['1', '<=', '2'],
    ['va', '>=', '2.5'],
    ['-', 'va'],
    ['-', '(', 'va', '+', '1', ')'],
    ['-', '-', '3'],
    ['2', '*', '-', '3'],
    ['50%', '*', '4'],
    ['2^3', '+', '1'],
    ['.5', '+', '.25'],
    ['007', '+', '1.50'],
    ['TRUE'],
    ['NOT(', 'FALSE', ')'],
    ['PI(', ')'],
    ['ROUND(', 'PI(', ')', SEP, '2', ')'],
    ['LEN(', '"  "', ')'],
    ['LEFT(', '"hello world"', SEP, '3', ')'],
    ['CONCATENATE(', '"a"', SEP, '" "', SEP, '"b"', ')'],
    ['A1'],
    ['$B$2', '*', '2'],
    ['C$3', '+', '$D4'],
    ['A1', ':', 'A3'],
    ['COUNT(', 'A1', ':', 'C3', SEP, 'B2', ')'],
    ['(', '1', '+', '2', ')', '*', '(', '3', '-', '4', ')'],
    ['(', '(', 'va', ')', ')'],
    ['1', '=', '1'],
    ['"x"', '=', '"x"'],
    ['REC(', '1', SEP, '"a"', SEP, 'va', SEP, 'A1', ')'],
    ['REC(', 'REC(', '1', SEP, '2', ')', SEP, '{', '3', SEP, '4', '}', ')'],
    ['REC(', '1', SEP, SEP, '3', ')'],
    ['REC(', '1', SEP, '2', SEP, ')'],
    ['REC(', SEP, '2', ')'],
    ['AND(', '1', '<', '2', SEP, '2', '<', '3', ')'],
    ['SUM(', '1', SEP, '2', ')', '/', 'SUM(', '3', SEP, '4', ')'],
    ['#N/A'],
    ['1', '/', '0'],
    ['nosuchvar', '+', '1'],
    ['IFERROR(', '1', '/', '0', SEP, '"err"', ')'],
    ['ISBLANK(', 'A9', ')'],
    ['DATE(', '2019', SEP, '11', SEP, '20', ')', '+', '1'],
    ['YEAR(', '"2019-11-20"', ')'],
    ['va', '&', 'vs'],
    ['vs', '=', '"text"'],
    # arguments whose *values* are separator characters (the grammar actions once compared values with ',')
    ['REC(', '"a"', SEP, '","', SEP, '"b"', ')'],
    ['REC(', '","', SEP, '";"', ')'],
    ['REC(', '1', SEP, '";"', SEP, '","', SEP, '2', ')'],
    ['{', '","', SEP, '";"', '}'],
    ['CONCATENATE(', '"x"', SEP, '","', SEP, '";"', ')'],
    ['REC(', 'vc', SEP, 'vsc', SEP, 'vc', ')'],
]

VARS = {'va': 7, 'vb': 4, 'vs': 'text', 'vc': ',', 'vsc': ';'}
for _i, _n in enumerate(F.VARNAMES):
    VARS.setdefault(_n, F.PRIMES[_i])
VARS['va'] = 7
CELLV = {'A1': 2, 'B2': 3, 'C3': 5, 'D4': 7, 'E5': 11, 'A2': 1, 'A3': 4, 'B1': 6, 'A1:B2': [[2, 6], [1, 3]],
         'A1:A3': [2, 1, 4], 'A1:C3': [[2, 6, 0], [1, 3, 0], [4, 0, 5]]}


def rec_fn(*args):
    return ['REC'] + list(args)


RECD_DEFAULTS = [11.5, 'dflt', True, 0, -1, 'x', 2, 3]


def recd_fn(a=11.5, b='dflt', c=True, d=0, e=-1, f='x', g=2, h=3):
    """a host function with default parameter values: a blank slot must still arrive as blank, not as the default"""
    return ['REC', a, b, c, d, e, f, g, h]


def corpus(tier):
    out = [list(x) for x in HAND]
    maxn = 2
    kinds = [('int', 'var', 'cell'), ('dec', 'call', 'int'), ('var', 'dot', 'call'), ('cell', 'int', 'dec')]
    ops_all = F.ARITH + ('<', '>=', '<>', '=')
    count = 0
    limit = 95 if tier == 'quick' else 400
    for n in range(1, maxn + 1):
        for si, sh in enumerate(F.shapes(n)):
            for oi, ops in enumerate(itertools.product(ops_all, repeat=n)):
                ncmp = sum(1 for o in ops if o in F.CMP)
                if ncmp > 1:
                    continue
                un = set() if (oi % 3) else {(oi // 3) % F.count_nodes(sh)}
                t = F.build(sh, ops, kinds[(oi + si) % 4], un)
                # a comparison under unary minus / arithmetic must be parenthesised; keep only trees the
                # minimal renderer handles with one comparison per region
                try:
                    toks = tree_tokens(t)
                except AssertionError:
                    continue
                out.append(toks)
                count += 1
                if count >= limit:
                    return out
    return out


def eval_tokens(env, toks, sep=','):
    text = ''.join(sep if t == SEP else t for t in toks)
    return text, env.evo(text, vars=dict(VARS), funcs={'REC': rec_fn}, cells=CELLV)


class Whitespace(Sub):
    name = 'c05.whitespace'
    rule = ('for every corpus formula: each of space, tab, newline, two spaces inserted at each token boundary in turn, at '
            'all boundaries at once and leading/trailing (never between NAME and "(" - they are one token - nor inside a '
            'literal); outcome must equal the canonical rendering; non-trivial = formula with >= 3 tokens')
    min_cases = 100
    min_nontrivial = 50
    WS = (' ', '\t', '\n', '  ')

    def cases(self, tier, unit):
        for i, toks in enumerate(corpus(tier)):
            yield ['f', i, toks]

    def check(self, env, case):
        toks = case[2]
        text, base = eval_tokens(env, toks)
        env.note(base[0] + (':' + str(base[1]) if base[0] == 'e' else ''))
        if len(toks) >= 3:
            env.nt()
        variants = []
        for ws in self.WS:
            for pos in range(len(toks) + 1):
                variants.append(toks[:pos] + [ws] + toks[pos:])
            allb = [ws]
            for t in toks:
                allb += [t, ws]
            variants.append(allb)
        seen = set()
        for v in variants:
            t2, out = eval_tokens(env, v)
            if t2 in seen:
                continue
            seen.add(t2)
            if out != base:
                return fail('%r evaluates to %r but %r (same tokens, different whitespace) to %r' % (text, base, t2, out),
                            base, out)
        return None


class Accepted(Sub):
    name = 'c05.corpus_accepted'
    rule = ('every corpus formula must be accepted (no #ERROR!) in its canonical spelling, and each of the three separator '
            'styles must give the same outcome; non-trivial = formula with a separator')
    min_cases = 100
    min_nontrivial = 20

    def cases(self, tier, unit):
        for i, toks in enumerate(corpus(tier)):
            yield ['f', i, toks]

    def check(self, env, case):
        toks = case[2]
        text, base = eval_tokens(env, toks)
        if base == ['e', '#ERROR!'] or base[0] in ('x', 'bad'):
            return fail('well-formed formula %r is rejected: %r' % (text, base), 'accepted', base)
        if SEP in toks:
            env.nt()
            for sep in STYLES[1:]:
                t2, out = eval_tokens(env, toks, sep)
                if out != base:
                    return fail('%r gives %r but %r (separator %r) gives %r' % (text, base, t2, sep, out), base, out)
        return None


class Blanks(Sub):
    name = 'c05.blank_slots'
    rule = ('all present/absent patterns of 1..k argument slots x 3 separators through a recording custom function and '
            'through an array literal: if accepted, exactly one argument per slot with blank for omitted slots; patterns '
            'with all slots present must be accepted; non-trivial = pattern with an omitted slot that is accepted')
    min_cases = 300
    min_nontrivial = 100
    min_classes = 2

    def cases(self, tier, unit):
        maxk = 6 if tier == 'quick' else 7
        for k in range(1, maxk + 1):
            for pat in itertools.product((1, 0), repeat=k):
                for sep in STYLES:
                    yield [list(pat), sep]

    def check(self, env, case):
        pat, sep = case
        k = len(pat)
        slots = [str(10 + i) if p else '' for i, p in enumerate(pat)]
        want = [10 + i if p else None for i, p in enumerate(pat)]
        text = 'REC(' + sep.join(slots) + ')'
        out = env.evo(text, funcs={'REC': rec_fn})
        res = []
        if all(pat):
            if out != ['v', ['REC'] + want]:
                res.append(fail('%r (all slots present) gives %r' % (text, out), ['REC'] + want, out))
        elif out[0] == 'v':
            got = out[1]
            if k == 1 and got in (['REC'], ['REC', None]):
                env.note('REC() accepted')
            elif got != ['REC'] + want:
                res.append(fail('%r is accepted but passes %r; one argument per slot would be %r' % (text, got, want),
                                ['REC'] + want, out))
            else:
                env.nt()
                env.note('accepted-with-blank')
        elif out[0] == 'e':
            env.note('rejected')
        else:
            res.append(fail('%r -> %r' % (text, out)))
        # the same call on a host function whose parameters have defaults: an omitted slot is a blank argument, only
        # the slots that are not there at all take the defaults
        if out[0] == 'v' and not res and not (k == 1 and not pat[0]):
            dtext = 'RECD(' + sep.join(slots) + ')'
            dout = env.evo(dtext, funcs={'RECD': recd_fn})
            dwant = ['REC'] + want + RECD_DEFAULTS[k:]
            if dout != ['v', dwant]:
                res.append(fail('%r passes %r to a host function with default parameter values %r; one argument per slot '
                                '(blank for an omitted one) would be %r' % (dtext, dout, RECD_DEFAULTS, dwant), dwant, dout))
        # same pattern as an array literal
        if k >= 1:
            atext = '{' + sep.join(slots) + '}'
            aout = env.evo(atext)
            if all(pat):
                if aout != ['v', want]:
                    res.append(fail('array %r gives %r, expected the flat list %r' % (atext, aout, want), want, aout))
            elif aout[0] == 'v' and aout[1] != want and not (k == 1):
                res.append(fail('array %r is accepted but is %r; one item per slot would be %r' % (atext, aout[1], want),
                                want, aout))
        return res


class Arrays(Sub):
    name = 'c05.arrays'
    rule = ('flat arrays of length 1..4 in each separator style are flat lists; {row;row} with comma- or backslash-'
            'separated rows of length 1..3 (at least one row of length >= 2) is the list of the two rows; 3..6 rows of 2 or 3 items are the list '
            'of those rows; two and three rows of width 2..3 with every present / absent pattern of the slots of each row: if accepted, one item per '
            'slot in each row; non-trivial = all')
    min_cases = 20
    min_nontrivial = 20

    def cases(self, tier, unit):
        for n in range(1, 5):
            for sep in STYLES:
                yield ['flat', n, sep]
        for a in range(1, 4):
            for b in range(1, 4):
                for sep in (',', '\\'):
                    yield ['rows', a, b, sep]
        for nrows in range(3, 7):
            for width in (2, 3):
                for sep in (',', '\\'):
                    yield ['nrows', nrows, width, sep]
        # empty slots inside the rows of a two- or three-row array: every present / absent pattern of each row
        for nrows in (2, 3):
            for width in (2, 3):
                for pats in itertools.product(list(itertools.product((1, 0), repeat=width)), repeat=nrows):
                    if all(all(p) for p in pats):
                        continue
                    for sep in (',', '\\'):
                        yield ['rowblanks', [list(p) for p in pats], sep]

    def check(self, env, case):
        env.nt()
        items = ['1', '"b"', '3.5', 'TRUE', '-2', '6']
        vals = [1, 'b', 3.5, True, -2, 6]
        if case[0] == 'rowblanks':
            pats, sep = case[1:]
            k = 0
            rows_t, want = [], []
            for p in pats:
                rt, rv = [], []
                for present in p:
                    rt.append(str(10 + k) if present else '')
                    rv.append(10 + k if present else None)
                    k += 1
                rows_t.append(sep.join(rt))
                want.append(rv)
            text = '{' + ';'.join(rows_t) + '}'
            out = env.evo(text)
            if out[0] == 'e':
                env.note('rejected')
                return None
            env.note('accepted-with-blank')
            if out != ['v', want]:
                return fail('array %r is accepted but is %r; one item per slot (blank for an omitted one) in each row would be %r' % (text, out[1], want), want, out)
            return None
        if case[0] == 'flat':
            n, sep = case[1], case[2]
            text = '{' + sep.join(items[:n]) + '}'
            out = env.evo(text)
            if out != ['v', vals[:n]]:
                return fail('%r gives %r, expected the flat list %r' % (text, out, vals[:n]), vals[:n], out)
            out = env.evo('COUNT(%s)' % text)
            if out != ['v', n]:
                return fail('COUNT(%s) = %r' % (text, out), n, out)
            return None
        if case[0] == 'nrows':
            nrows, width, sep = case[1:]
            cells = [[(items[(r + c) % 6], vals[(r + c) % 6]) for c in range(width)] for r in range(nrows)]
            text = '{' + ';'.join(sep.join(t for t, _ in row) for row in cells) + '}'
            want = [[v for _, v in row] for row in cells]
            out = env.evo(text)
            if out != ['v', want]:
                return fail('%r gives %r, expected the %d rows %r' % (text, out, nrows, want), want, out)
            return None
        a, b, sep = case[1:]
        r1, r2 = items[:a], items[a:a + b]
        text = '{' + sep.join(r1) + ';' + sep.join(r2) + '}'
        out = env.evo(text)
        want = [vals[:a], vals[a:a + b]]
        if a == 1 and b == 1:
            want_alt = vals[:2]
            if out not in (['v', want], ['v', want_alt]):
                return fail('%r gives %r' % (text, out), want_alt, out)
            return None
        if out[0] == 'e':
            env.note('two-row array rejected (%d,%d)' % (a, b))
            if a >= 2 and b >= 2:
                return fail('two-row array %r is rejected: %r' % (text, out), want, out)
            return None
        if out != ['v', want]:
            return fail('%r gives %r, expected the two rows %r' % (text, out, want), want, out)
        return None


def case_variants(label):
    letters = [i for i, ch in enumerate(label) if ch.isalpha()]
    for mask in itertools.product((0, 1), repeat=len(letters)):
        s = list(label)
        for m, i in zip(mask, letters):
            s[i] = s[i].upper() if m else s[i].lower()
        yield ''.join(s)


class CellCase(Sub):
    name = 'c05.cell_case'
    rule = ('all upper/lower-case variants of ab12, $Ab$3, a$7, xfd1048576 and of a range: identical listener events '
            '(label, row, column, absolute flags) and identical value; non-trivial = variant with a lower-case letter')
    min_cases = 10
    min_nontrivial = 8

    def cases(self, tier, unit):
        for lab in ('ab12', '$Ab$3', 'a$7', 'xfd1048576', '$zz$9'):
            for v in case_variants(lab):
                yield ['cell', lab, v]
        for v in case_variants('b2:c3'):
            yield ['range', 'b2:c3', v]

    def observe(self, env, text, shadow=()):
        p = env.new_parser()
        for name in shadow:     # variables whose names are shaped like the cell: the reference stays a cell reference
            p.set_variable(name, 'variable %s' % name)
        ev = []

        def oncell(cell, setter):
            ev.append(['cell', cell.label, cell.row.index, cell.col.index, cell.row.is_absolute, cell.col.is_absolute,
                       cell.row.label, cell.col.label])
            setter(42)

        def onrange(s, e, setter):
            ev.append(['range', s.label, s.row.index, s.col.index, e.label, e.row.index, e.col.index,
                       s.row.label, s.col.label, e.row.label, e.col.label])
            setter([[1, 2], [3, 4]])
        p.on('callCellValue', oncell)
        p.on('callRangeValue', onrange)
        env.evals += 1
        try:
            r = p.parse(text)
        except Exception as e:
            r = ('raised', e)
        return ev, env.out(r)

    def check(self, env, case):
        kind, canon, variant = case
        if variant != variant.upper():
            env.nt()
        formula = '%s' if kind == 'cell' else 'SUM(%s)'
        base = self.observe(env, formula % canon.upper())
        got = self.observe(env, formula % variant)
        if base[1][0] != 'v' or not base[0]:
            return fail('canonical reference %r not evaluated: %r' % (canon.upper(), base))
        if got != base:
            return fail('%r gives events/outcome %r but %r gives %r' % (variant, got, canon.upper(), base), base, got)
        names = sorted(set(n for t in (variant, canon) for part in t.replace('$', '').split(':')
                           for n in (part, part.upper(), part.lower())))
        for text in (variant, canon.upper()):
            sh = self.observe(env, formula % text, shadow=names)
            if sh != base:
                return fail('%r on a parser that also has variables named %r gives events/outcome %r; without them %r '
                            '(a reference shaped like a cell is a cell reference in either case)' % (
                                formula % text, names, sh, base), base, sh)
        return None



class LexScale(Sub):
    name = 'c05.scale'
    rule = ('size ladder n: an integer literal of n digits (n <= 4096; two digit patterns) and a decimal with n fraction digits '
            'evaluate to exactly the number spelled; a quoted literal of n characters (ASCII, quotes of the other kind, spaces, a '
            'non-ASCII letter) to exactly those characters; n blanks between tokens and n arguments in each separator style change '
            'nothing; a call with n slots, every other one omitted, passes n arguments; an array literal of n items is that flat '
            'list; non-trivial = all')
    min_cases = 40
    min_nontrivial = 40

    def cases(self, tier, unit):
        for n in scale(tier, 4096) + [4300, 4301, 5000]:      # 4301: where the interpreter refuses int(text)
            yield [n]

    def check(self, env, case):
        from fractions import Fraction
        n = case[0]
        env.nt()
        out = []

        def bad(msg, want, got):
            out.append(fail('size %d: %s' % (n, msg), repr(want)[:200], repr(got)[:200]))
        def big_int(text):      # int() refuses more than 4300 digits at once
            v = 0
            for i in range(0, len(text), 4000):
                chunk = text[i:i + 4000]
                v = v * 10 ** len(chunk) + int(chunk)
            return v
        for pat in ('1234567890', '9'):
            digits = (pat * (n // len(pat) + 1))[:n]
            r = env.ev(digits)
            v = r.get('result') if isinstance(r, dict) and r.get('error') is None else None
            want = big_int(digits)
            if isinstance(v, bool) or not isinstance(v, (int, float)) or (
                    v != want if isinstance(v, int) else (n <= 15 or n > 300 or float(want) != v)):
                shown = ('an integer of %d bits' % v.bit_length()) if isinstance(v, int) and not isinstance(v, bool) else repr(env.out(r) if not isinstance(v, int) else v)[:60]
                bad('the %d-digit literal %s... evaluates to %s, not to the number it spells' % (n, digits[:12], shown), 'the %d-digit integer' % n, shown)
            if n <= 320 and pat == '9':
                # a small number is a long fraction (there is no exponent notation): 0.00...01 with n fraction digits is 10^-n
                for f in ('0.' + '0' * (n - 1) + '1', '.' + '0' * (n - 1) + '25'):
                    o = env.evo(f)
                    w = Fraction(f if f[0] != '.' else '0' + f)
                    if o[0] != 'v' or not isinstance(o[1], float) or abs(Fraction(o[1]) - w) > max(w / 2 ** 52, Fraction(5e-324)):
                        bad('the literal %s...%s with %d zeros after the point evaluates to %s, expected %r' % (f[:6], f[-3:], n - 1, repr(o)[:60], float(w)), float(w), o)
            if n <= 300:
                f = '0.' + digits
                o = env.evo(f)
                if o[0] != 'v' or not isinstance(o[1], float) or abs(Fraction(o[1]) - Fraction(f)) > Fraction(f) / 2 ** 52:
                    bad('the literal 0.%s... with %d fraction digits evaluates to %s' % (digits[:12], n, repr(o)[:60]), float(Fraction(f)), o)
        ALPHA9 = "ab'c d\u00e9,;"
        for body in (''.join(ALPHA9[i % len(ALPHA9)] for i in range(n)), ' ' * n):
            o = env.evo('"%s"' % body)
            if o != ['v', body]:
                bad('a quoted literal of %d characters evaluates to %s' % (n, repr(o)[:80]), body, o)
            o = env.evo('LEN("%s")&"|"&RIGHT("%s",1)' % (body, body))
            if o != ['v', '%d|%s' % (n, body[-1:])]:
                bad('LEN and RIGHT of a quoted literal of %d characters give %s' % (n, repr(o)[:80]), '%d|%s' % (n, body[-1:]), o)
        sp = ' ' * n
        o = env.evo('1%s+%s2%s*%s3' % (sp, sp, sp, sp))
        if o != ['v', 7]:
            bad('1 + 2 * 3 with %d blanks between the tokens gives %r' % (n, o), 7, o)
        o = env.evo('REC(%s1%s,%s2%s)' % (sp, sp, sp, sp), funcs={'REC': rec_fn})
        if o != ['v', ['REC', 1, 2]]:
            bad('REC( 1 , 2 ) with %d blanks around the arguments gives %s' % (n, repr(o)[:80]), ['REC', 1, 2], o)
        if n <= 1025:
            for sep in STYLES:
                args = sep.join(str(i) for i in range(n))
                o = env.evo('REC(%s)' % args, funcs={'REC': rec_fn})
                if o != ['v', ['REC'] + list(range(n))]:
                    bad('a call with %d arguments separated by %r passes %s' % (n, sep, repr(o)[:80]), n, o)
                o = env.evo('{%s}' % args)
                if o != ['v', list(range(n))]:
                    bad('an array literal of %d items separated by %r is %s' % (n, sep, repr(o)[:80]), n, o)
                if n >= 3:
                    slots = sep.join(str(i) if i % 2 == 0 else '' for i in range(n))
                    o = env.evo('REC(%s)' % slots, funcs={'REC': rec_fn})
                    want = ['REC'] + [i if i % 2 == 0 else None for i in range(n)]
                    if o[0] == 'v' and o[1] != want:
                        bad('a call with %d slots, every other one omitted (%r), is accepted and passes %s' % (n, sep, repr(o)[:80]), want[:8], o)
        return out[:3]


NEEDS_ZYGOTE = True


class PowerSiblings(Siblings):
    """the literal a^b shares its arithmetic with POWER: POWER with equal-but-float operands before (or after) the literal, in one
    pristine process, must not change what the literal evaluates to"""
    name = 'c05.siblings'
    GROUPS = [
        (['POWER({0}.0,{1})', 'POWER({0},{1}.0)', 'POWER({0}/1,{1})', '{0}^{1}', 'POWER({0},{1})', '{0}^{1}+0', '1*{0}^{1}', '{0}^{1}&""'],
         [(3, 40), (13, 20), (17, 18), (2, 60), (7, 3), (10, 15), (99, 9)]),
        (['{0}%', '{0}%+0', '{0}/100', '{0}.0/100', 'ROUND({0}%,4)', '{0}.{1}', '{0}.{1}+0', '.{1}', '0.{1}*1'],
         [(35, 5), (57, 25), (7, 125), (100, 0), (1, 1)]),
    ]


SUBS = [Numbers(), Strings(), Whitespace(), Accepted(), Blanks(), Arrays(), CellCase(), LexScale(), PowerSiblings()]
