# -*- coding: utf-8 -*-
"""CLI / runner: shards the finite case space of every sub-check of a property over
worker processes, applies the oracle to every case, and speaks the exit protocol.

exit 0  property held on everything explored (KNOWN-FINDING lines possible)
exit 1  + 'VIOLATION property=<id> replay=<path>' for violations not in known_findings.json
exit 2  harness error (vacuity guard, worker crash, non-reproducible verdict, wall guard)
"""
import hashlib
import importlib
import json
import multiprocessing
import os
import random
import signal
import subprocess
import sys
import time
import traceback

HERE = os.path.dirname(os.path.dirname(os.path.abspath(__file__)))
OUT = os.environ.get('HXVERIF_OUT') or HERE    # evidence/ and replays/ (redirected when checking a scratch tree)
MAX_STORED_FAILS = 60        # per work item
MAX_REPORTED = 25            # VIOLATION lines printed
WALL_GUARD_S = int(os.environ.get('HXVERIF_WALL_GUARD', '300'))

_ENV = None
_SUBS = None


class CaseTimeout(BaseException):
    pass


def _alarm(signum, frame):
    raise CaseTimeout()


def _load(prop):
    from . import snapshot
    snapshot.install()
    mod = importlib.import_module('hxverif.props.%s' % prop.lower())
    if getattr(mod, 'NEEDS_ZYGOTE', False):
        from . import zygote
        zygote.start()          # forked now: the snapshot is installed, nothing has been evaluated yet
    return mod


def _get_env():
    global _ENV
    if _ENV is None:
        from .core import Env
        _ENV = Env()
    return _ENV


def _check(sub, env, case):
    """sub.check, with a disagreement between delivery channels (core.ChannelDiff, raised inside Env.ev) as a failure"""
    from .core import ChannelDiff
    try:
        return sub.check(env, case)
    except ChannelDiff as e:
        return [e.failure]


def _norm_fail(sub, case, r):
    out = []
    if r is None:
        return out
    if isinstance(r, (str, dict)):
        r = [r]
    for x in r:
        if isinstance(x, str):
            x = {'msg': x}
        d = {'sub': sub.name, 'case': x.get('case', case), 'msg': x.get('msg'), 'expected': x.get('expected'),
             'actual': x.get('actual')}
        out.append(d)
    return out


def _work(item):
    """Executed in a worker process: one (sub, unit, k, n) shard."""
    prop, si, unit, k, n, tier = item
    mod = _load(prop)
    sub = mod.SUBS[si]
    env = _get_env()
    env.channels = int(os.environ.get('HXVERIF_CHANNELS') or getattr(mod, 'CHANNELS', 0))
    e0, n0 = env.evals, env.nontrivial
    env.classes = {}
    env.cov = {}
    from . import findings as _findings
    kdata = _findings.load()
    kentries = [e for e in kdata['known'] if e.get('property') == prop]
    khits = {}
    ncases = 0
    nfail = 0
    fails = []
    samples = []
    harness = []
    signal.signal(signal.SIGALRM, _alarm)
    t0 = time.time()
    try:
        for i, case in enumerate(sub.cases(tier, unit)):
            if n > 1 and i % n != k:
                continue
            ncases += 1
            signal.alarm(WALL_GUARD_S)
            try:
                r = _check(sub, env, case)
            except CaseTimeout:
                harness.append('wall-clock guard (%ds) hit in %s on case %s' % (
                    WALL_GUARD_S, sub.name, json.dumps(case, default=str)[:300]))
                break
            except Exception:
                harness.append('oracle crashed in %s on case %s:\n%s' % (
                    sub.name, json.dumps(case, default=str)[:300], traceback.format_exc()))
                if len(harness) > 3:
                    break
                continue
            finally:
                signal.alarm(0)
            for one in _norm_fail(sub, case, r):
                one['shard'] = [si, unit, k, n, i]
                # known findings are matched here, so that the storage cap applies to unlisted failures only
                for e in kentries:
                    if _findings.match(e, prop, one):
                        h = khits.setdefault(e['id'], [0, one])
                        h[0] += 1
                        break
                else:
                    nfail += 1
                    if len(fails) < MAX_STORED_FAILS:
                        fails.append(one)
            if len(samples) < 2 and (k == 0):
                samples.append({'sub': sub.name, 'case': sub.describe(case)})
    except CaseTimeout:
        harness.append('wall-clock guard hit while enumerating %s' % sub.name)
    except Exception:
        harness.append('enumeration crashed in %s:\n%s' % (sub.name, traceback.format_exc()))
    return {'si': si, 'cases': ncases, 'evals': env.evals - e0, 'nontrivial': env.nontrivial - n0,
            'classes': env.classes, 'cov': env.cov, 'nfail': nfail, 'fails': fails, 'khits': khits,
            'samples': samples, 'harness': harness, 'wall': time.time() - t0,
            'maxline': getattr(env, 'maxline', 0)}


def _digest(fl):
    return hashlib.sha1(json.dumps([fl['sub'], fl['case']], sort_keys=True, default=str)
                        .encode()).hexdigest()[:16]


def write_replay(prop, tier, fl):
    d = os.path.join(OUT, 'replays', prop)
    os.makedirs(d, exist_ok=True)
    path = os.path.join(d, '%s.json' % _digest(fl))
    with open(path, 'w') as f:
        json.dump({'property': prop, 'tier': tier, 'sub': fl['sub'], 'case': fl['case'],
                   'msg': fl['msg'], 'expected': fl['expected'], 'actual': fl['actual'],
                   'shard': fl.get('shard'), 'mode': fl.get('mode', 'case')},
                  f, indent=1, default=str, sort_keys=True)
    return path


def replay(prop, path):
    with open(path) as f:
        rec = json.load(f)
    mod = _load(prop)
    subs = {s.name: s for s in mod.SUBS}
    sub = subs.get(rec['sub'])
    if sub is None:
        print('replay: unknown sub-check %r' % rec['sub'])
        return 2
    env = _get_env()
    env.channels = int(os.environ.get('HXVERIF_CHANNELS') or getattr(mod, 'CHANNELS', 0))
    if rec.get('mode') == 'shard' and rec.get('shard'):
        # history replay: every case of the shard before the failing one, in order, then the failing one
        si, unit, k, n, idx = rec['shard']
        tier = rec.get('tier', 'quick')
        r = []
        for i, case in enumerate(sub.cases(tier, unit)):
            if n > 1 and i % n != k:
                continue
            got = _check(sub, env, case)
            if i == idx:
                r = _norm_fail(sub, case, got)
                break
        print('replay %s %s (history: the %d-th case of shard %r/%d of %d, after the cases before it)' % (
            prop, rec['sub'], idx, unit, k, n))
    else:
        r = _norm_fail(sub, rec['case'], _check(sub, env, rec['case']))
        print('replay %s %s' % (prop, rec['sub']))
    print(' case    :', json.dumps(rec['case'], default=str)[:2000])
    if r:
        for x in r[:5]:
            print(' FAILS   :', x['msg'])
            print(' expected:', json.dumps(x['expected'], default=str)[:1000])
            print(' actual  :', json.dumps(x['actual'], default=str)[:1000])
        return 1
    print(' holds (recorded: %s)' % rec.get('msg'))
    return 0


def _out(*a):
    """print that survives a closed pipe (./check ... | head): the verdict is the exit code and the evidence file"""
    try:
        print(*a)
        sys.stdout.flush()
    except BrokenPipeError:
        try:
            sys.stdout = open(os.devnull, 'w')
        except OSError:
            pass


def run(prop, tier):
    from . import findings
    t0 = time.time()
    seed = int(os.environ.get('VERIF_SEED', '0') or 0)
    jobs = int(os.environ.get('HXVERIF_JOBS', '0') or 0) or (os.cpu_count() or 4)
    mod = _load(prop)
    subs = mod.SUBS
    items = []
    for si, sub in enumerate(subs):
        if tier not in sub.tiers:
            continue
        units = sub.units(tier)
        n = jobs if sub.stride else 1
        for u in units:
            for k in range(n):
                items.append((prop, si, u, k, n, tier))
    if hasattr(mod, 'prewarm'):
        mod.prewarm()       # pure-Python tables computed once here and inherited by the forked workers
    rnd = random.Random(seed)
    rnd.shuffle(items)
    # heavy non-strided items first would be better, but order must only depend on the seed
    ctx = multiprocessing.get_context('fork')
    agg = {}
    harness = []
    khit_all = {}
    # one fresh process per work item (forked from this parent, which never evaluates anything): whatever a
    # case observes can only depend on the cases before it in the same shard, so a failure that does not
    # reproduce alone can be replayed faithfully as "the shard up to this case"
    with ctx.Pool(min(jobs, max(1, len(items))), maxtasksperchild=1) as pool:
        for res in pool.imap_unordered(_work, items, chunksize=1):
            a = agg.setdefault(res['si'], {'cases': 0, 'evals': 0, 'nontrivial': 0, 'classes': {},
                                           'cov': {}, 'nfail': 0, 'fails': [], 'samples': [],
                                           'maxline': 0, 'known': 0})
            for kid, (cnt, first) in res['khits'].items():
                a['known'] += cnt
                if kid in khit_all:
                    khit_all[kid][0] += cnt
                else:
                    khit_all[kid] = [cnt, first]
            for key in ('cases', 'evals', 'nontrivial', 'nfail'):
                a[key] += res[key]
            for c, v in res['classes'].items():
                a['classes'][c] = a['classes'].get(c, 0) + v
            for c, v in res['cov'].items():
                if c.endswith('_max') or c in ('states', 'closure_depth', 'graph_depth_completed', 'graph_frontier_left'):
                    a['cov'][c] = max(a['cov'].get(c, 0), v)      # measured by a single worker, not additive
                else:
                    a['cov'][c] = a['cov'].get(c, 0) + v
            a['fails'].extend(res['fails'])
            a['samples'].extend(res['samples'])
            a['maxline'] = max(a['maxline'], res['maxline'])
            harness.extend(res['harness'])

    # ---- vacuity guards
    per_sub = {}
    for si, sub in enumerate(subs):
        if tier not in sub.tiers:
            continue
        a = agg.get(si)
        if a is None:
            harness.append('sub-check %s produced no result' % sub.name)
            continue
        per_sub[sub.name] = {'cases': a['cases'], 'evaluations': a['evals'],
                             'nontrivial': a['nontrivial'], 'outcome_classes': len(a['classes']),
                             'violations': a['nfail'], 'known_finding_cases': a['known'],
                             'rule': sub.rule}
        if a['cov']:
            per_sub[sub.name]['coverage'] = a['cov']
        if a['nfail'] or a['known']:
            continue        # a failing sub-check stops early; its counts say nothing about vacuity
        if a['cases'] < sub.min_cases:
            harness.append('vacuity: %s explored %d cases (< %d)' % (sub.name, a['cases'], sub.min_cases))
        if a['nontrivial'] < sub.min_nontrivial:
            harness.append('vacuity: %s saw %d non-trivial cases (< %d)' % (
                sub.name, a['nontrivial'], sub.min_nontrivial))
        if len(a['classes']) < sub.min_classes:
            harness.append('vacuity: %s saw %d outcome classes (< %d): %s' % (
                sub.name, len(a['classes']), sub.min_classes, sorted(a['classes'])[:20]))

    all_fails = []
    for si in sorted(agg):
        all_fails.extend(agg[si]['fails'])
    total_fail = sum(a['nfail'] for a in agg.values())
    data = findings.load()
    new = all_fails                 # already filtered against known_findings.json in the workers
    stored = len(all_fails)
    hit = khit_all
    kmap = dict((e['id'], e) for e in data['known'])
    for kid, (cnt, first) in sorted(hit.items()):
        e = kmap[kid]
        _out('KNOWN-FINDING: property=%s %s [%s %s; %d case(s), e.g. %s]' % (
            prop, e.get('what'), kid, e.get('sub'), cnt, json.dumps(first['case'], default=str)[:160]))

    # ---- replay files, reproduced once in a fresh process (R3)
    seen = set()
    shown = 0
    replay_paths = []
    # report round-robin over the sub-checks, so that every failing sub-check is represented among
    # the first few violations that are confirmed and printed
    by_sub = {}
    for fl in new:
        by_sub.setdefault(fl['sub'], []).append(fl)
    ordered = []
    while any(by_sub.values()):
        for k in list(by_sub):
            if by_sub[k]:
                ordered.append(by_sub[k].pop(0))
    for fl in ordered:
        dg = _digest(fl)
        if dg in seen:
            continue
        seen.add(dg)
        if shown >= MAX_REPORTED:
            continue
        path = write_replay(prop, tier, fl)
        replay_paths.append((path, fl))
        shown += 1
    # R3: a verdict is reported only if it reproduces in a fresh process.  Violations are confirmed
    # in order until two have reproduced (at most 10 attempts); ones that do not reproduce depend on
    # what the worker had evaluated before (itself a purity symptom, but not a replayable finding)
    # and are dropped from the report.  If nothing reproduces the run is a harness error (exit 2).
    nonrepro = False
    confirmed = 0
    kept = []
    for n_try, (path, fl) in enumerate(replay_paths):
        if confirmed >= 2 or n_try >= 10:
            kept.append((path, fl))
            continue
        env = dict(os.environ)
        env.pop('HXVERIF_SNAPSHOT', None)
        rc = subprocess.run([sys.executable, '-m', 'hxverif.run', prop, '--replay', path],
                            cwd=HERE, env=env, stdout=subprocess.PIPE, stderr=subprocess.STDOUT)
        if rc.returncode == 1:
            confirmed += 1
            kept.append((path, fl))
            continue
        # not reproducible alone: does it reproduce after the cases that preceded it in its shard?
        fl2 = dict(fl, mode='shard')
        fl2['msg'] = ('[only after the earlier cases of the same shard - the outcome depends on what was evaluated '
                      'before] ' + (fl['msg'] or ''))
        path2 = write_replay(prop, tier, dict(fl2, case=['history-of'] + [fl['case']]))
        rc2 = subprocess.run([sys.executable, '-m', 'hxverif.run', prop, '--replay', path2],
                             cwd=HERE, env=env, stdout=subprocess.PIPE, stderr=subprocess.STDOUT)
        if rc2.returncode == 1:
            confirmed += 1
            kept.append((path2, fl2))
        else:
            harness.append('verdict did not reproduce in a fresh process (rc=%d, shard replay rc=%d), dropped: %s %s' % (
                rc.returncode, rc2.returncode, path, (fl['msg'] or '')[:200]))
    if replay_paths and not confirmed:
        nonrepro = True
    replay_paths = kept

    wall = time.time() - t0
    cov = _coverage(mod, subs, agg, per_sub, tier, jobs)
    ev = {'property_id': prop, 'tier': tier, 'seed': seed, 'level': 'model_checking',
          'coverage': cov, 'assumptions': list(getattr(mod, 'ASSUMPTIONS', [])),
          'wall_s': round(wall, 3), 'violations': len(new) + max(0, total_fail - stored)}
    cov['known_findings_hit'] = sorted(hit)
    ch = int(os.environ.get('HXVERIF_CHANNELS') or getattr(mod, 'CHANNELS', 0))
    if ch:
        cov['delivery_channel_differential'] = ('1 of every %d variable-binding evaluations repeated through the cell/range '
                                                'listeners, 1 through custom functions, 1 with every value an instance of a '
                                                'trivial subclass of its type (hash-selected); included in "evaluations"' % max(3, ch))
    cov['harness_errors'] = len(harness)
    os.makedirs(os.path.join(OUT, 'evidence'), exist_ok=True)
    with open(os.path.join(OUT, 'evidence', '%s.json' % prop), 'w') as f:
        json.dump(ev, f, indent=1, sort_keys=True, default=str)

    _out('%s %s: %d sub-checks, %d cases, %d evaluations, %d non-trivial, %.1fs, seed %d' % (
        prop, tier, len(per_sub), cov['cases'], cov['evaluations'], cov['distinct_nontrivial'],
        wall, seed))
    for name, s in per_sub.items():
        _out('  %-28s cases=%-9d evals=%-9d nontrivial=%-9d classes=%-4d viol=%d known=%d' % (
            name, s['cases'], s['evaluations'], s['nontrivial'], s['outcome_classes'], s['violations'],
            s['known_finding_cases']))
    for h in harness[:10]:
        _out('HARNESS-ERROR: ' + h)
    if nonrepro or (harness and not (new or total_fail > stored)):
        return 2
    if new or total_fail > stored:
        for path, fl in replay_paths:
            _out('  %s: %s' % (fl['sub'], (fl['msg'] or '')[:300]))
            _out('VIOLATION property=%s replay=%s' % (prop, path))
        if total_fail > stored and not new:
            _out('VIOLATION property=%s replay=none (%d violations beyond the stored cap)' % (
                prop, total_fail - stored))
        _out('%s: %d unlisted violation(s) (%d total failures)' % (prop, len(seen) or 1, total_fail))
        return 1
    return 0


def _coverage(mod, subs, agg, per_sub, tier, jobs):
    cases = sum(a['cases'] for a in agg.values())
    evals = sum(a['evals'] for a in agg.values())
    nt = sum(a['nontrivial'] for a in agg.values())
    samples = []
    for si in sorted(agg):
        samples.extend(agg[si]['samples'][:2])
    classes = {}
    for si, a in agg.items():
        for c, v in a['classes'].items():
            classes['%s:%s' % (subs[si].name, c)] = v
    cov = {'cases': cases, 'evaluations': max(evals, cases), 'distinct_nontrivial': nt,
           'rule': getattr(mod, 'RULE', '') or '; '.join(
               '%s: %s' % (s.name, s.rule) for s in subs if s.rule and tier in s.tiers),
           'samples': samples[:16], 'exhaustive': True,
           'bounds': getattr(mod, 'BOUNDS', {}).get(tier, ''),
           'sub_checks': per_sub, 'outcome_classes': len(classes),
           'outcome_class_counts': dict(sorted(classes.items())[:80]),
           'workers': jobs,
           'max_line_events': max([a['maxline'] for a in agg.values()] or [0])}
    # K1/K2 sub-checks report explicit-state counters through env.cov
    tot = {}
    for a in agg.values():
        for c, v in a['cov'].items():
            if c.endswith('_max') or c in ('closure_depth', 'graph_depth_completed', 'graph_frontier_left'):
                tot[c] = max(tot.get(c, 0), v)
            else:
                tot[c] = tot.get(c, 0) + v
    for key in ('states', 'transitions', 'traces_validated_against_impl', 'schedules',
                'scheduling_points', 'histories'):
        if key in tot:
            cov[key] = tot[key]
    for c, v in tot.items():
        cov.setdefault(c, v)
    return cov


def selftest():
    """Framework self-test: imports every property module against the snapshot and checks
    that MANIFEST.json and known_findings.json are well-formed."""
    from . import snapshot, findings
    snapshot.install()
    ok = True
    with open(os.path.join(HERE, 'MANIFEST.json')) as f:
        man = json.load(f)
    for c in man['checks']:
        pid = c['property_id']
        try:
            mod = importlib.import_module('hxverif.props.%s' % pid.lower())
            names = [s.name for s in mod.SUBS]
            assert len(names) == len(set(names)) and all(names)
        except Exception:
            ok = False
            print('selftest: cannot load %s\n%s' % (pid, traceback.format_exc()))
    data = findings.load()
    for e in data['known']:
        for k in ('id', 'property', 'sub', 'where', 'what'):
            if not e.get(k):
                ok = False
                print('selftest: known finding without %s: %r' % (k, e))
        try:
            compile(e.get('where') or '', '<where>', 'eval')
        except SyntaxError:
            ok = False
            print('selftest: bad where in %r' % (e,))
    print('selftest %s (%d checks, %d known findings, %d fixed)' % (
        'ok' if ok else 'FAILED', len(man['checks']), len(data['known']), len(data['fixed'])))
    return 0 if ok else 2


def main(argv):
    if len(argv) >= 1 and argv[0] == 'selftest':
        return selftest()
    if len(argv) < 2:
        print(__doc__)
        return 2
    prop = argv[0].upper()
    if argv[1] == '--replay':
        return replay(prop, argv[2])
    tier = argv[1]
    if tier not in ('quick', 'thorough'):
        tier = os.environ.get('VERIF_TIER', 'quick')
    return run(prop, tier)


if __name__ == '__main__':
    sys.exit(main(sys.argv[1:]))
