# -*- coding: utf-8 -*-
"""Expression trees: generator, renderers and an independent exact reference evaluator.

Tree nodes (plain JSON lists):
  ['n', text, [num, den]]            numeric literal spelled `text`
  ['s', text]                        string literal (double-quoted)
  ['v', name, value]                 variable bound by the host (value: JSON scalar)
  ['c', label, value]                cell reference answered by a callCellValue listener
  ['f', text, value]                 opaque call leaf, e.g. 'SUM(3,0)' with its known value
  ['u', t]                           unary minus
  ['b', op, l, r]                    op in + - * / & and the six comparisons

The reference evaluator works in exact Fractions and implements only what the property
statements say (C04/C08): usual precedence is a *rendering* matter, the tree is the meaning."""
from fractions import Fraction

ARITH = ('+', '-', '*', '/')
CMP = ('<', '>', '<=', '>=', '=', '<>')
LEVEL = {'<': 1, '>': 1, '<=': 1, '>=': 1, '=': 1, '<>': 1, '&': 1.5, '+': 2, '-': 2, '*': 3, '/': 3}
# The statement lists the levels from the tightest down - unary minus, * /, + -, comparisons - and puts '&' above the
# comparisons: the only place that leaves the listed order intact is between + - and the comparisons (the usual reading of
# a sheet: 1+2&3 is "33").  An earlier version of this file treated the rank of '&' against arithmetic as not demanded and
# always parenthesised the operands of '&'; a red-team reading of the statement showed that to be too lenient.


class RefError(Exception):
    def __init__(self, code):
        Exception.__init__(self, code)
        self.code = code


class Val(object):
    """reference value: kind in {'num','bool','text'}; inexact = float rounding may matter"""
    __slots__ = ('kind', 'v', 'inexact')

    def __init__(self, kind, v, inexact=False):
        self.kind, self.v, self.inexact = kind, v, inexact


def _is_dyadic(fr):
    d = fr.denominator
    return d & (d - 1) == 0 and d <= 2 ** 40 and abs(fr.numerator) < 2 ** 50


def _num(val):
    if val.kind == 'num':
        return val.v
    if val.kind == 'bool':
        return Fraction(1 if val.v else 0)
    if val.kind == 'text' and val.v.isdigit() and val.v.isascii():
        return Fraction(int(val.v))        # text that spells a whole number acts as that number (C06)
    raise RefError('#VALUE!')


def leaf_value(j):
    if isinstance(j, bool):
        return Val('bool', j)
    if isinstance(j, int):
        return Val('num', Fraction(j))
    if isinstance(j, float):
        return Val('num', Fraction(j))
    if isinstance(j, str):
        return Val('text', j)
    if isinstance(j, list) and len(j) == 2:
        return Val('num', Fraction(j[0], j[1]))
    raise ValueError(j)


class Skip(Exception):
    """the tree is outside the domain on which the statement fixes a value"""


def ref_eval(t):
    k = t[0]
    if k == 'n':
        fr = Fraction(t[2][0], t[2][1])
        return Val('num', fr, not _is_dyadic(fr))
    if k == 's':
        return Val('text', t[1])
    if k in ('v', 'c', 'f'):
        return leaf_value(t[2])
    if k == 'u':
        a = ref_eval(t[1])
        return Val('num', -_num(a), a.inexact)
    op, l, r = t[1], t[2], t[3]
    # operands are evaluated left to right; the left error wins
    a = _try(l)
    b = _try(r)
    if isinstance(a, RefError):
        raise a
    if isinstance(b, RefError):
        raise b
    if op in ARITH:
        x, y = _num(a), _num(b)
        inexact = a.inexact or b.inexact
        if op == '+':
            res = x + y
        elif op == '-':
            res = x - y
        elif op == '*':
            res = x * y
        else:
            if y == 0:
                raise RefError('#DIV/0!')
            res = x / y
        if not _is_dyadic(res):
            inexact = True
        return Val('num', res, inexact)
    if op == '&':
        return Val('text', _text(a) + _text(b))
    # comparison
    if a.kind != b.kind:
        rank = {'num': 0, 'text': 1, 'bool': 2}
        x, y = rank[a.kind], rank[b.kind]
    else:
        x, y = a.v, b.v
        if a.kind == 'num' and (a.inexact or b.inexact):
            m = max(abs(x), abs(y))
            if abs(x - y) <= m * Fraction(1, 10 ** 6):
                raise Skip('comparison decided by float rounding')
        if a.kind == 'text' and x.lower() != x or a.kind == 'text' and y.lower() != y:
            raise Skip('text ordering with upper case')
    res = {'<': x < y, '>': x > y, '<=': x <= y, '>=': x >= y, '=': x == y, '<>': x != y}[op]
    return Val('bool', res)


def _try(t):
    try:
        return ref_eval(t)
    except RefError as e:
        return e


def _text(val):
    if val.kind == 'text':
        return val.v
    if val.kind == 'num' and val.v.denominator == 1 and not val.inexact:
        return str(val.v.numerator)
    raise Skip('rendering of non-integer / logical under & is not demanded')


# --------------------------------------------------------------------------
# rendering

def atom_text(t):
    k = t[0]
    if k == 'n':
        return t[1]
    if k == 's':
        return '"%s"' % t[1]
    if k in ('v', 'c', 'f'):
        return t[1]
    raise ValueError(t)


def render_full(t):
    k = t[0]
    if k == 'u':
        return '(-%s)' % render_full(t[1])
    if k == 'b':
        return '(%s%s%s)' % (render_full(t[2]), t[1], render_full(t[3]))
    return atom_text(t)


def _level(t):
    if t[0] == 'b':
        return LEVEL[t[1]]
    if t[0] == 'u':
        return 4
    return 9


def render_min(t, extra=None, _path=()):
    """Minimal parentheses per the stated reading.  `extra`: path (tuple of child indices) of one
    subterm that gets a redundant pair of parentheses."""
    k = t[0]
    if k == 'u':
        inner = render_min(t[1], extra, _path + (1,))
        if t[1][0] == 'b':
            inner = '(%s)' % inner
        s = '-' + inner
    elif k == 'b':
        op = t[1]
        lv = LEVEL[op]
        ls = render_min(t[2], extra, _path + (2,))
        rs = render_min(t[3], extra, _path + (3,))
        ll, rl = _level(t[2]), _level(t[3])
        if True:
            lpar = ll < lv
            rpar = rl <= lv
            if t[3][0] == 'u' and lv > 1:
                rpar = False    # a*-b, a--b : unary minus binds tightest
            if t[2][0] == 'u':
                lpar = False
            if lpar:
                ls = '(%s)' % ls
            if rpar:
                rs = '(%s)' % rs
        s = ls + op + rs
    else:
        s = atom_text(t)
    if extra is not None and tuple(extra) == _path:
        s = '(%s)' % s
    return s


def subterm_paths(t, _path=()):
    yield _path
    if t[0] == 'u':
        for p in subterm_paths(t[1], _path + (1,)):
            yield p
    elif t[0] == 'b':
        for p in subterm_paths(t[2], _path + (2,)):
            yield p
        for p in subterm_paths(t[3], _path + (3,)):
            yield p


def leaves(t):
    if t[0] == 'u':
        for x in leaves(t[1]):
            yield x
    elif t[0] == 'b':
        for x in leaves(t[2]):
            yield x
        for x in leaves(t[3]):
            yield x
    else:
        yield t


def bindings(t):
    vars, cells = {}, {}
    for lf in leaves(t):
        if lf[0] == 'v':
            vars[lf[1]] = _host(lf[2])
        elif lf[0] == 'c':
            cells[lf[1].upper().replace('$', '')] = _host(lf[2])
    return vars, cells


def _host(j):
    if isinstance(j, list):
        return j[0] / j[1] if j[1] != 1 else j[0]
    return j


# --------------------------------------------------------------------------
# generation

def shapes(n):
    """all binary tree shapes with n internal nodes, as nested tuples; leaf = None"""
    if n == 0:
        yield None
        return
    for k in range(n):
        for l in shapes(k):
            for r in shapes(n - 1 - k):
                yield (l, r)


def count_nodes(shape):
    if shape is None:
        return 1
    return 1 + count_nodes(shape[0]) + count_nodes(shape[1])


PRIMES = (2, 3, 5, 7, 11, 13, 17, 19)
VARNAMES = ('va', 'vb', 'vc', 'vd', 've', 'vf', 'vg', 'vh')
CELLS = ('A1', 'B2', 'C3', 'D4', 'E5', 'F6', 'G7', 'H8')


def make_leaf(kind, i):
    p = PRIMES[i]
    if kind == 'int':
        return ['n', str(p), [p, 1]]
    if kind == 'dec':
        return ['n', '%d.5' % p, [2 * p + 1, 2]]
    if kind == 'dot':
        return ['n', '.5', [1, 2]] if i == 0 else ['n', '.%d5' % (i % 10), [(i % 10) * 10 + 5, 100]]
    if kind == 'var':
        return ['v', VARNAMES[i], p]
    if kind == 'vneg':
        return ['v', VARNAMES[i], -p]
    if kind == 'vflt':
        return ['v', VARNAMES[i], p + 0.25]
    if kind == 'cell':
        return ['c', CELLS[i], p]
    if kind == 'call':
        return ['f', 'SUM(%d,0)' % p, p]
    if kind == 'call2':
        return ['f', 'MAX(%d,1)' % p, p]
    if kind == 'tenth':      # non-dyadic decimals: any regrouping changes the floating-point result
        return ['n', '%d.%d' % (p // 10, p % 10), [p, 10]]
    if kind == 'zero':
        return ['n', '0', [0, 1]]
    raise ValueError(kind)


def build(shape, ops, leaf_kinds, unary=()):
    """shape + operator list (pre-order) + leaf kinds (left to right) + set of node numbers
    (pre-order over all nodes) that get a unary minus on top."""
    state = {'op': 0, 'leaf': 0, 'node': 0}

    def rec(sh):
        me = state['node']
        state['node'] += 1
        if sh is None:
            t = make_leaf(leaf_kinds[state['leaf'] % len(leaf_kinds)], state['leaf'])
            state['leaf'] += 1
        else:
            op = ops[state['op']]
            state['op'] += 1
            l = rec(sh[0])
            r = rec(sh[1])
            t = ['b', op, l, r]
        if me in unary:
            t = ['u', t]
        return t
    return rec(shape)
