# -*- coding: utf-8 -*-
"""Private snapshot of the repository's package.

Every check imports hotxlfp from a copy of <repo>/hotxlfp taken at start-up:
 * PLY rewrites parser_FormulaParser_parsetab.py next to the grammar whenever the
   grammar signature changed - a check must never write into /repo;
 * the run sees one consistent tree (the current *working tree*, committed or not);
 * nothing is left behind: the directory is removed at exit.
"""
import atexit
import os
import shutil
import sys
import tempfile

REPO = os.environ.get('HXVERIF_REPO', '/repo')
_snapdir = None


def snapshot_dir():
    return _snapdir


def install():
    """Copy <repo>/hotxlfp to a private dir and put it first on sys.path (idempotent)."""
    global _snapdir
    if _snapdir is not None:
        return _snapdir
    inherited = os.environ.get('HXVERIF_SNAPSHOT')
    if inherited and os.path.isdir(os.path.join(inherited, 'hotxlfp')):
        _snapdir = inherited
    else:
        base = '/dev/shm' if os.path.isdir('/dev/shm') and os.access('/dev/shm', os.W_OK) else None
        _snapdir = tempfile.mkdtemp(prefix='hxverif-snap-', dir=base)
        src = os.path.join(REPO, 'hotxlfp')
        if not os.path.isdir(src):
            raise SystemExit('hxverif: no package at %s' % src)
        shutil.copytree(src, os.path.join(_snapdir, 'hotxlfp'),
                        ignore=shutil.ignore_patterns('__pycache__', '*.pyc', '*.dbg', 'parser.out'))
        for extra in ('SUPPORTED_FORMULAS.md', 'README.md'):
            p = os.path.join(REPO, extra)
            if os.path.exists(p):
                shutil.copy(p, os.path.join(_snapdir, extra))
        os.environ['HXVERIF_SNAPSHOT'] = _snapdir
        owner = os.getpid()

        def _cleanup(d=_snapdir, owner=owner):
            if os.getpid() == owner:
                shutil.rmtree(d, ignore_errors=True)
        atexit.register(_cleanup)
    sys.path.insert(0, _snapdir)
    for name in list(sys.modules):
        if name == 'hotxlfp' or name.startswith('hotxlfp.'):
            del sys.modules[name]
    import hotxlfp  # noqa
    got = os.path.dirname(os.path.abspath(hotxlfp.__file__))
    want = os.path.join(_snapdir, 'hotxlfp')
    if os.path.realpath(got) != os.path.realpath(want):
        raise SystemExit('hxverif: imported hotxlfp from %s, expected snapshot %s' % (got, want))
    _warm_up()
    return _snapdir


REGENERATED = False


def _warm_up():
    """Build one Parser in the parent before any worker is forked.  If the grammar differs from the
    shipped LALR table PLY regenerates the table and writes it next to the grammar - i.e. into the
    snapshot, once, here - instead of 16 workers racing to write it.  PLY's warnings are captured."""
    global REGENERATED
    import importlib
    import io
    old = sys.stderr
    buf = io.StringIO()
    sys.stderr = buf
    try:
        import hotxlfp
        try:
            hotxlfp.Parser()
        except Exception:
            return          # a tree that cannot even build a parser is reported by the checks themselves
        if buf.getvalue().strip():
            REGENERATED = True
            for name in list(sys.modules):
                if name.endswith('_parsetab'):
                    del sys.modules[name]
            importlib.invalidate_caches()
            try:
                hotxlfp.Parser()
            except Exception:
                pass
    finally:
        sys.stderr = old


def pkg_file(rel):
    return os.path.join(_snapdir, rel)
