# -*- coding: utf-8 -*-
"""Deterministic step budget (DESIGN 4.3).

Counts sys.monitoring LINE and JUMP events (Python 3.12) during one call; when the count
crosses the limit a BaseException subclass is raised inside the monitored code, so the
`except Exception` in Parser.parse cannot swallow it.  The verdict "does not terminate" is
therefore a function of the executed code only - never of wall-clock time or machine load."""
import sys

LIMIT = 200000


class BudgetExceeded(BaseException):
    pass


_mon = getattr(sys, 'monitoring', None)
TOOL = 4


class Budget(object):
    def __init__(self, limit=LIMIT):
        self.limit = limit
        self.count = 0
        self.max_seen = 0
        self.tripped = False
        self._next_raise = limit

    # -- sys.monitoring callbacks
    def _on_event(self, code, *rest):
        self.count += 1
        if self.count > self._next_raise:
            self.tripped = True
            # keep raising every 20000 further events in case something swallows BaseException
            self._next_raise = self.count + 20000
            raise BudgetExceeded()

    def run(self, fn, *args, **kwargs):
        """-> ('ok', value) | ('raised', exc) | ('budget', count)"""
        self.count = 0
        self.tripped = False
        self._next_raise = self.limit
        if _mon is None:
            return self._run_settrace(fn, args, kwargs)
        E = _mon.events
        try:
            _mon.use_tool_id(TOOL, 'hxverif-budget')
        except ValueError:
            pass
        _mon.register_callback(TOOL, E.LINE, self._on_event)
        _mon.register_callback(TOOL, E.JUMP, self._on_event)
        _mon.set_events(TOOL, E.LINE | E.JUMP)
        try:
            try:
                res = ('ok', fn(*args, **kwargs))
            except BudgetExceeded:
                res = ('budget', self.count)
            except Exception as e:
                res = ('raised', e)
        finally:
            _mon.set_events(TOOL, 0)
            _mon.register_callback(TOOL, E.LINE, None)
            _mon.register_callback(TOOL, E.JUMP, None)
            try:
                _mon.free_tool_id(TOOL)
            except ValueError:
                pass
        if self.tripped and res[0] != 'budget':
            res = ('budget', self.count)
        if res[0] != 'budget':
            self.max_seen = max(self.max_seen, self.count)
        return res

    def _run_settrace(self, fn, args, kwargs):     # pragma: no cover (fallback for < 3.12)
        def tracer(frame, event, arg):
            if event == 'line':
                self.count += 1
                if self.count > self._next_raise:
                    self.tripped = True
                    self._next_raise = self.count + 20000
                    raise BudgetExceeded()
            return tracer
        old = sys.gettrace()
        sys.settrace(tracer)
        try:
            try:
                res = ('ok', fn(*args, **kwargs))
            except BudgetExceeded:
                res = ('budget', self.count)
            except Exception as e:
                res = ('raised', e)
        finally:
            sys.settrace(old)
        if res[0] != 'budget':
            self.max_seen = max(self.max_seen, self.count)
        return res
