# -*- coding: utf-8 -*-
"""Shared plumbing: value codec, evaluation harness (Env), sub-check base class."""
import datetime
import json
import math
import re
import zlib


# --------------------------------------------------------------------------
# value codec: every case / outcome is plain JSON so that it can be written to a
# replay file and re-executed with no explorer.

CANON_CODES = ('#ERROR!', '#DIV/0!', '#NAME?', '#N/A', '#NULL!', '#NUM!', '#REF!', '#VALUE!',
               '#GETTING_DATA')


def enc(v, _depth=0):
    if v is None or isinstance(v, (bool, str)):
        return v
    if isinstance(v, int):
        if abs(v) < 2 ** 63:
            return v
        return {'$int': str(v) if v.bit_length() < 10000 else hex(v)}      # str() of a huge int is refused by Python
    if isinstance(v, float):
        if math.isnan(v) or math.isinf(v):
            return {'$f': repr(v)}
        return v
    if isinstance(v, datetime.datetime):
        return {'$dt': v.isoformat()}
    if isinstance(v, datetime.date):
        return {'$d': v.isoformat()}
    if isinstance(v, complex):
        return {'$c': [v.real, v.imag]}
    if isinstance(v, BaseException):
        if type(v).__name__ == 'XLError':
            return {'$err': str(v.args[0]) if v.args else ''}
        return {'$exc': type(v).__name__}
    if isinstance(v, list):
        if _depth > 20:
            return {'$repr': 'deep-list'}
        return [enc(x, _depth + 1) for x in v]
    if isinstance(v, tuple):
        return {'$tuple': [enc(x, _depth + 1) for x in v]}
    return {'$repr': '%s:%s' % (type(v).__name__, _safe_repr(v))}


def _safe_repr(v):
    try:
        r = repr(v)
    except Exception as e:  # pragma: no cover
        r = '<repr raised %s>' % type(e).__name__
    return r[:120]


def jkey(x):
    """Canonical string of a JSON value (hashable key)."""
    return json.dumps(x, sort_keys=True, ensure_ascii=True, default=str)


class Codec(object):
    def __init__(self, errmod):
        self.errmod = errmod
        self.singletons = {}
        for name in dir(errmod):
            o = getattr(errmod, name)
            if isinstance(o, BaseException) and type(o).__name__ == 'XLError':
                self.singletons[str(o)] = o

    def dec(self, j):
        if isinstance(j, list):
            return [self.dec(x) for x in j]
        if isinstance(j, dict):
            if '$dt' in j:
                return datetime.datetime.fromisoformat(j['$dt'])
            if '$d' in j:
                return datetime.date.fromisoformat(j['$d'])
            if '$err' in j:
                s = self.singletons.get(j['$err'])
                return s if s is not None else self.errmod.XLError(j['$err'])
            if '$f' in j:
                return float(j['$f'])
            if '$int' in j:
                return int(j['$int'], 0)
            if '$c' in j:
                return complex(j['$c'][0], j['$c'][1])
            if '$tuple' in j:
                return tuple(self.dec(x) for x in j['$tuple'])
            raise ValueError('cannot decode %r' % (j,))
        return j


# --------------------------------------------------------------------------

class _Member(object):
    """Like the members of an IntEnum (or a unit-carrying float, an interned rich-text str), instances exist only for the values the
    host made them for: `type(x)(0)` is an error, as `Colour(0)` is when no colour is 0.  Code that rebuilds a value through its
    own type - instead of computing with it - shows up under the host-type differential."""
    __slots__ = ()

    def __new__(cls, value, _by_host=False):
        if not _by_host:
            raise ValueError('%r is not a valid %s' % (value, cls.__name__))
        return super(_Member, cls).__new__(cls, value)

    def __copy__(self):
        return self

    def __deepcopy__(self, memo):
        return self


class _HostInt(_Member, int):
    # a member prints as its name, not as its number (as members of mixed-in Enum classes do)
    def __repr__(self):
        return '<int member %s>' % int.__repr__(self)

    __str__ = __repr__


class _HostFloat(_Member, float):
    def __repr__(self):
        return '<float member %s>' % float.__repr__(self)

    __str__ = __repr__


class _HostStr(_Member, str):
    # like a member of a (str, Enum) class: str() of it is not its content; the content is what a text function must see
    def __str__(self):
        return '<text member %s>' % str.__getitem__(self, slice(None))

    __repr__ = __str__


class _HostDateTime(datetime.datetime):
    pass


class _HostList(list):
    pass


class ChannelDiff(Exception):
    """raised out of Env.ev (through the oracle) when two delivery channels disagree; the runner turns it into a failure"""

    def __init__(self, failure):
        Exception.__init__(self, failure['msg'])
        self.failure = failure


class Env(object):
    """Per-process evaluation harness around the *snapshot* of hotxlfp.

    Only the public API is used: Parser(), set_variable, set_function, on, parse."""

    def __init__(self):
        import hotxlfp
        from hotxlfp.formulas import error as errmod
        self.hot = hotxlfp
        self.err = errmod
        self.codec = Codec(errmod)
        self.dec = self.codec.dec
        self.evals = 0
        self.nontrivial = 0
        self.classes = {}
        self._cache = {}
        self._cells = {}
        self.events = None

    # -- statistics ---------------------------------------------------------
    def note(self, cls, n=1):
        self.classes[cls] = self.classes.get(cls, 0) + n

    def nt(self, n=1):
        self.nontrivial += n

    # -- parsers ------------------------------------------------------------
    def new_parser(self, debug=False):
        return self.hot.Parser(debug=debug)

    def _cached_parser(self, var_names, func_names, with_cells):
        key = (tuple(sorted(var_names)), tuple(sorted(func_names)), bool(with_cells))
        p = self._cache.get(key)
        if p is None:
            if len(self._cache) > 400:
                self._cache.clear()
            p = self.new_parser()
            if with_cells:
                p.on('callCellValue', self._on_cell)
                p.on('callRangeValue', self._on_range)
                p.on('callVariable', self._on_var)
            self._cache[key] = p
        return p

    def _on_cell(self, cell, setter):
        cells = self._cells
        if callable(cells):
            v = cells('cell', cell)
        else:
            v = cells.get(cell.label)
        if v is not None:
            setter(v)

    def _on_var(self, name, setter):
        # a name the host answers through the callVariable listener: cells = {'var:rate': value}
        cells = self._cells
        if not callable(cells):
            v = cells.get('var:' + name)
            if v is not None:
                setter(v)

    def _on_range(self, start, end, setter):
        cells = self._cells
        if callable(cells):
            v = cells('range', (start, end))
        else:
            v = cells.get('%s:%s' % (start.label, end.label))
            if v is None:
                v = cells.get((start.row.index, start.col.index, end.row.index, end.col.index))
        if v is not None:
            setter(v)

    def ev(self, formula, vars=None, funcs=None, cells=None):
        """Evaluate `formula` on a parser carrying exactly the given bindings.
        Returns the raw return value of Parser.parse, or ('raised', exc)."""
        vars = vars or {}
        funcs = funcs or {}
        p = self._cached_parser(vars.keys(), funcs.keys(), cells is not None)
        for k, v in vars.items():
            p.set_variable(k, v)
        for k, f in funcs.items():
            p.set_function(k, f)
        self._cells = cells if cells is not None else {}
        self.evals += 1
        try:
            r = p.parse(formula)
        except Exception as e:  # noqa - an escape is an observation, classified by the caller
            r = ('raised', e)
        if self.channels and vars and cells is None:
            self._channel_check(formula, vars, funcs, r)
        return r

    # -- host types -------------------------------------------------------------
    def _subclass_check(self, formula, vars, funcs, r):
        """A number is a number whatever class the host uses for it: numpy.float64, a Money(float), an IntEnum, a rich-text
        str, a pandas Timestamp are instances of SUBCLASSES of float / int / str / datetime (and a row may be a list subclass).
        The same evaluation with every bound value re-typed as a trivial subclass must give the same outcome."""
        changed = [False]

        def retype(v, depth=0):
            if isinstance(v, bool) or v is None:
                return v
            t = type(v)
            if t is int:
                changed[0] = True
                return _HostInt(v, True)
            if t is float:
                changed[0] = True
                return _HostFloat(v, True)
            if t is str:
                changed[0] = True
                return _HostStr(v, True)
            if t is datetime.datetime:
                changed[0] = True
                return _HostDateTime(v.year, v.month, v.day, v.hour, v.minute, v.second, v.microsecond, v.tzinfo)
            if t is list and depth < 4:
                changed[0] = True
                return _HostList(retype(x, depth + 1) for x in v)
            return v
        vars2 = dict((k, retype(v)) for k, v in vars.items())
        if not changed[0]:
            return
        saved, self.channels = self.channels, 0
        try:
            o2 = self.evo(formula, vars2, funcs, None)
        finally:
            self.channels = saved
        o1 = self.out(r)
        # numbers within the usual tolerance: the interpreter itself sums exact floats with compensation and instances of
        # subclasses without (a last-bit difference that is not the library's)
        if not same_value(o1, o2):
            raise ChannelDiff(fail(
                'the same values as instances of subclasses give a different result: %s with variables %s gives %r, but with every '
                'number / text / date-time / list an instance of a trivial subclass of float, int, str, datetime, list (what '
                'numpy.float64, an IntEnum, a rich-text str or a pandas Timestamp are) it gives %r' % (
                    formula, dict((k, enc(v)) for k, v in vars.items()), o1, o2), o1, o2))
        # ... and with every list handed in as a tuple (rows as a database driver delivers them): a tuple is an array like a list is
        if any(type(v) is list for v in vars.values()):
            def as_tuple(v, depth=0):
                return tuple(as_tuple(x, depth + 1) for x in v) if type(v) is list and depth < 4 else v

            def untuple(j):
                if isinstance(j, dict) and '$tuple' in j:
                    return [untuple(x) for x in j['$tuple']]
                if isinstance(j, list):
                    return [untuple(x) for x in j]
                return j
            vars3 = dict((k, as_tuple(v)) for k, v in vars.items())
            saved, self.channels = self.channels, 0
            try:
                o3 = self.evo(formula, vars3, funcs, None)
            finally:
                self.channels = saved
            if not same_value(untuple(o1), untuple(o3)):
                raise ChannelDiff(fail(
                    'the same values with every list handed in as a tuple give a different result: %s with variables %s gives %r, with '
                    'tuples %r' % (formula, dict((k, enc(v)) for k, v in vars.items()), o1, o3), o1, o3))

    # -- delivery channels ----------------------------------------------------
    channels = 0        # N > 0: of every N evaluations that bind variables, one is repeated with the values handed in by
                        # the cell/range listeners and one with the values returned by custom functions (chosen by a hash
                        # of the formula and its bindings, so the choice does not depend on what was evaluated before)
    _IDENT = re.compile(r'[A-Za-z_][A-Za-z_]*\Z')
    _STRINGS = re.compile(r'("[^"]*"|\'[^\']*\')')

    def _channel_check(self, formula, vars, funcs, r):
        if '\\' in formula or any(not self._IDENT.match(k) or k in ('TRUE', 'FALSE', 'NULL') for k in vars):
            return
        try:
            key = (formula + repr(sorted((k, repr(enc(v))) for k, v in vars.items()))).encode('utf-8', 'surrogatepass')
        except Exception:
            return
        pick = zlib.crc32(key) % max(3, self.channels)
        if pick > 2:
            return
        if pick == 2:
            return self._subclass_check(formula, vars, funcs, r)
        names = sorted(vars, key=len, reverse=True)
        how = 'cell/range listener' if pick == 0 else 'custom function'
        repl, cells2, funcs2 = {}, {}, dict(funcs)
        for i, k in enumerate(sorted(vars)):
            v = vars[k]
            if pick == 0:
                if isinstance(v, list):
                    repl[k] = 'Q%d:S%d' % (100 + 10 * i, 105 + 10 * i)
                else:
                    repl[k] = 'Q%d' % (100 + 10 * i)
                cells2[repl[k]] = v
            else:
                fname = 'HXVIA' + 'ABCDEFGHIJKLMNOPQRSTUVWXYZ'[i % 26] + 'ABCDEFGHIJKLMNOPQRSTUVWXYZ'[i // 26 % 26]
                repl[k] = fname + '()'
                funcs2[fname] = (lambda v=v: v)
        pat = re.compile(r'(?<![A-Za-z0-9_$.!:#])(%s)(?![A-Za-z0-9_.!:]|\s*\()' % '|'.join(re.escape(k) for k in names))
        parts = self._STRINGS.split(formula)
        n = 0
        for j in range(0, len(parts), 2):
            parts[j], c = pat.subn(lambda m: repl[m.group(1)], parts[j])
            n += c
        if not n:
            return
        text = ''.join(parts)
        saved, self.channels = self.channels, 0
        try:
            o2 = self.evo(text, None, funcs2, cells2 if pick == 0 else None)
        finally:
            self.channels = saved
        o1 = self.out(r)
        if o1 != o2:
            raise ChannelDiff(fail(
                'the same values handed in two ways give different results: %s with variables %s gives %r, but %s with the '
                'values delivered by the %s gives %r' % (formula, dict((k, enc(v)) for k, v in vars.items()), o1, text, how, o2),
                o1, o2))

    def out(self, r):
        """Normalised, JSON-able outcome of a parse."""
        if isinstance(r, tuple) and len(r) == 2 and r[0] == 'raised':
            return ['x', type(r[1]).__name__]
        if not isinstance(r, dict) or set(r.keys()) != {'result', 'error'}:
            return ['bad', _safe_repr(r)]
        if r['error'] is not None:
            if r['result'] is not None:
                return ['bad', 'error=%r with result=%s' % (r['error'], _safe_repr(r['result']))]
            return ['e', r['error']]
        return ['v', enc(r['result'])]

    def evo(self, formula, vars=None, funcs=None, cells=None):
        return self.out(self.ev(formula, vars, funcs, cells))


# --------------------------------------------------------------------------

def digits_of(n):
    """str(n) for a whole number of any size (the interpreter refuses more than 4300 digits at once)."""
    sign, n = ('-' if n < 0 else ''), abs(n)
    parts = []
    while n >= 10 ** 4000:
        n, rest = divmod(n, 10 ** 4000)
        parts.append('%04000d' % rest)
    parts.append(str(n))
    return sign + ''.join(reversed(parts))


def lit(v):
    """Render a JSON-level scalar as a formula literal (numbers, text, logicals)."""
    if v is True:
        return 'TRUE'
    if v is False:
        return 'FALSE'
    if isinstance(v, str):
        q = '"' if '"' not in v else "'"
        if q in v:
            raise ValueError('cannot quote %r' % v)
        return q + v + q
    if isinstance(v, int):
        return str(v) if v >= 0 else '(-%d)' % -v
    if isinstance(v, float):
        s = repr(abs(v))
        if 'e' in s or 'n' in s:
            raise ValueError('cannot spell %r' % v)
        return s if v >= 0 else '(-%s)' % s
    raise ValueError('no literal for %r' % (v,))


def close(a, b, rel=1e-9, abs_=1e-12):
    """R2 numeric comparison policy (a: actual number, b: reference number/Fraction)."""
    try:
        fa, fb = float(a), float(b)
    except (TypeError, ValueError, OverflowError):
        return False
    if math.isnan(fa) or math.isnan(fb):
        return False
    if fa == fb:
        return True
    if math.isinf(fa) or math.isinf(fb):
        return False        # an infinity is close to nothing but itself (inf <= rel * inf would hold)
    return abs(fa - fb) <= max(abs_, rel * max(abs(fa), abs(fb)))


def isnum(x):
    return isinstance(x, (int, float)) and not isinstance(x, bool)


class Sub(object):
    """One sub-check: a finite space of cases and an oracle for one case.

    units(tier)        -> list of JSON-able unit descriptors (work is sharded over units)
    cases(tier, unit)  -> iterator over JSON-able cases (pairwise distinct by construction)
    check(env, case)   -> None | str | dict(msg=, expected=, actual=) | list of those
    """
    name = None
    rule = ''
    stride = True          # shard each unit over all workers by case index
    min_cases = 1          # vacuity guards (harness error when not reached)
    min_nontrivial = 1
    min_classes = 0
    tiers = ('quick', 'thorough')

    def units(self, tier):
        return [None]

    def cases(self, tier, unit):
        raise NotImplementedError

    def check(self, env, case):
        raise NotImplementedError

    def describe(self, case):
        return case


def fail(msg, expected=None, actual=None, case=None):
    """`case`: a narrower, replayable case (the sub's check() must accept it) when the
    enumerated case is a block of many inputs."""
    d = {'msg': msg, 'expected': expected, 'actual': actual}
    if case is not None:
        d['case'] = case
    return d


def same_value(a, b):
    """two normalised outcomes denote the same value (numbers by R2, everything else exactly)"""
    if a == b:
        return True
    if a[0] != b[0]:
        return False
    if a[0] != 'v':
        return False

    def eq(x, y):
        if isnum(x) and isnum(y):
            return close(x, y)
        if isinstance(x, list) and isinstance(y, list):
            return len(x) == len(y) and all(eq(p, q) for p, q in zip(x, y))
        return x == y and type(x) is type(y)
    return eq(a[1], b[1])


class WholeFloats(Sub):
    """A whole number is the same number whether it arrives as 2 or as 2.0 (the result of 4/2, a cell holding a
    float): for every template and integer argument tuple, replacing any integer argument by its float spelling
    (`2.0`, `(4/2)`, a float variable) must not change the outcome."""
    rule = ('templates x integer argument tuples: each integer argument is replaced in turn (and all at once) by the same '
            'whole number as a decimal literal k.0, as the quotient (2k/2) and as a float-valued variable; the outcome must '
            'equal the outcome with integer arguments; non-trivial = all')
    min_cases = 3
    min_nontrivial = 3
    TEMPLATES = []      # (template with {0} {1} ..., [tuples of ints])

    def cases(self, tier, unit):
        for ti, (tmpl, tuples) in enumerate(self.TEMPLATES):
            for args in tuples:
                yield [ti, list(args)]

    @staticmethod
    def spell(k, how):
        if how == 'int':
            return str(k) if k >= 0 else '(0-%d)' % -k
        if how == 'dec':
            return '%d.0' % k if k >= 0 else '(0-%d.0)' % -k
        if how == 'quot':
            return '(%d/2)' % (2 * k) if k >= 0 else '(0-%d/2)' % (-2 * k)
        return 'xf%s' % 'abcdef'[how]       # variable (letters only: xf0 would be a cell reference)

    def check(self, env, case):
        ti, args = case
        tmpl = self.TEMPLATES[ti][0]
        env.nt()
        base_text = tmpl.format(*[self.spell(k, 'int') for k in args])
        base = env.evo(base_text, vars=getattr(self, 'VARS', None))
        if base[0] in ('x', 'bad') or base == ['e', '#ERROR!']:
            return fail('reference formula %r itself fails: %r' % (base_text, base))
        positions = [[i] for i in range(len(args))] + ([list(range(len(args)))] if len(args) > 1 else [])
        for pos in positions:
            for how in ('dec', 'quot', 'var'):
                vars = dict(getattr(self, 'VARS', None) or {})
                parts = []
                for i, k in enumerate(args):
                    if i in pos:
                        if how == 'var':
                            vars['xf%s' % 'abcdef'[i]] = float(k)
                            parts.append('xf%s' % 'abcdef'[i])
                        else:
                            parts.append(self.spell(k, how))
                    else:
                        parts.append(self.spell(k, 'int'))
                text = tmpl.format(*parts)
                out = env.evo(text, vars=vars)
                if not same_value(out, base):
                    return fail('%r gives %r but with the same whole numbers written as floats %r%s gives %r' % (
                        base_text, base, text, (' with %s' % dict((k, v) for k, v in vars.items() if k.startswith('xf')))
                        if how == 'var' else '', out), base, out)
        return None


class Siblings(Sub):
    """Functions of one family must not leak into each other: a memo, scratch table or default-argument dict shared
    by several functions makes whichever runs first decide what the others return for equal arguments.  For every
    group of templates and every argument tuple, all templates are evaluated on that tuple in ONE pristine process
    (in the listed order, and in the reverse order, so every ordered pair of functions occurs); each outcome must be
    bit-identical to the outcome of the same formula as the ONLY evaluation of a pristine process."""
    rule = ('groups of function templates x shared argument tuples x {listed order, reverse order}: every formula of the '
            'sequence, evaluated in one pristine process, must give exactly the outcome it gives as the only evaluation '
            'of a pristine process; non-trivial = all')
    min_cases = 4
    min_nontrivial = 4
    GROUPS = []         # ([templates with {0} {1} ..], [argument tuples])
    MODULE = None       # set NEEDS_ZYGOTE = True in the property module

    def cases(self, tier, unit):
        for gi, (tmpls, tuples) in enumerate(self.GROUPS):
            for args in tuples:
                for order in ('fwd', 'rev'):
                    yield [gi, list(args), order]
            # one long history per template: the same function on every argument tuple in turn (a memo keyed on something
            # that does not identify the argument - its id(), its length, its first item - then answers for another one)
            for ti in range(len(tmpls)):
                yield [gi, ti, 'args-major']
            yield [gi, None, 'everything']

    def fmt(self, tmpl, args):
        return tmpl.format(*[(a[1:] if isinstance(a, str) and a.startswith('={') else lit(a)) for a in args])

    def check(self, env, case):
        from . import zygote
        gi, args, order = case
        tmpls, tuples = self.GROUPS[gi]
        if order == 'args-major':
            forms = [self.fmt(tmpls[args], a) for a in tuples]
            forms = forms + forms[::-1]
        elif order == 'everything':
            forms = [self.fmt(t, a) for a in tuples for t in tmpls]
        else:
            forms = [self.fmt(t, args) for t in tmpls]
            if order == 'rev':
                forms = forms[::-1]
        env.nt()
        got = zygote.call('hxverif.pristine', 'run', {'formulas': forms})
        env.evals += len(forms)
        refs = env.__dict__.setdefault('_sibling_refs', {})
        for i, f in enumerate(forms):
            if f not in refs:
                refs[f] = zygote.call('hxverif.pristine', 'run', {'formulas': [f]})[0]
                env.evals += 1
            env.note('same' if i else 'first')
            if got[i] != refs[f]:
                return fail('%s gives %r when evaluated after %s in the same process; as the only evaluation of a fresh '
                            'process it gives %r' % (f, got[i], (('... ' if i > 8 else '') + ', '.join(forms[max(0, i - 8):i])) or 'nothing', refs[f]),
                            refs[f], got[i])
        return None


class local_timezone(object):
    """`with local_timezone('EST5EDT,M3.2.0,M11.1.0'):` - the process runs in that zone (POSIX TZ string, no zone database
    needed); restored afterwards.  The host's time zone is an environment answer like the clock: no result may depend on it."""

    def __init__(self, tz):
        self.tz = tz

    def __enter__(self):
        import os
        import time
        self.old = os.environ.get('TZ')
        os.environ['TZ'] = self.tz
        time.tzset()
        return self

    def __exit__(self, *a):
        import os
        import time
        if self.old is None:
            os.environ.pop('TZ', None)
        else:
            os.environ['TZ'] = self.old
        time.tzset()
        return False


class wall_clock(object):
    """`with wall_clock((2024, 2, 29, 23, 59, 58)) as c:` - "now" is that instant for the library and for the date parser it
    uses: every module of hotxlfp.* and dateutil.parser._parser that holds the `datetime` MODULE under that name sees a copy
    whose datetime.now / today / utcnow and date.today answer the chosen instant (time.time is answered likewise where a
    module holds `time`).  c.patched lists the seams taken; an empty list means the clock could not be owned."""

    def __init__(self, now):
        self.now = tuple(now)
        self.patched = []
        self.saved = []

    def __enter__(self):
        import datetime as _dt
        import sys
        import types
        fixed = _dt.datetime(*self.now)

        class _AnyDateTime(type):
            # a date-time made before the seam was taken (a host value, a module constant) is still a date-time
            def __instancecheck__(cls, inst):
                return isinstance(inst, _dt.datetime)

        class _AnyDate(type):
            def __instancecheck__(cls, inst):
                return isinstance(inst, _dt.date)

        class ClockDateTime(_dt.datetime, metaclass=_AnyDateTime):
            @classmethod
            def now(cls, tz=None):
                return fixed if tz is None else fixed.replace(tzinfo=_dt.timezone.utc).astimezone(tz)

            @classmethod
            def today(cls):
                return fixed

            @classmethod
            def utcnow(cls):
                return fixed

        class ClockDate(_dt.date, metaclass=_AnyDate):
            @classmethod
            def today(cls):
                return fixed.date()
        stub = types.ModuleType('datetime')
        stub.__dict__.update(_dt.__dict__)
        stub.datetime = ClockDateTime
        stub.date = ClockDate
        for name in sorted(sys.modules):
            if name == 'hotxlfp' or name.startswith('hotxlfp.') or name == 'dateutil.parser._parser':
                mod = sys.modules[name]
                if mod is not None and getattr(mod, 'datetime', None) is _dt:
                    self.saved.append((mod, 'datetime', _dt))
                    mod.datetime = stub
                    self.patched.append(name)
                # a date parser remembers the year in which it was built (the century window of two-digit years): every parser
                # object held by these modules is put into the chosen year, as if the process had been started then
                for holder in list(vars(mod).values()) if mod is not None else ():
                    info = getattr(holder, 'info', None)
                    if info is not None and isinstance(getattr(info, '_year', None), int) and isinstance(getattr(info, '_century', None), int):
                        self.saved.append((info, '_year', info._year))
                        self.saved.append((info, '_century', info._century))
                        info._year = fixed.year
                        info._century = fixed.year // 100 * 100
        return self

    def __exit__(self, *a):
        for mod, name, val in self.saved:
            setattr(mod, name, val)
        return False


ZONES = ['UTC0', 'EST5EDT,M3.2.0,M11.1.0', 'GMT0BST,M3.5.0/1,M10.5.0/2', 'IST-5:30', 'NZST-12NZDT,M9.5.0,M4.1.0/3', 'HST10']


# sizes for "scale" sub-checks: every small size, and the neighbourhood of the thresholds a fast path, a buffer or a
# batch size is usually given (powers of two, 100, 1000); bounded enumeration of *values* cannot see a defect that
# needs a list of 300 items, this ladder can
SCALE = [1, 2, 3, 4, 5, 6, 7, 8, 9, 10, 11, 12, 13, 15, 16, 17, 20, 24, 25, 31, 32, 33, 50, 63, 64, 65, 99, 100, 101, 127, 128, 129,
         200, 255, 256, 257, 300, 500, 511, 512, 513, 999, 1000, 1001, 1023, 1024, 1025, 2047, 2048, 2049, 4095, 4096, 4097]


def scale(tier, top=None):
    out = SCALE if tier == 'thorough' else [n for n in SCALE if n <= 1025]
    return [n for n in out if top is None or n <= top]
