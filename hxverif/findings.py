# -*- coding: utf-8 -*-
"""Known findings: genuine defects recorded rather than repaired.

/verif/known_findings.json is read-only at run time.  An entry suppresses a violation
only if it names the same sub-check *and* its `where` predicate (a Python expression over
the failing case `c`, the failure message `msg`) is true - i.e. findings are identified by
the failing input, not by the property, so any other violation is still reported."""
import json
import os
import re

PATH = os.path.join(os.path.dirname(os.path.dirname(os.path.abspath(__file__))), 'known_findings.json')

_SAFE = {'re': re, 'len': len, 'any': any, 'all': all, 'isinstance': isinstance, 'str': str,
         'int': int, 'float': float, 'list': list, 'dict': dict, 'abs': abs, 'set': set,
         'tuple': tuple, 'bool': bool, 'min': min, 'max': max, 'sorted': sorted, 'True': True,
         'False': False, 'None': None}


def load(path=PATH):
    if not os.path.exists(path):
        return {'known': [], 'fixed': []}
    with open(path) as f:
        d = json.load(f)
    d.setdefault('known', [])
    d.setdefault('fixed', [])
    return d


def match(entry, prop, failure):
    if entry.get('property') != prop:
        return False
    if entry.get('sub') and entry['sub'] != failure.get('sub'):
        return False
    where = entry.get('where')
    if not where:
        return False       # an entry must identify inputs; never match a whole sub-check
    try:
        return bool(eval(where, {'__builtins__': {}}, dict(_SAFE, c=failure.get('case'),
                                                             msg=failure.get('msg') or '',
                                                             f=failure)))
    except Exception:
        return False


def split(prop, failures, data=None):
    """-> (unlisted failures, {entry id: (entry, count, first failure)})"""
    data = data if data is not None else load()
    entries = [e for e in data['known'] if e.get('property') == prop]
    hit = {}
    new = []
    for fl in failures:
        for e in entries:
            if match(e, prop, fl):
                k = e.get('id') or e.get('what')
                if k in hit:
                    hit[k][1] += 1
                else:
                    hit[k] = [e, 1, fl]
                break
        else:
            new.append(fl)
    return new, hit
