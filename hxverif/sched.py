# -*- coding: utf-8 -*-
"""Cooperative thread scheduler and preemption-bounded schedule search (DESIGN 4.4).

Two real OS threads run their bodies under sys.settrace; a *scheduling point* is every `line`
event in a file of the snapshot's hotxlfp/ package and every call of ply.lex's Lexer.input /
Lexer.token / Lexer.clone.  Exactly one thread is runnable at any time (one semaphore per
thread, the baton); at a point the explorer either lets the thread continue (choice 0) or
hands the baton to the other thread (choice 1 = one preemption).  Executions are enumerated
by the stateless DFS of iterative context bounding.  The GIL makes one bytecode the true
atomic step; line granularity is the stated approximation."""
import os
import sys
import threading


class Divergence(Exception):
    pass


class Execution(object):
    def __init__(self, bodies, choices, pkgdir, start=0):
        self.bodies = bodies
        self.choices = list(choices)
        self.start = start
        self.pkgdir = pkgdir
        self.sems = [threading.Semaphore(0) for _ in bodies]
        self.done = [False] * len(bodies)
        self.results = [None] * len(bodies)
        self.points = []            # (tid, file:line) of every decision point (both threads alive)
        self.taken = []             # choice taken at each decision point
        self.total_points = [0] * len(bodies)
        self.lock_error = None

    # ---- tracing
    def _global_trace(self, tid):
        pkg = self.pkgdir

        def local(frame, event, arg):
            if event == 'line':
                self._point(tid, frame)
            return local

        def glob(frame, event, arg):
            if event != 'call':
                return None
            code = frame.f_code
            fn = code.co_filename
            if fn.startswith(pkg):
                self._point(tid, frame)
                return local
            if fn.endswith('lex.py') and code.co_name in ('input', 'token', 'clone'):
                self._point(tid, frame)
            return None
        return glob

    def _point(self, tid, frame):
        self.total_points[tid] += 1
        other = 1 - tid
        if self.done[other]:
            return
        idx = len(self.taken)
        choice = self.choices[idx] if idx < len(self.choices) else 0
        self.points.append((tid, '%s:%d' % (os.path.basename(frame.f_code.co_filename), frame.f_lineno)))
        self.taken.append(choice)
        if choice:
            self.sems[other].release()
            self.sems[tid].acquire()

    def _run_thread(self, tid):
        self.sems[tid].acquire()
        sys.settrace(self._global_trace(tid))
        try:
            try:
                self.results[tid] = ('ok', self.bodies[tid]())
            except BaseException as e:      # noqa
                self.results[tid] = ('raised', e)
        finally:
            sys.settrace(None)
            self.done[tid] = True
            other = 1 - tid
            if not self.done[other]:
                self.sems[other].release()

    def run(self):
        threads = [threading.Thread(target=self._run_thread, args=(i,)) for i in range(len(self.bodies))]
        for t in threads:
            t.daemon = True
            t.start()
        self.sems[self.start].release()
        for t in threads:
            t.join(60)
            if t.is_alive():
                raise Divergence('a thread did not finish (deadlock in the harness?)')
        return self


def explore(make_bodies, pkgdir, bound, check, first=None, start=0, stats=None, limit=None, ref_cache=None):
    """Enumerate all schedules with <= bound preemptions.

    make_bodies() -> (bodies, context)   fresh objects per execution
    check(execution, context)            -> failure or None
    first: if not None, only schedules whose FIRST preemption is at decision point `first`
           (sharding); first=-1 means the schedule with no preemption only.
    Returns (failure or None).  stats: dict updated with executions / decision points."""
    stats = stats if stats is not None else {}

    def run(choices):
        bodies, ctx = make_bodies()
        ex = Execution(bodies, choices, pkgdir, start=start).run()
        stats['executions'] = stats.get('executions', 0) + 1
        stats['max_points'] = max(stats.get('max_points', 0), len(ex.taken))
        stats['thread_points'] = max(stats.get('thread_points', 0), min(ex.total_points))
        return ex, ctx

    def rec(choices, ref_points, used):
        ex, ctx = run(choices)
        # replaying a prefix must reproduce the recorded points exactly
        if ref_points is not None:
            n = len(choices)
            if ex.points[:n] != ref_points[:n]:
                raise Divergence('replay of prefix %r diverged: %r vs %r' % (choices, ex.points[:n][-3:], ref_points[:n][-3:]))
        f = check(ex, ctx)
        if f:
            return f, choices
        if limit is not None and stats.get('executions', 0) >= limit:
            stats['capped'] = True
            return None, None
        if used >= bound:
            return None, None
        for i in range(len(choices), len(ex.taken)):
            alt = choices + [0] * (i - len(choices)) + [1]
            r = rec(alt, ex.points, used + 1)
            if r[0]:
                return r
        return None, None

    if first is None:
        return rec([], None, 0)
    if first < 0:
        ex, ctx = run([])
        return check(ex, ctx), []
    if bound < 1:
        return None, None
    if ref_cache is not None and 'points' in ref_cache:
        ref_points = ref_cache['points']
    else:
        ex, ctx = run([])
        ref_points = ex.points
        if ref_cache is not None:
            ref_cache['points'] = ref_points
    if first >= len(ref_points):
        stats['beyond'] = stats.get('beyond', 0) + 1
        return None, None
    return rec([0] * first + [1], ref_points, 1)
