# -*- coding: utf-8 -*-
"""Pristine-process fork server.

Some oracles need "the outcome in a process that has evaluated nothing else" (C02: a process-wide
memo or scratch buffer pollutes every parser created afterwards, so a fresh *parser* in a worker
that has already evaluated thousands of formulas is not a fresh *process*).  Starting an
interpreter per case costs ~150 ms; instead the runner forks one zygote right after the snapshot
is installed and before any formula is evaluated.  The zygote never evaluates anything itself: for
every request it forks a grandchild, which runs `module.function(payload)` and sends the JSON
result back.  Workers talk to it over a unix socket."""
import json
import os
import signal
import socket
import struct
import sys
import tempfile
import traceback

_ADDR = None
_PID = None


def _send(sock, obj):
    data = json.dumps(obj, default=str).encode('utf-8')
    sock.sendall(struct.pack('!I', len(data)) + data)


def _recv(sock):
    hdr = b''
    while len(hdr) < 4:
        chunk = sock.recv(4 - len(hdr))
        if not chunk:
            return None
        hdr += chunk
    n = struct.unpack('!I', hdr)[0]
    buf = b''
    while len(buf) < n:
        chunk = sock.recv(min(65536, n - len(buf)))
        if not chunk:
            return None
        buf += chunk
    return json.loads(buf.decode('utf-8'))


def start():
    """fork the zygote (idempotent); returns its socket address"""
    global _ADDR, _PID
    if _ADDR is not None:
        return _ADDR
    inherited = os.environ.get('HXVERIF_ZYGOTE')
    if inherited and os.path.exists(inherited):
        _ADDR = inherited
        return _ADDR
    d = tempfile.mkdtemp(prefix='hxverif-zyg-', dir='/dev/shm' if os.path.isdir('/dev/shm') else None)
    addr = os.path.join(d, 'sock')
    srv = socket.socket(socket.AF_UNIX, socket.SOCK_STREAM)
    srv.bind(addr)
    srv.listen(64)
    pid = os.fork()
    if pid == 0:
        try:
            _serve(srv)
        finally:
            os._exit(0)
    srv.close()
    _ADDR, _PID = addr, pid
    os.environ['HXVERIF_ZYGOTE'] = addr
    import atexit
    owner = os.getpid()

    def _stop():
        if os.getpid() != owner:
            return
        try:
            os.kill(pid, signal.SIGTERM)
            os.waitpid(pid, 0)
        except Exception:
            pass
        try:
            os.unlink(addr)
            os.rmdir(d)
        except OSError:
            pass
    atexit.register(_stop)
    return addr


def _serve(srv):
    signal.signal(signal.SIGCHLD, signal.SIG_IGN)      # no zombies
    signal.signal(signal.SIGTERM, lambda *a: os._exit(0))
    while True:
        try:
            conn, _ = srv.accept()
        except InterruptedError:
            continue
        pid = os.fork()
        if pid == 0:
            try:
                srv.close()
                req = _recv(conn)
                try:
                    import importlib
                    mod = importlib.import_module(req['module'])
                    res = {'ok': getattr(mod, req['function'])(req['payload'])}
                except BaseException:      # noqa
                    res = {'crash': traceback.format_exc()[-1500:]}
                _send(conn, res)
                conn.close()
            finally:
                os._exit(0)
        conn.close()


def call(module, function, payload, timeout=300):
    """run module.function(payload) in a pristine grandchild; returns its JSON-able result"""
    addr = _ADDR or os.environ.get('HXVERIF_ZYGOTE')
    if not addr:
        raise RuntimeError('zygote not started')
    s = socket.socket(socket.AF_UNIX, socket.SOCK_STREAM)
    s.settimeout(timeout)
    s.connect(addr)
    try:
        _send(s, {'module': module, 'function': function, 'payload': payload})
        res = _recv(s)
    finally:
        s.close()
    if res is None:
        raise RuntimeError('zygote: no answer')
    if 'crash' in res:
        raise RuntimeError('zygote task crashed:\n' + res['crash'])
    return res['ok']
