#!/usr/bin/env python3
"""Run every quick check against a behaviour-PRESERVING change: any alarm is a false alarm of the machinery.

  tools/benign.py <name> <patch.diff> [equiv.py] [--props=C01,C02,..] [--jobs=N]

1. scratch worktree of /repo HEAD under /tmp/vm/<name> (removed afterwards)
2. the patch applies, the repository's test suite still passes (165 passed)
3. when equiv.py is given: its output on the clean and on the patched tree is byte-identical
4. ./check <Cxx> quick for every property (HXVERIF_REPO=<worktree>), N at a time
Writes /verif/seeded/benign/<name>/{patch.diff,meta.json}; prints one JSON summary."""
import concurrent.futures
import hashlib
import json
import os
import shutil
import subprocess
import sys
import time

VERIF = os.path.dirname(os.path.dirname(os.path.abspath(__file__)))
PY = '/venv/bin/python'


def sh(cmd, cwd=None, env=None, timeout=3600):
    p = subprocess.run(cmd, shell=True, cwd=cwd, env=env, stdout=subprocess.PIPE, stderr=subprocess.STDOUT, timeout=timeout)
    return p.returncode, p.stdout.decode(errors='replace')


def run_check(pid, wt, out):
    env = dict(os.environ, HXVERIF_REPO=wt, HXVERIF_OUT=os.path.join(out, pid))
    os.makedirs(env['HXVERIF_OUT'], exist_ok=True)
    t = time.time()
    rc, o = sh('./check %s quick' % pid, cwd=VERIF, env=env)
    lines = o.splitlines()
    msgs = [lines[i - 1].strip()[:500] for i, l in enumerate(lines) if l.startswith('VIOLATION') and i > 0]
    return pid, {'exit': rc, 'violations': len(msgs), 'first': msgs[:3], 'wall_s': round(time.time() - t, 1),
                 'harness_errors': [l[:300] for l in lines if l.startswith('HARNESS-ERROR')][:3],
                 'tail': '' if rc == 0 else '\n'.join(lines[-6:])[-800:]}


def main(argv):
    args = [a for a in argv if not a.startswith('-')]
    if len(args) < 2:
        print(__doc__)
        return 2
    name, patch = args[0], os.path.abspath(args[1])
    equiv = os.path.abspath(args[2]) if len(args) > 2 else None
    jobs = 4
    props = None
    for i, a in enumerate(argv):
        if a.startswith('--props='):
            props = a[len('--props='):].split(',')
        if a.startswith('--jobs='):
            jobs = int(a[len('--jobs='):])
    man = json.load(open(os.path.join(VERIF, 'MANIFEST.json')))
    props = props or [c['property_id'] for c in man['checks']]
    wt = '/tmp/vm/%s' % name
    out = '/tmp/vm/%s_out' % name
    os.makedirs('/tmp/vm', exist_ok=True)
    sh('git -C /repo worktree remove --force %s' % wt)
    shutil.rmtree(wt, ignore_errors=True)
    rc, o = sh('git -C /repo worktree add --detach %s HEAD' % wt)
    if rc:
        print(o)
        return 2
    meta = {'name': name, 'kind': 'behaviour-preserving', 'repo_head': sh('git -C /repo rev-parse --short HEAD')[1].strip()}
    try:
        h0 = None
        if equiv:
            rc0, o0 = sh('%s %s 2>/dev/null' % (PY, equiv), cwd=wt, env=dict(os.environ, PYTHONHASHSEED='0'))
            h0 = hashlib.sha256(o0.encode()).hexdigest()
        rc, o = sh('git apply %s' % patch, cwd=wt)
        if rc:
            meta['applies'] = False
            print(json.dumps(meta, indent=1))
            return 2
        rc, o = sh('%s -m pytest -q -p no:cacheprovider' % PY, cwd=wt)
        meta['tests'] = o.strip().splitlines()[-1] if o.strip() else ''
        meta['tests_pass'] = (rc == 0 and '165 passed' in meta['tests'])
        if equiv:
            rc1, o1 = sh('%s %s 2>/dev/null' % (PY, equiv), cwd=wt, env=dict(os.environ, PYTHONHASHSEED='0'))
            meta['equiv_identical'] = (hashlib.sha256(o1.encode()).hexdigest() == h0 and rc1 == rc0)
            meta['equiv_bytes'] = len(o1)
        with concurrent.futures.ThreadPoolExecutor(jobs) as ex:
            res = dict(ex.map(lambda p: run_check(p, wt, out), props))
        meta['checks'] = res
        meta['alarms'] = sorted(p for p, r in res.items() if r['exit'] != 0 or r['violations'])
    finally:
        sh('git -C /repo worktree remove --force %s' % wt)
        shutil.rmtree(wt, ignore_errors=True)
        shutil.rmtree(out, ignore_errors=True)
    d = os.path.join(VERIF, 'seeded', 'benign', name)
    os.makedirs(d, exist_ok=True)
    shutil.copy(patch, os.path.join(d, 'patch.diff'))
    notes = os.path.splitext(patch)[0].replace('patch', 'notes') + '.md'
    if os.path.exists(notes):
        shutil.copy(notes, os.path.join(d, 'notes.md'))
    meta['ran'] = ['git apply patch.diff (scratch worktree of /repo HEAD)', 'pytest -q (165 passed required)',
                   'equiv.py on clean and patched tree (identical output required)' if equiv else 'no differential program',
                   'HXVERIF_REPO=<worktree> ./check <every property> quick: no alarm expected']
    with open(os.path.join(d, 'meta.json'), 'w') as f:
        json.dump(meta, f, indent=1)
    brief = {k: v for k, v in meta.items() if k not in ('checks', 'ran')}
    brief['walls'] = {p: r['wall_s'] for p, r in meta.get('checks', {}).items()}
    brief['details'] = {p: meta['checks'][p] for p in meta.get('alarms', [])}
    print(json.dumps(brief, indent=1))
    return 0


if __name__ == '__main__':
    sys.exit(main(sys.argv[1:]))
