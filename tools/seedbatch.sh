#!/bin/sh
# Batch confirmation of seeded changes produced by sub-agents under /tmp/mut/<ID>_out/
#   KS="5 6" tools/seedbatch.sh C01 C02 ...   (writes one summary line per change)
cd /verif || exit 2
for id in "$@"; do
  for k in ${KS:-1 2}; do
    if [ -f /tmp/mut/${id}_out/patch$k.diff ]; then
      extra=""
      [ "$id" = "C03" ] && extra="--no-thorough"
      python3 tools/seed.py verify $id ${id}-$k /tmp/mut/${id}_out/patch$k.diff /tmp/mut/${id}_out/demo$k.py $extra $SEED_EXTRA > /tmp/vm/${id}-$k.json 2>&1
      python3 - "$id" "$k" <<'PY'
import json, sys
pid, k = sys.argv[1], sys.argv[2]
t = open('/tmp/vm/%s-%s.json' % (pid, k)).read()
try:
    d = json.loads(t[t.index('{'):])
    if not d.get('applies', True):
        print('%s-%s' % (pid, k), 'DOES-NOT-APPLY')
    else:
        print('%s-%s' % (pid, k), 'valid' if d.get('valid') else 'INVALID', 'DETECTED' if d.get('detected') else 'MISSED',
              [(r['tier'], r['exit'], r['violations'], r['wall_s']) for r in d['checks'][pid]], d.get('tests'))
except Exception as e:
    print('%s-%s' % (pid, k), 'unparsable', t[-300:])
PY
    fi
  done
done
