#!/usr/bin/env python3
"""Regenerates the table of seeded changes in DESIGN.md (between the SEEDED markers) from
/verif/seeded/*/meta.json."""
import glob
import json
import os
import re

HERE = os.path.dirname(os.path.dirname(os.path.abspath(__file__)))
BEGIN, END = '<!-- SEEDED-BEGIN -->', '<!-- SEEDED-END -->'

OUT_OF_SCOPE = {
    'K03-2': 'not a violation of the statement: it shows only for a range whose two corners are the SAME cell written with different $ markers '
             '(A1:$A$1): the written corners change places, but of one cell neither spelling is the top-left rather than the bottom-right one - '
             '`c10.ranges` demands the written corners only where exactly one of row and column ties',
    'I07-1': 'not a violation of the statement: PV reads a float rate as the decimal it is written as; the result moves by a relative 6e-15 '
             'at 1000 periods (tens of units in the last place where the future value dominates), which a formula evaluated in doubles '
             'also shows - "to within floating-point rounding" is held at 1e-12 of the terms by `c16.pv` on purpose, and at 16 units in '
             'the last place only where 1+r and its power are exact doubles',
    'H05-2': 'not a violation of the statement: it changes the outcome only where the harmonic mean has no textbook value (a zero AND a '
             'negative item: 0 instead of #NUM!); the outcome stays the same in every order and grouping, which is all that is demanded there',
    'G01-1': 'not a violation of the statement (as C10-1, C19-8, F05-1): for a range whose corners share a row or a column the end '
             'cell inherits the $ marker of the start corner on the shared part; coordinates and labels of both cells stay right [judged so when it was tried; the fifth red-team round reported the same situation against the clean tree and the reading was taken in: the library now delivers the written corners of a one-row / one-column range, `c10.ranges` demands it, and this change no longer applies]',
    'F05-1': 'not a violation of the statement (same situation as C10-1 and C19-8): for a range whose corners share a row or a '
             'column it moves the $ marker from one corner to the other; coordinates and labels of both reported cells stay '
             'right, and no statement fixes marker attribution between range corners on ties [judged so when it was tried; the fifth red-team round reported the same situation against the clean tree and the reading was taken in: the library now delivers the written corners of a one-row / one-column range, `c10.ranges` demands it, and this change no longer applies]',
    'C17-12': 'not a violation of the statement: INT stays value-correct for every input, only the TYPE of a whole result follows the '
              'argument (3.0 stays a float, TRUE a logical); the difference shows where CONCATENATE / LEN spell a whole float with '
              '".0", which no statement covers (under & a whole float joins as its digits since the whole-float repair)',
    'C04-9': 'not a violation of C04 (nor of C06): it makes whole-number floats of 1e15 and more join under & as their digits '
             'instead of Python\'s float spelling - which is what C06 asks for ("integers as their digits"); the bound of 1e15 in '
             'the repaired library was arbitrary and has since been moved to 2^53, beyond which nothing is demanded',
    'C13-9': 'not a violation of the statement: it refuses date TEXT longer than 32 characters after stripping, i.e. long-form '
             'English spellings ("Wednesday, 1 September 2021 00:00"); which spellings count as date text is fixed by no statement '
             '(C13 speaks of date-times and serials, C14 of ISO text); blank-padded ISO text of any length is checked by c06.scale',
    'C19-10': 'not a violation of C19: the label helpers are untouched; the change makes the lexer skip characters it has no token '
              'for ("A1?", "@A1" evaluate as A1) - which characters the formula language rejects is fixed by no statement',
    'C19-8': 'not a violation of the statement (same situation as C10-1): for a range whose corners share a row or column it '
             'moves a $ marker from one corner to the other; coordinates and labels of both corners stay right, and the '
             'statements fix marker fidelity for single cells and for label decomposition, not for range corners on ties [judged so when it was tried; the fifth red-team round reported the same situation against the clean tree and the reading was taken in: the library now delivers the written corners of a one-row / one-column range, `c10.ranges` demands it, and this change no longer applies]',
    'C06-6': 'not a violation of any statement: it shifts the serial of date-times inside 28 February 1900 (not at midnight) by '
             'one; before 1 March 1900 the statements (C13) demand only the date -> serial -> date round trip and strict '
             'monotonicity, both of which still hold, and C06 speaks of "their serial" without fixing it there',
    'C10-1': 'not a violation of the statement: it only moves a $ marker between two corners that share a row; the '
             'statement fixes coordinates and labels of range corners, not marker attribution on ties [judged so when it was tried; the fifth red-team round reported the same situation against the clean tree and the reading was taken in: the library now delivers the written corners of a one-row / one-column range, `c10.ranges` demands it, and this change no longer applies]',
    'C13-4': 'not a violation of the statement as read here: DATEVALUE of date-time TEXT dropping the time of day is what '
             'Excel does; the statement speaks of date-times and their serials, not of which function reads the time out of '
             'text (C14 checks HOUR/MINUTE/SECOND of ISO text)',
    'C17-2': 'not a violation of the statement as read here: CEILING of a positive number with a negative significance '
             '(Excel: #NUM!) is listed under "not demanded" - an error or either adjacent multiple is accepted',
}


def first_sentence(text, n=260):
    text = re.sub(r'\s+', ' ', text or '').strip()
    return text[:n] + ('…' if len(text) > n else '')


def main():
    rows = []
    for path in sorted(glob.glob(os.path.join(HERE, 'seeded', '*', 'meta.json'))):
        m = json.load(open(path))
        name = m['name']
        prop = m['property']
        res = m.get('checks', {}).get(prop, [])
        det = [r for r in res if r.get('exit') == 1 and r.get('violations')]
        other = [(pid, r[0]) for pid, r in m.get('checks', {}).items()
                 if pid != prop and r and r[0].get('exit') == 1 and r[0].get('violations')]
        if det:
            verdict = 'caught by `./check %s %s`' % (prop, det[0]['tier'])
            witness = first_sentence(det[0].get('first', ''), 220)
        elif other:
            verdict = 'caught by `./check %s quick` (the property it actually breaks; `%s` itself stays silent)' % (
                other[0][0], prop)
            witness = first_sentence(other[0][1].get('first', ''), 220)
        elif name in OUT_OF_SCOPE:
            verdict = 'not caught - out of scope'
            witness = OUT_OF_SCOPE[name]
        else:
            verdict = 'NOT caught (%s)' % ', '.join('%s: exit %s' % (r['tier'], r['exit']) for r in res)
            witness = ''
        needs = ''
        notes = os.path.join(os.path.dirname(path), 'notes.md')
        if os.path.exists(notes):
            needs = first_sentence(open(notes).read(), 300)
        rows.append((name, prop, needs, verdict, witness))
    lines = [BEGIN, '', '| seeded change | what it is / what it needs to manifest | verdict | first counterexample reported |',
             '|---|---|---|---|']
    for name, prop, needs, verdict, witness in rows:
        esc = lambda s: s.replace('|', '\\|').replace('\n', ' ')
        lines.append('| `%s` | %s | %s | %s |' % (name, esc(needs), esc(verdict), esc(witness)))
    lines += ['', '%d seeded changes, %d caught, %d out of scope, %d missed.' % (
        len(rows), sum(1 for r in rows if r[3].startswith('caught')),
        sum(1 for r in rows if 'out of scope' in r[3]), sum(1 for r in rows if r[3].startswith('NOT'))), '', END]
    p = os.path.join(HERE, 'DESIGN.md')
    s = open(p).read()
    block = '\n'.join(lines)
    if BEGIN in s:
        s = s[:s.index(BEGIN)] + block + s[s.index(END) + len(END):]
    else:
        s = s.replace('## 8. Tooling decisions and limits', '### 7.1 Seeded changes and which check catches them\n\n' + block +
                      '\n\n---------------------------------------------------------------------------\n\n## 8. Tooling decisions and limits', 1)
    open(p, 'w').write(s)
    print('table: %d rows' % len(rows))


if __name__ == '__main__':
    main()
