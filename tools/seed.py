#!/usr/bin/env python3
"""Confirm a seeded property-breaking change and run the checks against it.

  tools/seed.py verify <PROP> <name> <patch.diff> <demo.py> [--others] [--thorough]

1. scratch worktree of /repo HEAD under /tmp/vm/<name> (removed afterwards)
2. clean tree: demo exits 0
3. patched tree: the repository's test suite still passes, demo exits 1
4. ./check <PROP> quick (and thorough when quick stays silent or --thorough) with HXVERIF_REPO=<worktree>
5. with --others: the quick checks of all other properties too
Writes /verif/seeded/<name>/{patch.diff,demo.py,meta.json} when steps 2-3 hold."""
import json
import os
import shutil
import subprocess
import sys
import time

VERIF = os.path.dirname(os.path.dirname(os.path.abspath(__file__)))
PY = '/venv/bin/python'


def sh(cmd, cwd=None, env=None, timeout=3600):
    p = subprocess.run(cmd, shell=True, cwd=cwd, env=env, stdout=subprocess.PIPE, stderr=subprocess.STDOUT, timeout=timeout)
    return p.returncode, p.stdout.decode(errors='replace')


def run_check(prop, tier, wt, out):
    env = dict(os.environ, HXVERIF_REPO=wt, HXVERIF_OUT=out)
    t = time.time()
    rc, o = sh('./check %s %s' % (prop, tier), cwd=VERIF, env=env)
    viol = [l for l in o.splitlines() if l.startswith('VIOLATION')]
    lines = o.splitlines()
    msgs = [lines[i - 1].strip()[:400] for i, l in enumerate(lines) if l.startswith('VIOLATION') and i > 0]
    return {'tier': tier, 'exit': rc, 'violations': len(viol), 'first': msgs[0] if msgs else '', 'wall_s': round(time.time() - t, 1),
            'harness_errors': [l for l in lines if l.startswith('HARNESS-ERROR')][:3], '_msgs': msgs}


def against_base(r, clean):
    """When the change is verified on an OLDER tree (--base), that tree may itself fail the current checks (defects repaired
    since): only violations the unpatched base does not show count as detection of the change."""
    msgs = r.pop('_msgs', [])
    if clean is not None and clean.get('exit') == 1:
        specific = [m for m in msgs if m not in clean.get('_msgs', [])]
        r['base_tree_itself_fails'] = True
        r['violations_not_on_base'] = len(specific)
        if not specific:
            r['exit'] = 0 if r['exit'] == 1 else r['exit']
            r['violations'] = 0
            r['first'] = ''
        else:
            r['first'] = specific[0]
    return r


def main(argv):
    if len(argv) < 5 or argv[0] != 'verify':
        print(__doc__)
        return 2
    prop, name, patch, demo = argv[1:5]
    others = '--others' in argv
    force_thorough = '--thorough' in argv
    wt = '/tmp/vm/%s' % name
    out = '/tmp/vm/%s_out' % name
    os.makedirs('/tmp/vm', exist_ok=True)
    sh('git -C /repo worktree remove --force %s' % wt)
    shutil.rmtree(wt, ignore_errors=True)
    base = 'HEAD'
    for a in argv:
        if a.startswith('--base='):
            base = a[len('--base='):]
    rc, o = sh('git -C /repo worktree add --detach %s %s' % (wt, base))
    if rc:
        print(o)
        return 2
    meta = {'property': prop, 'name': name, 'repo_head': sh('git -C /repo rev-parse --short %s' % base)[1].strip()}
    try:
        rc0, o0 = sh('%s %s' % (PY, os.path.abspath(demo)), cwd=wt)
        meta['demo_clean_exit'] = rc0
        clean = {}
        if base != 'HEAD':
            pids = [prop] + [pid for a in argv if a.startswith('--also=') for pid in a[len('--also='):].split(',')]
            for pid in pids:
                clean[pid] = run_check(pid, 'quick', wt, out)
        rc, o = sh('git apply %s' % os.path.abspath(patch), cwd=wt)
        if rc:
            # the library has moved on since the change was written: merge it onto the current head
            rc, o = sh('git apply --3way %s' % os.path.abspath(patch), cwd=wt)
            meta['applied_3way'] = (rc == 0)
            if rc == 0:
                sh('git reset -q', cwd=wt)
                sh('git diff > %s.rebased' % os.path.abspath(patch), cwd=wt)
        if rc:
            print('patch does not apply:\n' + o)
            meta['applies'] = False
            print(json.dumps(meta, indent=1))
            return 2
        meta['applies'] = True
        rc, o = sh('%s -m pytest -q -p no:cacheprovider' % PY, cwd=wt)
        meta['tests'] = o.strip().splitlines()[-1] if o.strip() else ''
        meta['tests_pass'] = (rc == 0 and '165 passed' in meta['tests'])
        rc1, o1 = sh('%s %s' % (PY, os.path.abspath(demo)), cwd=wt)
        meta['demo_patched_exit'] = rc1
        meta['demo_patched_output'] = o1.strip()[-600:]
        meta['valid'] = bool(meta['tests_pass'] and rc0 == 0 and rc1 != 0)
        res = [against_base(run_check(prop, 'quick', wt, out), clean.get(prop))]
        if (res[0]['exit'] == 0 and '--no-thorough' not in argv) or force_thorough:
            res.append(against_base(run_check(prop, 'thorough', wt, out), None))
        meta['checks'] = {prop: res}
        meta['detected'] = any(r['exit'] == 1 and r['violations'] for r in res)
        meta['detected_by'] = [prop] if meta['detected'] else []
        for a in argv:
            if a.startswith('--also='):
                for pid in a[len('--also='):].split(','):
                    r = against_base(run_check(pid, 'quick', wt, out), clean.get(pid))
                    meta['checks'][pid] = [r]
                    if r['exit'] == 1 and r['violations']:
                        meta['detected_by'].append(pid)
        if others:
            man = json.load(open(os.path.join(VERIF, 'MANIFEST.json')))
            for c in man['checks']:
                pid = c['property_id']
                if pid != prop:
                    r = against_base(run_check(pid, 'quick', wt, out), None)
                    meta['checks'][pid] = [r]
    finally:
        sh('git -C /repo worktree remove --force %s' % wt)
        shutil.rmtree(wt, ignore_errors=True)
        shutil.rmtree(out, ignore_errors=True)
    if meta.get('valid'):
        d = os.path.join(VERIF, 'seeded', name)
        os.makedirs(d, exist_ok=True)
        shutil.copy(patch + '.rebased' if meta.get('applied_3way') and os.path.exists(patch + '.rebased') else patch,
                    os.path.join(d, 'patch.diff'))
        shutil.copy(demo, os.path.join(d, 'demo.py'))
        notes = os.path.splitext(patch)[0].replace('patch', 'notes') + '.md'
        if os.path.exists(notes):
            shutil.copy(notes, os.path.join(d, 'notes.md'))
            meta['needs'] = open(notes).read()[:1500]
        meta['ran'] = ['git apply patch.diff (scratch worktree of /repo HEAD)', 'pytest -q (165 passed required)',
                       'demo.py on clean tree (exit 0) and patched tree (exit 1)',
                       'HXVERIF_REPO=<worktree> ./check %s quick [thorough]' % prop]
        with open(os.path.join(d, 'meta.json'), 'w') as f:
            json.dump(meta, f, indent=1)
    brief = dict((k, v) for k, v in meta.items() if k not in ('needs', 'demo_patched_output', 'ran'))
    print(json.dumps(brief, indent=1))
    return 0


if __name__ == '__main__':
    sys.exit(main(sys.argv[1:]))
