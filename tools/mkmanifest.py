#!/usr/bin/env python3
"""Regenerates /verif/MANIFEST.json from the table below (run after adding a check)."""
import json
import os

HERE = os.path.dirname(os.path.dirname(os.path.abspath(__file__)))

K3 = 'bounded-exhaustive enumeration of inputs/programs against an executable reference model (no sampling)'
K1 = 'explicit-state exploration of operation histories on the real objects against an executable reference model'
K2 = 'stateless schedule exploration of two real threads under a cooperative scheduler, preemption-bounded (iterative context bounding)'

# id -> (technique, level text, level note, design ref)
CHECKS = {
    'C19': ('exhaustive enumeration of the whole label space (475 254 columns, 1 048 576 rows) against an '
            'enumeration-order reference; ' + K3,
            'Every column label of 1..4 letters, every row 1..1048576, every $ pattern and case, and every '
            'string of length <=5 over a 10-character alphabet is decomposed/recomposed by the real helper '
            'functions and compared with an independent bijective base-26 reference: within that space the '
            'claim is decided completely, which is the whole of Excel\'s grid.',
            'Trusted: the reference grammar for labels and itertools.product order as the definition of '
            'bijective base-26. Rows "0"/leading-zero rows are not demanded either way.', 'DESIGN.md §5 C19'),
    'C20': ('explicit-state exploration of on/once/off/emit histories on the real Emitter against an executable '
            'reference model (tree enumeration to depth 3/4 + state-merging BFS to closure); ' + K1,
            'Every operation sequence up to depth 3 (quick) / 4 (thorough) over 36 operations - two event names, '
            'plain, once, context-carrying, falsy, bound-method (equal but not identical) and re-entrant callbacks that subscribe, unsubscribe and emit '
            'during delivery - is executed on a fresh real Emitter and on the reference model and the complete '
            'listener call logs are compared after every step and after a final probe; a state-merging search over '
            'model states runs to closure. This decides the property for all histories within those bounds.',
            'Trusted: the 40-line reference model (ModelEmitter) as the reading of the statement; callbacks compared '
            'by identity. Beyond depth 4 only the state-merging search applies (merging on model state).',
            'DESIGN.md §5 C20'),
    'C04': ('exhaustive enumeration of expression trees (all shapes x operators x unary-minus placements x leaf kinds up to '
            '3/5 binary operators) rendered three ways and evaluated by the real parser against an exact-rational tree '
            'evaluator; ' + K3,
            'All trees up to the size bound are enumerated, so every way the LALR table could group two or three adjacent '
            'operators differently from the stated reading is exercised; leaves are distinct primes so a wrong grouping '
            'changes the value. Deep chains (depth 30) cover the depth dimension deterministically.',
            'Trusted: the 60-line renderer that encodes the stated precedence reading and the Fraction evaluator. Not '
            'demanded: ^ (chained comparisons group left to right on one level; the rank of & is demanded: between + - and the comparisons; & is mixed with arithmetic subtrees of up to 2 operators). Trees with more than 5 operators are only '
            'covered by the deterministic chains.', 'DESIGN.md §5 C04'),
    'C05': ('exhaustive enumeration of literal spellings, whitespace placements at every token boundary of a formula '
            'corpus, the three separator styles and all 2^k blank-slot patterns, evaluated by the real parser; ' + K3,
            'The lexer and the three copy-pasted sequence productions are exercised on every digit string / decimal / '
            'percent / power literal of the bound, every short string over an adversarial 15-character alphabet, every '
            'whitespace insertion point of ~150 (quick) / ~450 (thorough) formulas and every present/absent pattern of up '
            'to 6/7 slots in all three separator styles, with a recording custom function as the observer.',
            'Trusted: Python int()/Fraction as the meaning of a decimal spelling; the hand-written token corpus. One '
            'known finding (string content ending in a backslash followed later by the same quote).', 'DESIGN.md §5 C05'),
    'C08': ('exhaustive enumeration of error producers x operator contexts x observers, of all ordered code pairs x '
            'operators, and of all small expression trees with every subset of leaves replaced by error values, against '
            'a reference error algebra; ' + K3,
            'Every way an error value can meet an operator (11 operators, either side, both sides with different codes, '
            'unary minus, two/three nesting levels, and with 11 kinds of OTHER operand - non-numeric, empty and numeric text, logical, blank, float, array, date text, calls) is enumerated for 75 producers (built-in, literal, host variable/cell, custom function returning or raising shared and host-made error objects) and observed at the top '
            'level and through all six trapping functions; trees with every error/non-error leaf assignment check the '
            'left-most-wins rule at depth.',
            'Trusted: the reference algebra (operators strict, left operand first, literal aborts). Which code a Python '
            'exception maps to is not demanded.',
            'DESIGN.md §5 C08'),
    'C09': ('exhaustive enumeration of identifier-shaped names, host value types, call-site patterns, the documented and '
            'not-yet-supported function lists and unknown names x syntactic positions, through Parser.parse; ' + K3,
            'Every identifier of length <= 4/5 over an alphabet chosen to hit the lexer\'s token-class boundaries is set and '
            'read back by identity and must be #NAME? when unset; all 156 documented names must resolve and be shadowable; '
            'all 332 not-yet-supported names and all short unknown shapes must give #NAME? in 18 positions; custom functions '
            'are observed through a call log, incl. falsy callable objects, lower-case twins of built-in names and functions that reject what they are given (called once, no retry).',
            'Trusted: SUPPORTED_FORMULAS.md as the list of documented names; identifier grammar [A-Za-z_][A-Za-z0-9_]*.',
            'DESIGN.md §5 C09'),
    'C10': ('exhaustive enumeration of formulas up to a node bound (event order), of the whole cell-label space '
            '(coordinates), of corner orders x $ patterns (ranges) and of all setter-call sequences (explicit-state, K1) with '
            'recording listeners as the observer; ' + K3,
            'All expression trees with <= 5/6 nodes mixing cells, ranges, variables and nested calls are evaluated with '
            'recording listeners and the event list compared with a reference post-order walk; every column label of <= 3/4 '
            'letters and every row are sent through a formula and the event coordinates compared with an independent '
            'bijective base-26 reference; all sequences of <= 3 subscription operations (on, once, off, off before anything was subscribed) per event followed by evaluations are compared with the emitter model; cell objects handed to listeners are kept and compared after the evaluation; all setter sequences of length <= 3 over 8 values (falsy ones included) from one or '
            'two listeners are replayed for each of the event kinds.',
            'Trusted: the reference post-order evaluator (SUM/+/*/unary minus only) and itertools.product order as '
            'bijective base-26.', 'DESIGN.md §5 C10'),
    'C06': ('exhaustive enumeration of ordered operand pairs over a typed value pool x 5 operators x supply routes, and of '
            'small arrays, against an exact-rational conversion-table model; ' + K3,
            'All ordered pairs of 26 scalars of every operand type x + - * / and all pairs of 29 scalars under & are evaluated '
            'with operands supplied as variables, cells and literals and compared with a reference model (numeric value in '
            'Fractions, result kind transcribed from the repository tests, commutativity); arrays of length <= 3/4 against '
            'scalars, equal-length and mismatching arrays, nested 2x2 arrays.',
            'Trusted: the transcribed result-kind table and the reference classifier; rel 1e-9 / 0.5 ms tolerances. Date '
            'results below serial 61 are only loosely constrained.', 'DESIGN.md §5 C06'),
    'C07': ('exhaustive enumeration of all ordered pairs (and, on the computed relation matrix, all triples) of a 26-value '
            'pool x 6 comparison operators; ' + K3,
            'The full 26x26 relation matrix for the six operators is computed through the parser (operands as variables, '
            'cells, literals) and every law of the statement - trichotomy, derived relations, converse, transitivity of < '
            'and =, type ranking, blank conversions - is checked on every pair / triple.',
            'Trusted: the reference key (numbers/dates by value, text by code point on lower-case strings, logicals last).',
            'DESIGN.md §5 C07'),
    'C11': ('exhaustive enumeration of all numeric lists up to length 4 over a 7-value pool, of all regroupings into '
            'arguments / (nested) arrays, of criteria x data lists and of error placements, against exact-rational '
            'definitions; ' + K3,
            'Every list of length <= 4 over {-3,-1,0,1,2,2.5,4} (hence all permutations and duplicates) is fed to each '
            'aggregate in every grouping and compared with the textbook definition in Fractions; criteria functions are '
            'compared with an independent criteria interpreter and wildcard matcher over all criteria of the three forms; '
            'each error code is placed at each position. Whole-number arguments spelled as floats must behave as the integer, and all functions of the family are evaluated on shared arguments in one pristine process in both orders, each outcome bit-identical to the same formula as the only evaluation of a pristine process (no state shared between sibling functions).',
            'Trusted: the Fraction reference statistics and the recursive wildcard matcher. MODE on multimodal lists, COUNT '
            'of non-numeric items, criteria given as numbers are not demanded.', 'DESIGN.md §5 C11'),
    'C12': ('exhaustive enumeration of truth-value tuples (length <= 6), condition lists, SWITCH case lists, error '
            'placements and a typed value pool for the predicates, against truth tables; ' + K3,
            'All tuples of length 1..5 over 8 truth-relevant values (all of length <= 6 in thorough), flat and regrouped '
            'into nested arrays, all IFS/SWITCH lists up to length 3/4, every error code in every non-short-circuitable '
            'condition position, and every predicate on a value of every type.',
            'Trusted: numeric truthiness model; SWITCH equality = spreadsheet equality (TRUE <> 1).', 'DESIGN.md §5 C12'),
    'C15': ('exhaustive enumeration of all strings of length <= 3 over a 12-character alphabet (+ structured strings to '
            'length 60) x all counts/starts, all SUBSTITUTE (text, old, new, k) tuples and all item lists, against Python '
            'string semantics and the algebraic laws evaluated as formulas; ' + K3,
            'Every short string over an alphabet with ASCII, accented, CJK, space and control characters is sliced with '
            'every count 0..len+5 and negatives; the laws LEFT&RIGHT=s, MID(s,1,n)=LEFT(s,n), LEN(a&b)=LEN(a)+LEN(b), '
            'idempotence and CODE(CHAR(n))=n are evaluated as formulas; SUBSTITUTE is compared with a left-to-right '
            'occurrence scan. Whole-number arguments spelled as floats must behave as the integer, and all functions of the family are evaluated on shared arguments in one pristine process in both orders, each outcome bit-identical to the same formula as the only evaluation of a pristine process (no state shared between sibling functions).',
            'Trusted: Python slicing/str methods as reference on BMP characters; explicit case table for UPPER/LOWER.',
            'DESIGN.md §5 C15'),
    'C16': ('exhaustive enumeration of deterministic argument grids (dyadic rationals, powers of ten, multiples of pi) '
            'inside and outside each domain, of coercion inputs, of PV parameter products and of every answer of an '
            'enumerated random source (environment seam); ' + K3,
            'Each elementary function is evaluated on the whole grid as number, numeric text and logical and compared with '
            'the math-module value of its defining function; identities are evaluated on the grid; ATAN2 covers all four '
            'half-axes and the origin; RAND/RANDBETWEEN run under a replaced random source whose every answer is '
            'enumerated. Whole-number arguments spelled as floats must behave as the integer, and all functions of the family are evaluated on shared arguments in one pristine process in both orders, each outcome bit-identical to the same formula as the only evaluation of a pristine process (no state shared between sibling functions).',
            'Trusted: stdlib math as reference (rel 1e-9); grids replace the statement\'s "random reals" - nothing is '
            'claimed off-grid.', 'DESIGN.md §5 C16'),
    'C18': ('exhaustive enumeration of position-coded arrays up to 4x4 / 8x8 x all index pairs in -10..size+10 x supply '
            'routes, of all short MATCH arrays x lookup values x match types; ' + K3,
            'Because every array element encodes its own position, "never another element" is decidable per case; all '
            '(row, col) pairs including omitted/blank/zero/negative are enumerated for literals, host variables and '
            'ranges; MATCH is compared with a reference on every sorted array of length <= 5/6 over a 5-value pool and '
            'every text array over a wildcard-bearing pool. Whole-number arguments spelled as floats must behave as the integer, and all functions of the family are evaluated on shared arguments in one pristine process in both orders, each outcome bit-identical to the same formula as the only evaluation of a pristine process (no state shared between sibling functions).',
            'Trusted: reference reading of one-dimensional INDEX forms (either axis accepted).', 'DESIGN.md §5 C18'),
    'C01': ('exhaustive enumeration of token soups, code points, function x arity x typed-argument tuples, truncations, and '
            'of all placements of callback faults (fault enumeration), each parse executed under a deterministic '
            'line-event step budget; ' + K3,
            'All concatenations of <= 3/4 lexemes from an alphabet with one exemplar per lexer token class, every Unicode '
            'code point in five contexts, every documented function at arities 0..3/4 over a pool holding a value of every '
            'type, every prefix/suffix/deletion of a corpus, and every placement of <= 1/2 misbehaving callbacks (25 '
            'exception kinds incl. hostile __str__/__repr__/__eq__/__hash__, 10 odd return values) over every callback invocation of 14 templates, and every placement of 14 things a callback may DO (evaluate on the same or another parser, subscribe chains of listeners, re-subscribe, unsubscribe, rebind; with a 5 s wall-clock alarm against deadlock) are parsed; the record '
            'must be well-formed and the call must finish within 200 000 interpreter line events. Deep nesting (1 500-3 000 '
            'levels of brackets, calls, host lists) and prefix+unit^N repetition families (under a wall-clock alarm, for '
            'stalls below the Python level such as regex backtracking) complete the input space; every documented function x arity 1..3 over a pool of huge numbers (1e9 .. 1e308) and 16 huge integer-power literals run under a 3 s wall-clock alarm and an address-space limit (value-dependent blow-ups execute no Python line).',
            'Trusted: sys.monitoring line/jump events as the measure of "bounded time"; for C-level stalls a 10 s + 40 s '
            'wall-clock alarm (normal parse: 0.1-1 ms). Magnitudes are capped at 1000; self-containing host lists are out of '
            'bound.', 'DESIGN.md §5 C01, §7'),
    'C17': ('exhaustive enumeration of number pools x digits / significances, boundary-exhaustive 40-bit hex sweeps, all '
            '(n, radix) pairs of the bound, all 1..3999 x ROMAN forms, under a deterministic step budget; ' + K3,
            'Characterising inequalities are checked in exact rationals on every (number, digits) / (number, significance) '
            'pair of the pools; HEX2DEC(DEC2HEX(n)) on every n within 2^12/2^16 of -2^39, 0, 2^39 and all one/two-digit '
            'patterns; DECIMAL(BASE(n,r),r) for every radix 2..36 x n <= 500/5000 and digit-length boundaries; every Roman '
            'form of every n; out-of-range arguments must give an error within the step budget. Whole-number arguments spelled as floats must behave as the integer, and all functions of the family are evaluated on shared arguments in one pristine process in both orders, each outcome bit-identical to the same formula as the only evaluation of a pristine process (no state shared between sibling functions).',
            'Trusted: Fraction arithmetic, two independent Roman evaluators. The 2^40 hex range is boundary-exhaustive '
            'only.', 'DESIGN.md §5 C17'),
    'C02': ('explicit-state exploration of operation histories on a real parser with a differential oracle (fresh parser '
            'with the same bindings), breadth-first closure of the reachable canonical heap fingerprints (each expansion '
            'replayed in a forked child), repetition ladders for retained traceback/frame objects, and exhaustive '
            'host-value immutability sweeps; ' + K1,
            'All histories of <= 2/3 operations over a 39-operation alphabet (32 residue-leaving formulas incl. failing '
            'ones that read cells first, raising callbacks, reversed ranges and equal-but-differently-typed values; rebinding; listener on/off; the host changing every cell and range value between two evaluations) '
            'are replayed in a PRISTINE process (fork server started before anything is evaluated) and followed by 27 '
            'probes, each compared with its outcome as the only evaluation of a pristine process, with debug off and on; the '
            'set of heap states reachable by parse operations is searched to a fixpoint (~150 states on the current tree), '
            'which decides the unbounded-repetition clause; interpreter-wide settings (recursion limit, int/str digit limit, locale, time zone, environment ...) are compared before and after every evaluation; results that are lists are mutated by the host and the formula evaluated again (no aliasing of caches); every documented function x '
            'arity <= 2/3 x list-valued argument position is checked for deep-equality of host values before/after. The clock is an environment answer: formulas without NOW / TODAY over 39 date texts (complete, without a day, a time of day only, without a year, with a two-digit year) give one outcome under 4 clocks.',
            'Trusted: the heap fingerprint (stdlib objects opaque); fork() to restore a state; clock/random seams. PLY '
            'leftovers are part of the state key, not of the oracle.', 'DESIGN.md §5 C02'),
    'C03': ('stateless schedule exploration of two real threads (one parser each) under a cooperative scheduler with '
            'iterative preemption bounding at source-line granularity, plus explicit-state exploration of nested '
            'evaluations interposed at every callback invocation and of binding histories on sibling parsers; ' + K2,
            'For each ordered pair of formulas every schedule with <= 1 preemption (all pairs), <= 2 (selected pairs) and <= '
            '3 (two pairs, thorough) over ~150-350 scheduling points is executed on real threads and each outcome compared '
            'with the solo outcome (the two parsers carry DIFFERENT bindings, so an evaluation that reaches the other parser shows); the <= 1 preemption space of 3 pairs is also explored with every execution as the first evaluations of a pristine process (fork server), so that one-time initialisation happens under the scheduler; replaying a prefix must reproduce the recorded points (divergence is a hard error). '
            'Nested evaluation is interposed at every callback invocation, every pair of invocations and all invocations of 10 outer templates for 10 inner formulas on a '
            'pre-built parser, a parser built in the callback and the same parser (each with bindings of its own) and the same parser with a variable rebound around the nested evaluation, to depth 2; 700 three-cell sheets x 9 formulas whose listeners resolve references by evaluating the referenced cell on the same parser, against bottom-up evaluation; binding histories on parser A are observed from parser B, each history in a pristine process.',
            'Trusted: sys.settrace line events in hotxlfp files + ply lexer entry points as the scheduling points (an update '
            'lost inside one source line is outside the model); the baton scheduler (one semaphore per thread).',
            'DESIGN.md §5 C03'),
    'C13': ('exhaustive calendar sweep: every day 1900-01-01..9999-12-31 and every integer serial 61..2958465 (thorough), '
            'every second of chosen days and every millisecond of chosen seconds, through Parser.parse against '
            'date.toordinal arithmetic; ' + K3,
            'The conversion has two hard-coded epoch adjustments; only a sweep of all days exposes single-day breaks. Round '
            'trip, strict monotonicity, the Excel-1900 serial from 1 March 1900 on, day offsets and the agreement of '
            'DATEVALUE / N / DAYS / comparisons are checked for every day (thorough) or for the boundary years plus the '
            'month/year boundaries of every year (quick). Every formula binding a date-time with a time of day is also evaluated with the values delivered by the cell listener (identical outcome demanded), and instants are compared with whole-day plain numbers; the conversions are repeated with the process in 6 time zones (POSIX TZ strings) on clock-change days and epoch boundaries.',
            'Trusted: datetime.date ordinals as the calendar. Before 1 March 1900 only round trip and monotonicity are '
            'demanded. Millisecond instants are covered on a grid, not exhaustively.', 'DESIGN.md §5 C13'),
    'C14': ('exhaustive calendar sweep of (y,m,d), all 86400 (h,m,s), all ordered date pairs inside boundary windows, all '
            'month offsets -120000..120000 from chosen starts, the three weekday numberings, against datetime.date '
            'arithmetic; ' + K3,
            'YEAR/MONTH/DAY/WEEKDAY for every calendar day (thorough), HOUR/MINUTE/SECOND for every time of day, DAYS and '
            'DATEDIF (d, m, y, ym) for every ordered pair inside windows around 1900, 2000, 2100 and for day+delta over '
            'boundary years, EDATE for every offset in the stated range from six starts and small offsets from every day '
            'of the boundary years; date-time objects handed in by the host for every hour x minute of 3/5 days; the same functions with the process in 6 time zones. Whole-number arguments spelled as floats must behave as the integer, and all functions of the family are evaluated on shared arguments in one pristine process in both orders, each outcome bit-identical to the same formula as the only evaluation of a pristine process (no state shared between sibling functions).',
            'Trusted: datetime.date arithmetic and the stated definitions of whole months/years. DATEDIF md/yd and '
            'text/fractional arguments are not demanded.', 'DESIGN.md §5 C14'),
}

SCALE = {
    'C02': 'number of evaluations on one parser before the probes',
    'C03': 'depth 1..80 of re-entrant evaluation (cells, variables, functions, one scoped name)',
    'C04': 'length of an operator chain, parenthesis and unary-minus depth',
    'C05': 'digits of a literal, characters of a quoted literal, blanks, arguments, slots',
    'C06': 'array length, padded numeric and date text',
    'C07': 'texts differing in the last of n characters, n-digit integers',
    'C08': 'the one error at the first / middle / last place of n operands, arguments or nesting levels',
    'C09': 'number of variables and custom functions on one parser',
    'C10': 'number of references in one formula',
    'C11': 'a permutation of 1..n as flat list, rows of 16, range, arguments and literal array',
    'C12': 'number of truth values, IFS conditions and SWITCH cases',
    'C15': 'text length and item count, runs of blank items',
    'C18': 'vector and grid sizes, CHOOSE arity',
    'C20': 'number of listeners on one name',
}
CHANNELLED = ('C04', 'C05', 'C06', 'C07', 'C08', 'C11', 'C12', 'C13', 'C14', 'C15', 'C16', 'C17', 'C18')

NOT_YET = 'check not built yet in this session (see DESIGN.md §5 for the planned bounded-exhaustive check)'


def main():
    props = [json.loads(l) for l in open(os.path.join(HERE, 'properties.jsonl')) if l.strip()]
    checks = []
    na = []
    for p in props:
        pid = p['id']
        if pid in CHECKS and os.path.exists(os.path.join(HERE, 'hxverif', 'props', pid.lower() + '.py')):
            tech, text, note, ref = CHECKS[pid]
            if pid in SCALE:
                text += (' A size ladder (every size to 13, then the neighbourhoods of 16, 32, 64, 100, 128, 256, 512, 1000, 1024 '
                         '[2048, 4096]) with closed-form oracles covers the size dimension: ' + SCALE[pid] + '.')
            if pid in CHANNELLED:
                text += (' A hash-selected share of all variable-binding evaluations is repeated with the values handed in by the '
                         'cell / range listeners, by custom functions, and as instances of subclasses of float / int / str / '
                         'datetime / list; outcomes must agree.')
            checks.append({
                'property_id': pid,
                'quick_cmd': './check %s quick' % pid,
                'thorough_cmd': './check %s thorough' % pid,
                'evidence_file': '/verif/evidence/%s.json' % pid,
                'replay_cmd_template': './check %s --replay {path}' % pid,
                'engine': 'hxverif',
                'level_claimed': {'category': 'model_checking', 'text': text, 'design_ref': ref},
                'level_note': note,
                'technique': tech,
            })
        else:
            na.append({'property_id': pid, 'reason': NOT_YET})
    man = {
        'version': 1,
        'setup_cmd': './check selftest',
        'hooks': {
            'guard': 'HOTXLFP_VERIF',
            'enable': 'no source hooks are needed: every observation point is reachable through the public API, '
                      'sys.settrace/sys.monitoring and module attributes replaced from outside; checks import a '
                      'private snapshot of /repo/hotxlfp (current working tree) taken at start-up',
            'baseline_off_cmd': 'cd /repo && /venv/bin/python -m pytest -ra -q -p no:cacheprovider --timeout=900 '
                                '--continue-on-collection-errors',
            'source_commits': [],
            'add_only': True,
        },
        'engines': [{
            'name': 'hxverif',
            'path': '/verif/hxverif',
            'serves_properties': [c['property_id'] for c in checks],
            'kind_free_text': 'hand-written bounded-exhaustive explorers in Python run on the real code: explicit-state '
                              'history search (K1), preemption-bounded schedule search (K2), exhaustive input/program '
                              'enumeration against reference models (K3)',
        }],
        'checks': checks,
        'notes': 'All checks: ./check <ID> quick|thorough, replay with ./check <ID> --replay <file>. Known findings: '
                 '/verif/known_findings.json. VERIF_SEED only permutes visiting order/sharding of the fixed finite space.',
        'not_applicable': na,
    }
    with open(os.path.join(HERE, 'MANIFEST.json'), 'w') as f:
        json.dump(man, f, indent=1)
        f.write('\n')
    print('MANIFEST: %d checks, %d not claimed' % (len(checks), len(na)))


if __name__ == '__main__':
    main()
