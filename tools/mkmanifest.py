#!/usr/bin/env python3
"""Regenerates /verif/MANIFEST.json from the table below (run after adding a check)."""
import json
import os

HERE = os.path.dirname(os.path.dirname(os.path.abspath(__file__)))

K3 = 'bounded-exhaustive enumeration of inputs/programs against an executable reference model (no sampling)'
K1 = 'explicit-state exploration of operation histories on the real objects against an executable reference model'
K2 = 'stateless schedule exploration of two real threads under a cooperative scheduler, preemption-bounded (iterative context bounding)'

# id -> (technique, level text, level note, design ref)
CHECKS = {
    'C19': ('exhaustive enumeration of the whole label space (475 254 columns, 1 048 576 rows) against an '
            'enumeration-order reference; ' + K3,
            'Every column label of 1..4 letters, every row 1..1048576, every $ pattern and case, and every '
            'string of length <=5 over a 10-character alphabet is decomposed/recomposed by the real helper '
            'functions and compared with an independent bijective base-26 reference: within that space the '
            'claim is decided completely, which is the whole of Excel\'s grid.',
            'Trusted: the reference grammar for labels and itertools.product order as the definition of '
            'bijective base-26. Rows "0"/leading-zero rows are not demanded either way.', 'DESIGN.md §5 C19'),
    'C20': ('explicit-state exploration of on/once/off/emit histories on the real Emitter against an executable '
            'reference model (tree enumeration to depth 3/4 + state-merging BFS to closure); ' + K1,
            'Every operation sequence up to depth 3 (quick) / 4 (thorough) over 33 operations - two event names, '
            'plain, once, context-carrying, falsy and re-entrant callbacks that subscribe, unsubscribe and emit '
            'during delivery - is executed on a fresh real Emitter and on the reference model and the complete '
            'listener call logs are compared after every step and after a final probe; a state-merging search over '
            'model states runs to closure. This decides the property for all histories within those bounds.',
            'Trusted: the 40-line reference model (ModelEmitter) as the reading of the statement; callbacks compared '
            'by identity. Beyond depth 4 only the state-merging search applies (merging on model state).',
            'DESIGN.md §5 C20'),
    'C04': ('exhaustive enumeration of expression trees (all shapes x operators x unary-minus placements x leaf kinds up to '
            '3/5 binary operators) rendered three ways and evaluated by the real parser against an exact-rational tree '
            'evaluator; ' + K3,
            'All trees up to the size bound are enumerated, so every way the LALR table could group two or three adjacent '
            'operators differently from the stated reading is exercised; leaves are distinct primes so a wrong grouping '
            'changes the value. Deep chains (depth 30) cover the depth dimension deterministically.',
            'Trusted: the 60-line renderer that encodes the stated precedence reading and the Fraction evaluator. Not '
            'demanded: rank of & against arithmetic, chained comparisons, ^. Trees with more than 5 operators are only '
            'covered by the deterministic chains.', 'DESIGN.md §5 C04'),
    'C05': ('exhaustive enumeration of literal spellings, whitespace placements at every token boundary of a formula '
            'corpus, the three separator styles and all 2^k blank-slot patterns, evaluated by the real parser; ' + K3,
            'The lexer and the three copy-pasted sequence productions are exercised on every digit string / decimal / '
            'percent / power literal of the bound, every short string over an adversarial 15-character alphabet, every '
            'whitespace insertion point of ~150 (quick) / ~450 (thorough) formulas and every present/absent pattern of up '
            'to 6/7 slots in all three separator styles, with a recording custom function as the observer.',
            'Trusted: Python int()/Fraction as the meaning of a decimal spelling; the hand-written token corpus. One '
            'known finding (string content ending in a backslash followed later by the same quote).', 'DESIGN.md §5 C05'),
    'C08': ('exhaustive enumeration of error producers x operator contexts x observers, of all ordered code pairs x '
            'operators, and of all small expression trees with every subset of leaves replaced by error values, against '
            'a reference error algebra; ' + K3,
            'Every way an error value can meet an operator (11 operators, either side, both sides with different codes, '
            'unary minus, two/three nesting levels) is enumerated for 40 producers of five kinds and observed at the top '
            'level and through all six trapping functions; trees with every error/non-error leaf assignment check the '
            'left-most-wins rule at depth.',
            'Trusted: the reference algebra (operators strict, left operand first, literal aborts). Which code a Python '
            'exception maps to is not demanded. One known finding (#N/A literal directly followed by "/").',
            'DESIGN.md §5 C08'),
    'C09': ('exhaustive enumeration of identifier-shaped names, host value types, call-site patterns, the documented and '
            'not-yet-supported function lists and unknown names x syntactic positions, through Parser.parse; ' + K3,
            'Every identifier of length <= 4/5 over an alphabet chosen to hit the lexer\'s token-class boundaries is set and '
            'read back by identity and must be #NAME? when unset; all 156 documented names must resolve and be shadowable; '
            'all 332 not-yet-supported names and all short unknown shapes must give #NAME? in 18 positions; custom functions '
            'are observed through a call log.',
            'Trusted: SUPPORTED_FORMULAS.md as the list of documented names; identifier grammar [A-Za-z_][A-Za-z0-9_]*.',
            'DESIGN.md §5 C09'),
    'C10': ('exhaustive enumeration of formulas up to a node bound (event order), of the whole cell-label space '
            '(coordinates), of corner orders x $ patterns (ranges) and of all setter-call sequences (explicit-state, K1) with '
            'recording listeners as the observer; ' + K3,
            'All expression trees with <= 5/6 nodes mixing cells, ranges, variables and nested calls are evaluated with '
            'recording listeners and the event list compared with a reference post-order walk; every column label of <= 3/4 '
            'letters and every row are sent through a formula and the event coordinates compared with an independent '
            'bijective base-26 reference; all setter sequences of length <= 3 over 8 values (falsy ones included) from one or '
            'two listeners are replayed for each of the event kinds.',
            'Trusted: the reference post-order evaluator (SUM/+/*/unary minus only) and itertools.product order as '
            'bijective base-26.', 'DESIGN.md §5 C10'),
}

NOT_YET = 'check not built yet in this session (see DESIGN.md §5 for the planned bounded-exhaustive check)'


def main():
    props = [json.loads(l) for l in open(os.path.join(HERE, 'properties.jsonl')) if l.strip()]
    checks = []
    na = []
    for p in props:
        pid = p['id']
        if pid in CHECKS and os.path.exists(os.path.join(HERE, 'hxverif', 'props', pid.lower() + '.py')):
            tech, text, note, ref = CHECKS[pid]
            checks.append({
                'property_id': pid,
                'quick_cmd': './check %s quick' % pid,
                'thorough_cmd': './check %s thorough' % pid,
                'evidence_file': '/verif/evidence/%s.json' % pid,
                'replay_cmd_template': './check %s --replay {path}' % pid,
                'engine': 'hxverif',
                'level_claimed': {'category': 'model_checking', 'text': text, 'design_ref': ref},
                'level_note': note,
                'technique': tech,
            })
        else:
            na.append({'property_id': pid, 'reason': NOT_YET})
    man = {
        'version': 1,
        'setup_cmd': './check selftest',
        'hooks': {
            'guard': 'HOTXLFP_VERIF',
            'enable': 'no source hooks are needed: every observation point is reachable through the public API, '
                      'sys.settrace/sys.monitoring and module attributes replaced from outside; checks import a '
                      'private snapshot of /repo/hotxlfp (current working tree) taken at start-up',
            'baseline_off_cmd': 'cd /repo && /venv/bin/python -m pytest -ra -q -p no:cacheprovider --timeout=900 '
                                '--continue-on-collection-errors',
            'source_commits': [],
            'add_only': True,
        },
        'engines': [{
            'name': 'hxverif',
            'path': '/verif/hxverif',
            'serves_properties': [c['property_id'] for c in checks],
            'kind_free_text': 'hand-written bounded-exhaustive explorers in Python run on the real code: explicit-state '
                              'history search (K1), preemption-bounded schedule search (K2), exhaustive input/program '
                              'enumeration against reference models (K3)',
        }],
        'checks': checks,
        'notes': 'All checks: ./check <ID> quick|thorough, replay with ./check <ID> --replay <file>. Known findings: '
                 '/verif/known_findings.json. VERIF_SEED only permutes visiting order/sharding of the fixed finite space.',
        'not_applicable': na,
    }
    with open(os.path.join(HERE, 'MANIFEST.json'), 'w') as f:
        json.dump(man, f, indent=1)
        f.write('\n')
    print('MANIFEST: %d checks, %d not claimed' % (len(checks), len(na)))


if __name__ == '__main__':
    main()
