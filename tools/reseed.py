#!/usr/bin/env python3
"""Regression of detection on the CURRENT head of /repo: every seeded change under /verif/seeded that still applies
(`git apply`, else `git apply --3way`) and whose demonstration still fails on the patched tree is run against the
quick check of its property (and of the properties recorded as having caught it).  Nothing under /verif/seeded is
rewritten; one JSON line per change goes to stdout, a summary to stderr.

    python3 tools/reseed.py [-j N] [name ...]
"""
import concurrent.futures
import glob
import json
import os
import shutil
import subprocess
import sys

VERIF = os.path.dirname(os.path.dirname(os.path.abspath(__file__)))
PY = '/venv/bin/python'


def sh(cmd, cwd=None, env=None, timeout=3600):
    p = subprocess.run(cmd, shell=True, cwd=cwd, env=env, stdout=subprocess.PIPE, stderr=subprocess.STDOUT, timeout=timeout)
    return p.returncode, p.stdout.decode('utf-8', 'replace')


def one(name):
    d = os.path.join(VERIF, 'seeded', name)
    meta = json.load(open(os.path.join(d, 'meta.json')))
    prop = meta['property']
    wt = '/tmp/vm/reseed_%s' % name
    out = '/tmp/vm/reseed_%s_out' % name
    sh('git -C /repo worktree remove --force %s' % wt)
    shutil.rmtree(wt, ignore_errors=True)
    res = {'name': name, 'property': prop}
    rc, o = sh('git -C /repo worktree add --detach %s HEAD' % wt)
    try:
        rc, o = sh('git apply %s' % os.path.join(d, 'patch.diff'), cwd=wt)
        if rc != 0:
            rc, o = sh('git apply --3way %s' % os.path.join(d, 'patch.diff'), cwd=wt)
        if rc != 0:
            res['state'] = 'does-not-apply'
            return res
        rc, o = sh('%s -m pytest -q -p no:cacheprovider --timeout=900' % PY, cwd=wt)
        if rc != 0 or '165 passed' not in o:
            res['state'] = 'tests-fail'
            return res
        rc, o = sh('%s %s' % (PY, os.path.join(d, 'demo.py')), cwd=wt, timeout=1200)
        if rc == 0:
            res['state'] = 'no-longer-breaks'      # the demonstration passes on the patched current head
            return res
        props = [prop] + [p for p, r in meta.get('checks', {}).items() if p != prop and r and r[0].get('exit') == 1 and r[0].get('violations')]
        caught = []
        for p in props:
            env = dict(os.environ, HXVERIF_REPO=wt, HXVERIF_OUT=out)
            rc, o = sh('./check %s quick' % p, cwd=VERIF, env=env)
            if rc == 1 and 'VIOLATION' in o:
                caught.append(p)
                break
        res['state'] = 'caught' if caught else 'MISSED'
        res['by'] = caught
        return res
    except subprocess.TimeoutExpired:
        res['state'] = 'timeout'
        return res
    finally:
        sh('git -C /repo worktree remove --force %s' % wt)
        shutil.rmtree(wt, ignore_errors=True)
        shutil.rmtree(out, ignore_errors=True)


def main(argv):
    jobs = 2
    if argv and argv[0] == '-j':
        jobs = int(argv[1])
        argv = argv[2:]
    names = argv or sorted(os.path.basename(os.path.dirname(p)) for p in glob.glob(os.path.join(VERIF, 'seeded', '*', 'meta.json')))
    counts = {}
    with concurrent.futures.ThreadPoolExecutor(jobs) as ex:
        for r in ex.map(one, names):
            counts[r['state']] = counts.get(r['state'], 0) + 1
            print(json.dumps(r))
            sys.stdout.flush()
    sys.stderr.write('reseed: %s\n' % json.dumps(counts, sort_keys=True))
    return 0


if __name__ == '__main__':
    sys.exit(main(sys.argv[1:]))
